------------------------------ MODULE ZBigTrace ------------------------------
(* Big collections (C09): the size paths that differ above RangeDeleteNum /     *)
(* MAX_BATCH_NUM (5000 elements) - LTRIM, H/S/Z/LCLEAR, ZREMRANGEBY* use range  *)
(* deletes there.  The driver (smsim -big N) fills one key per type with N      *)
(* numbered elements through the apply path (element i: list value "i", member  *)
(* / field "m<i, 5 digits>", score i), removes prefixes / suffixes / everything  *)
(* and logs counts-only observations.  The model is an interval abstraction: a   *)
(* collection is the set of element numbers lo..hi (<<0, -1>> = empty).          *)
(* Line kinds: reset, bfill (append elements from..to), bop (ltrim, clear,       *)
(* zremrank, zremscore, zremlex, lpop, rpop), bobs (n = counting command, cnts = *)
(* every enumeration count the driver could take, ex = *KEYEXIST, first / last   *)
(* element number, pt = point lookups <<number, found>>).                        *)
(* C09 pure predicate on a bobs line: every enumeration count equals n and       *)
(* ex = (n > 0); in addition the line must equal the interval model.             *)
(* Output format as ZKVTrace ("MISMATCH|line|class|FALSE|expected").             *)
EXTENDS Integers, Sequences, FiniteSets, TLC, Json, IOUtils

VARIABLES iv, l, bad
Trace == ndJsonDeserialize(IOEnv.ZR_TRACE)
E == Trace[l]
vars == <<iv, l, bad>>
Tys == {"h", "l", "s", "z"}
None == <<0, -1>>
Init == iv = [t \in Tys |-> None] /\ l = 1 /\ bad = FALSE

Cnt(x) == IF x[2] < x[1] THEN 0 ELSE x[2] - x[1] + 1
Norm(x) == IF x[2] < x[1] THEN None ELSE x
B(x) == IF x THEN 1 ELSE 0
Max2(a, b) == IF a > b THEN a ELSE b
Min2(a, b) == IF a < b THEN a ELSE b
\* Redis index range on n elements: 1-based inclusive positions, <<1, 0>> when empty
IdxRange(n, s, e) ==
  LET s1 == IF s < 0 THEN n + s ELSE s
      e1 == IF e < 0 THEN n + e ELSE e
      s2 == IF s1 < 0 THEN 0 ELSE s1
      e2 == IF e1 >= n THEN n - 1 ELSE e1
  IN IF s2 > e2 \/ s2 >= n THEN <<1, 0>> ELSE <<s2 + 1, e2 + 1>>
\* remove the element numbers a..b from x: <<new interval, removed, representable>>
Cut(x, a, b) ==
  LET a1 == Max2(a, x[1])
      b1 == Min2(b, x[2])
      n  == IF Cnt(x) = 0 \/ b1 < a1 THEN 0 ELSE b1 - a1 + 1
  IN IF n = 0 THEN <<x, 0, TRUE>>
     ELSE IF a1 = x[1] THEN <<Norm(<<b1 + 1, x[2]>>), n, TRUE>>
     ELSE IF b1 = x[2] THEN <<Norm(<<x[1], a1 - 1>>), n, TRUE>>
     ELSE <<x, n, FALSE>>

\* expected <<new interval, reply, representable>> of an operation line
OpRes ==
  LET x == iv[E.ty]
      n == Cnt(x)
  IN CASE E.op = "ltrim" -> LET r == IdxRange(n, E.a[1], E.a[2])
                            IN <<Norm(<<x[1] + r[1] - 1, x[1] + r[2] - 1>>), 0, TRUE>>
       [] E.op = "clear" -> <<None, B(n > 0), TRUE>>
       [] E.op = "zremrank" -> LET r == IdxRange(n, E.a[1], E.a[2])
                               IN IF r[1] > r[2] THEN <<x, 0, TRUE>> ELSE Cut(x, x[1] + r[1] - 1, x[1] + r[2] - 1)
       [] E.op \in {"zremscore", "zremlex"} -> Cut(x, E.a[1], E.a[2])
       [] E.op = "fix" -> <<x, -1, TRUE>>        \* repair command on a healthy collection: nothing changes (no reply value)
       [] E.op = "lpop" -> IF n = 0 THEN <<x, -1, TRUE>> ELSE <<Norm(<<x[1] + 1, x[2]>>), x[1], TRUE>>
       [] E.op = "rpop" -> IF n = 0 THEN <<x, -1, TRUE>> ELSE <<Norm(<<x[1], x[2] - 1>>), x[2], TRUE>>

ObsPure == (\A i \in 1..Len(E.cnts) : E.cnts[i] = E.n) /\ E.ex = B(E.n > 0)
ObsModel == LET x == iv[E.ty]
                n == Cnt(x)
            IN /\ E.n = n
               \* first / last = -2: not observed (no cheap way to read them from a huge hash / set)
               /\ (E.first = -2 \/ E.first = (IF n > 0 THEN x[1] ELSE -1))
               /\ (E.last = -2 \/ E.last = (IF n > 0 THEN x[2] ELSE -1))
               /\ \A i \in 1..Len(E.pt) : E.pt[i][2] = B(n > 0 /\ E.pt[i][1] >= x[1] /\ E.pt[i][1] <= x[2])
Mismatch(class, expected) ==
  /\ PrintT("MISMATCH|" \o ToString(l) \o "|" \o class \o "|FALSE|" \o ToString(expected))
  /\ bad' = TRUE /\ UNCHANGED iv

Next ==
  /\ l <= Len(Trace)
  /\ l' = l + 1
  /\ IF E.ev = "reset" THEN iv' = [t \in Tys |-> None] /\ bad' = FALSE
     ELSE IF bad THEN UNCHANGED <<iv, bad>>
     ELSE IF E.ev = "bfill" THEN
        LET x == iv[E.ty]
            \* elements from..to are appended at the tail (from = hi + 1) or put in front of the head (to = lo - 1)
            ok == Cnt(x) = 0 \/ E.from = x[2] + 1 \/ E.to = x[1] - 1
            nx == IF Cnt(x) = 0 THEN <<E.from, E.to>> ELSE IF E.from = x[2] + 1 THEN <<x[1], E.to>> ELSE <<E.from, x[2]>>
            er == CASE E.ty = "l" -> Cnt(nx) [] E.ty = "h" -> -1 [] OTHER -> E.to - E.from + 1
        IN IF ~ok THEN PrintT("OUTOFMODEL|" \o ToString(l)) /\ bad' = TRUE /\ UNCHANGED iv
           ELSE IF E.r = er THEN iv' = [iv EXCEPT ![E.ty] = nx] /\ UNCHANGED bad
           ELSE Mismatch("reply", er)
     ELSE IF E.ev = "bop" THEN
        LET o == OpRes
        IN IF ~o[3] THEN PrintT("OUTOFMODEL|" \o ToString(l)) /\ bad' = TRUE /\ UNCHANGED iv
           ELSE IF E.r = o[2] THEN iv' = [iv EXCEPT ![E.ty] = o[1]] /\ UNCHANGED bad
           ELSE Mismatch("reply", o[2])
     ELSE IF E.ev = "bobs" THEN
        IF ~ObsPure THEN Mismatch("counts", <<iv[E.ty], Cnt(iv[E.ty])>>)
        ELSE IF ~ObsModel THEN Mismatch("state", <<iv[E.ty], Cnt(iv[E.ty])>>)
        ELSE UNCHANGED <<iv, bad>>
     ELSE Mismatch("panic", E.ev)

Spec == Init /\ [][Next]_vars
AllConsumed == TLCGet("stats").diameter - 1 = Len(Trace)
=============================================================================
