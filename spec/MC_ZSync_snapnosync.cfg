SPECIFICATION Spec
CONSTANTS
  N = 3
  Term <- TermFn
  RecvFilter = TRUE
  ApplyFilter = "le"
  SyncedAfter = TRUE
  SnapHasSynced = FALSE
  Pipelined = FALSE
  MaxInstall = 1
  MaxLog = 5
  MaxRestart = 2
INVARIANTS RemoteExactlyOnce SyncedAfterEffect SyncedExact SyncedMonotone SyncedSurvivesRestart
