------------------------------- MODULE MC_ZKV -------------------------------
(* Bounded instances of ZKV, one per data type (cfg MC_ZKV_<type>.cfg selects   *)
(* the SPECIFICATION; MC_ZKV_<type>_dup.cfg is the same instance with commands  *)
(* that may repeat a field/member/key; MC_ZKV_ld.cfg is the local-deletion      *)
(* instance with the background scan).  Every WRITE command is a *named* action *)
(* whose primed assignment sits directly in it, so that TLC's                   *)
(* `-dump dot,actionlabels` labels each edge with the command and its           *)
(* arguments: (key, command args..., log tick); the lower-cased action name is  *)
(* the command name ("AppendV" = append).  The state is the data alone (no      *)
(* recorded operation, hence no VIEW is needed).  harness smsim walks every     *)
(* edge of the dumped graph on the real state machine and fires the product of  *)
(* READ commands on the first visit of each distinct state (reads are not       *)
(* edges: they would only be self-loops).                                       *)
(* Key 1 takes the full command set, the other keys a few basic commands (they  *)
(* exist for cross-key interference); this keeps each graph below ~320 000      *)
(* transitions.                                                                 *)
(* The model theorems of ZKV are checked in every reachable state (INVARIANTS    *)
(* of the cfg) and, for ErrorChangesNothing / KeysIndependent, on every         *)
(* transition TLC takes (Assert in StepOK).                                     *)
EXTENDS ZKV

CONSTANTS Subs,      \* field / member ids
          VIds,      \* value ids (indexes into ValTab)
          Times,     \* log ticks
          Durs,      \* expiry durations in ticks
          RNow,      \* the reader's clock tick used for the graph's read edges
          MaxLen,    \* cap on string / list lengths
          MaxNum,    \* cap on |numeric values| and scores
          FullKeys,  \* keys that take the full command set; the other keys take a few basic
                     \* commands only (they are there for cross-key interference), which keeps
                     \* the graph small enough to be walked edge by edge
          Dup        \* TRUE: commands may repeat a field/member (known finding dup-args kept
                     \* out of the general corpus by Dup = FALSE)

VARIABLES db
vars == <<db>>
\* durations of the *EXPIRE commands: the positive ones plus "now" and "one tick ago" (the key is dead
\* at once; ZKV!PastOut keeps instants at or before tick 0 out)
EDurs == Durs \cup {0, -1}

Init == db = InitDB

\* decimal numerals with leading zeros ('01', '-0'): Redis does not take them for integers, the store's
\* parser does (recorded finding kv-incr-noncanonical-numeral); kept out of the graphs
NonCanon(v) == \/ (IsDigits(v) /\ Len(v) > 1 /\ v[1] = 0)
               \/ (Len(v) >= 2 /\ v[1] = MINUS /\ IsDigits(Tail(v)) /\ Tail(v)[1] = 0)
SmallV(v) == Len(v) <= MaxLen /\ ~NonCanon(v) /\ (IsNum(v) => (NumVal(v) <= MaxNum /\ NumVal(v) >= 0 - MaxNum))
Small(d) == \A k \in Keys :
  /\ SmallV(d.kv[k].v)
  /\ \A f \in DOMAIN d.hs[k].f : SmallV(d.hs[k].f[f])
  /\ Len(d.ls[k].q) <= MaxLen
  /\ \A m \in DOMAIN d.zs[k].sc : IsExtreme(d.zs[k].sc[m]) \/ (d.zs[k].sc[m] <= MaxNum /\ d.zs[k].sc[m] >= 0 - MaxNum)

V1 == CHOOSE v \in VIds : TRUE
X1 == CHOOSE x \in Subs : TRUE
Nx(name, k, a, t) == Do(db, Cmd(name, k, a), t, RNow)
Failed(r) == r = RErr \/ r = ROut
\* two model theorems are checked on every transition TLC takes (cheaper than quantifying
\* over all commands in every state): a failing command changes nothing, and a command
\* changes only the records of its own type under the keys it names
ErrorChangesNothing(d0, c, d) == Failed(d.r) => d.db = d0
\* (SETBIT may adopt the legacy string under the same key: it also touches the string record)
KeysIndependent(d0, c, d) == \A ty \in TyLetters, k \in Keys :
                                ((ty # TyOf(c) /\ ~(c.c = "setbit" /\ ty = "k")) \/ k \notin KeysOf(c)) => RecOf(d.db, ty, k) = RecOf(d0, ty, k)
StepOK(c, t) == LET d == Do(db, c, t, RNow)
                IN /\ d.r # ROut /\ Small(d.db)
                   /\ Assert(ErrorChangesNothing(db, c, d), <<"ErrorChangesNothing", c, t>>)
                   /\ Assert(KeysIndependent(db, c, d), <<"KeysIndependent", c, t>>)
Ok(name, k, a, t) == StepOK(Cmd(name, k, a), t)
DupOk(x, y) == Dup \/ x # y

-----------------------------------------------------------------------------
\* strings
Set(k, v, t)        == Ok("set", k, <<v>>, t) /\ db' = Nx("set", k, <<v>>, t).db
SetX(k, v, d, m, t) == Ok("setx", k, <<v, d, m>>, t) /\ db' = Nx("setx", k, <<v, d, m>>, t).db
SetEx(k, d, v, t)   == Ok("setex", k, <<d, v>>, t) /\ db' = Nx("setex", k, <<d, v>>, t).db
SetNx(k, v, t)      == Ok("setnx", k, <<v>>, t) /\ db' = Nx("setnx", k, <<v>>, t).db
GetSet(k, v, t)     == Ok("getset", k, <<v>>, t) /\ db' = Nx("getset", k, <<v>>, t).db
MSet(k, v, k2, v2, t) == DupOk(k, k2) /\ Ok("mset", k, <<v, k2, v2>>, t) /\ db' = Nx("mset", k, <<v, k2, v2>>, t).db
Incr(k, t)          == Ok("incr", k, <<>>, t) /\ db' = Nx("incr", k, <<>>, t).db
IncrBy(k, d, t)     == Ok("incrby", k, <<d>>, t) /\ db' = Nx("incrby", k, <<d>>, t).db
AppendV(k, v, t)    == Ok("append", k, <<v>>, t) /\ db' = Nx("append", k, <<v>>, t).db
SetRange(k, o, v, t) == Ok("setrange", k, <<o, v>>, t) /\ db' = Nx("setrange", k, <<o, v>>, t).db
Del(k, t)           == Ok("del", k, <<>>, t) /\ db' = Nx("del", k, <<>>, t).db
Del2(k, k2, t)      == DupOk(k, k2) /\ Ok("del2", k, <<k2>>, t) /\ db' = Nx("del2", k, <<k2>>, t).db
Expire(k, d, t)     == Ok("expire", k, <<d>>, t) /\ db' = Nx("expire", k, <<d>>, t).db
Persist(k, t)       == Ok("persist", k, <<>>, t) /\ db' = Nx("persist", k, <<>>, t).db

RIdx == {-1, 0, 1}
NextKV ==
  \/ \E k \in Keys \ FullKeys, t \in Times :
       \/ Set(k, V1, t) \/ Del(k, t)
       \/ \E d \in Durs : SetEx(k, d, V1, t) \/ Expire(k, d, t)
  \/ \E k \in FullKeys, t \in Times :
       \/ Incr(k, t) \/ Del(k, t) \/ Persist(k, t)
       \/ \E v \in VIds : Set(k, v, t) \/ SetNx(k, v, t) \/ GetSet(k, v, t) \/ AppendV(k, v, t)
       \/ \E v \in VIds, d \in Durs : SetEx(k, d, v, t)
       \/ \E v \in VIds, d \in {0} \cup Durs, m \in 0..2 : SetX(k, v, d, m, t)
       \/ \E v \in VIds, k2 \in Keys, v2 \in VIds : MSet(k, v, k2, v2, t)
       \/ \E d \in {-1, 0, 2} : IncrBy(k, d, t)
       \/ \E v \in VIds, o \in {0, 1} : SetRange(k, o, v, t)
       \/ \E k2 \in Keys : Del2(k, k2, t)
       \/ \E d \in EDurs : Expire(k, d, t)
SpecKV == Init /\ [][NextKV]_vars

-----------------------------------------------------------------------------
\* hashes
HSet(k, f, v, t)    == Ok("hset", k, <<f, v>>, t) /\ db' = Nx("hset", k, <<f, v>>, t).db
HSetNx(k, f, v, t)  == Ok("hsetnx", k, <<f, v>>, t) /\ db' = Nx("hsetnx", k, <<f, v>>, t).db
HMSet(k, f, v, g, w, t) == DupOk(f, g) /\ Ok("hmset", k, <<f, v, g, w>>, t) /\ db' = Nx("hmset", k, <<f, v, g, w>>, t).db
HDel(k, f, t)       == Ok("hdel", k, <<f>>, t) /\ db' = Nx("hdel", k, <<f>>, t).db
HDel2(k, f, g, t)   == DupOk(f, g) /\ Ok("hdel2", k, <<f, g>>, t) /\ db' = Nx("hdel2", k, <<f, g>>, t).db
HIncrBy(k, f, d, t) == Ok("hincrby", k, <<f, d>>, t) /\ db' = Nx("hincrby", k, <<f, d>>, t).db
HClear(k, t)        == Ok("hclear", k, <<>>, t) /\ db' = Nx("hclear", k, <<>>, t).db
HExpire(k, d, t)    == Ok("hexpire", k, <<d>>, t) /\ db' = Nx("hexpire", k, <<d>>, t).db
HPersist(k, t)      == Ok("hpersist", k, <<>>, t) /\ db' = Nx("hpersist", k, <<>>, t).db

NextH ==
  \/ \E k \in Keys \ FullKeys, t \in Times :
       \/ HSet(k, X1, V1, t) \/ HClear(k, t)
       \/ \E d \in Durs : HExpire(k, d, t)
  \/ \E k \in FullKeys, t \in Times :
       \/ HClear(k, t) \/ HPersist(k, t)
       \/ \E f \in Subs, v \in VIds : HSet(k, f, v, t) \/ HSetNx(k, f, v, t)
       \/ \E f, g \in Subs, v, w \in VIds : HMSet(k, f, v, g, w, t)
       \/ \E f \in Subs : HDel(k, f, t) \/ HIncrBy(k, f, 1, t) \/ HIncrBy(k, f, 0, t)
       \/ \E f, g \in Subs : HDel2(k, f, g, t)
       \/ \E d \in EDurs : HExpire(k, d, t)
SpecH == Init /\ [][NextH]_vars

-----------------------------------------------------------------------------
\* lists
LPush(k, v, t)      == Ok("lpush", k, <<v>>, t) /\ db' = Nx("lpush", k, <<v>>, t).db
LPush2(k, v, w, t)  == Ok("lpush2", k, <<v, w>>, t) /\ db' = Nx("lpush2", k, <<v, w>>, t).db
RPush(k, v, t)      == Ok("rpush", k, <<v>>, t) /\ db' = Nx("rpush", k, <<v>>, t).db
RPush2(k, v, w, t)  == Ok("rpush2", k, <<v, w>>, t) /\ db' = Nx("rpush2", k, <<v, w>>, t).db
LPop(k, t)          == Ok("lpop", k, <<>>, t) /\ db' = Nx("lpop", k, <<>>, t).db
RPop(k, t)          == Ok("rpop", k, <<>>, t) /\ db' = Nx("rpop", k, <<>>, t).db
LSet(k, i, v, t)    == Ok("lset", k, <<i, v>>, t) /\ db' = Nx("lset", k, <<i, v>>, t).db
LTrim(k, s, e, t)   == Ok("ltrim", k, <<s, e>>, t) /\ db' = Nx("ltrim", k, <<s, e>>, t).db
LClear(k, t)        == Ok("lclear", k, <<>>, t) /\ db' = Nx("lclear", k, <<>>, t).db
LExpire(k, d, t)    == Ok("lexpire", k, <<d>>, t) /\ db' = Nx("lexpire", k, <<d>>, t).db
LPersist(k, t)      == Ok("lpersist", k, <<>>, t) /\ db' = Nx("lpersist", k, <<>>, t).db
LFixKey(k, t)       == Ok("lfixkey", k, <<>>, t) /\ db' = Nx("lfixkey", k, <<>>, t).db

LIdx == {-4, -2, -1, 0, 1, 3}
NextL ==
  \/ \E k \in Keys \ FullKeys, t \in Times :
       \/ RPush(k, V1, t) \/ LPop(k, t)
       \/ \E d \in Durs : LExpire(k, d, t)
  \/ \E k \in FullKeys, t \in Times :
       \/ LPop(k, t) \/ RPop(k, t) \/ LClear(k, t) \/ LPersist(k, t) \/ LFixKey(k, t)
       \/ \E v \in VIds : LPush(k, v, t) \/ RPush(k, v, t)
       \/ \E v, w \in VIds : LPush2(k, v, w, t) \/ RPush2(k, v, w, t)
       \/ \E i \in LIdx, v \in VIds : LSet(k, i, v, t)
       \/ \E s, e \in LIdx : LTrim(k, s, e, t)
       \/ \E d \in EDurs : LExpire(k, d, t)
SpecL == Init /\ [][NextL]_vars

-----------------------------------------------------------------------------
\* sets
SAdd(k, m, t)       == Ok("sadd", k, <<m>>, t) /\ db' = Nx("sadd", k, <<m>>, t).db
SAdd2(k, m, n, t)   == DupOk(m, n) /\ Ok("sadd2", k, <<m, n>>, t) /\ db' = Nx("sadd2", k, <<m, n>>, t).db
SRem(k, m, t)       == Ok("srem", k, <<m>>, t) /\ db' = Nx("srem", k, <<m>>, t).db
SRem2(k, m, n, t)   == DupOk(m, n) /\ Ok("srem2", k, <<m, n>>, t) /\ db' = Nx("srem2", k, <<m, n>>, t).db
SPop(k, t)          == Ok("spop", k, <<>>, t) /\ db' = Nx("spop", k, <<>>, t).db
SPopN(k, n, t)      == Ok("spopn", k, <<n>>, t) /\ db' = Nx("spopn", k, <<n>>, t).db
SClear(k, t)        == Ok("sclear", k, <<>>, t) /\ db' = Nx("sclear", k, <<>>, t).db
SExpire(k, d, t)    == Ok("sexpire", k, <<d>>, t) /\ db' = Nx("sexpire", k, <<d>>, t).db
SPersist(k, t)      == Ok("spersist", k, <<>>, t) /\ db' = Nx("spersist", k, <<>>, t).db

NextS ==
  \/ \E k \in Keys \ FullKeys, t \in Times :
       \/ SAdd(k, X1, t) \/ SClear(k, t)
       \/ \E d \in Durs : SExpire(k, d, t)
  \/ \E k \in FullKeys, t \in Times :
       \/ SPop(k, t) \/ SClear(k, t) \/ SPersist(k, t)
       \/ \E m \in Subs : SAdd(k, m, t) \/ SRem(k, m, t)
       \/ \E m, n \in Subs : SAdd2(k, m, n, t) \/ SRem2(k, m, n, t)
       \/ \E n \in {1, 2, 5} : SPopN(k, n, t)
       \/ \E d \in EDurs : SExpire(k, d, t)
SpecS == Init /\ [][NextS]_vars

-----------------------------------------------------------------------------
\* sorted sets (scores in half units)
ZAdd(k, s, m, t)    == Ok("zadd", k, <<s, m>>, t) /\ db' = Nx("zadd", k, <<s, m>>, t).db
ZAdd2(k, s, m, s2, m2, t) == DupOk(m, m2) /\ Ok("zadd2", k, <<s, m, s2, m2>>, t) /\ db' = Nx("zadd2", k, <<s, m, s2, m2>>, t).db
ZIncrBy(k, d, m, t) == Ok("zincrby", k, <<d, m>>, t) /\ db' = Nx("zincrby", k, <<d, m>>, t).db
ZRem(k, m, t)       == Ok("zrem", k, <<m>>, t) /\ db' = Nx("zrem", k, <<m>>, t).db
ZRem2(k, m, n, t)   == DupOk(m, n) /\ Ok("zrem2", k, <<m, n>>, t) /\ db' = Nx("zrem2", k, <<m, n>>, t).db
ZRemRangeByRank(k, s, e, t) == Ok("zremrangebyrank", k, <<s, e>>, t) /\ db' = Nx("zremrangebyrank", k, <<s, e>>, t).db
ZRemRangeByScore(k, lo, lk, hi, hk, t) == Ok("zremrangebyscore", k, <<lo, lk, hi, hk>>, t) /\ db' = Nx("zremrangebyscore", k, <<lo, lk, hi, hk>>, t).db
ZRemRangeByLex(k, lo, lk, hi, hk, t) == Ok("zremrangebylex", k, <<lo, lk, hi, hk>>, t) /\ db' = Nx("zremrangebylex", k, <<lo, lk, hi, hk>>, t).db
ZClear(k, t)        == Ok("zclear", k, <<>>, t) /\ db' = Nx("zclear", k, <<>>, t).db
ZExpire(k, d, t)    == Ok("zexpire", k, <<d>>, t) /\ db' = Nx("zexpire", k, <<d>>, t).db
ZPersist(k, t)      == Ok("zpersist", k, <<>>, t) /\ db' = Nx("zpersist", k, <<>>, t).db
ZFixKey(k, t)       == Ok("zfixkey", k, <<>>, t) /\ db' = Nx("zfixkey", k, <<>>, t).db

ZScores == {2, 3, -1000004}       \* 1, 1.5 and the extreme class -1e19 (below int64)
ZIdx == {-3, -1, 0, 1}
\* score / lex intervals <<lo, lokind, hi, hikind>> (kinds: 0 inclusive, 1 exclusive, 2 infinite)
ZIv == {<<0, 2, 0, 2>>, <<2, 0, 3, 0>>, <<2, 1, 3, 0>>, <<2, 0, 3, 1>>, <<3, 0, 2, 0>>, <<2, 1, 0, 2>>}
LexIv == {<<0, 2, 0, 2>>, <<1, 0, 2, 0>>, <<1, 1, 2, 0>>, <<1, 0, 2, 1>>, <<2, 0, 1, 0>>, <<1, 1, 0, 2>>}
NextZ ==
  \/ \E k \in Keys \ FullKeys, t \in Times :
       \/ ZAdd(k, 2, X1, t) \/ ZClear(k, t)
       \/ \E d \in Durs : ZExpire(k, d, t)
  \/ \E k \in FullKeys, t \in Times :
       \/ ZClear(k, t) \/ ZPersist(k, t) \/ ZFixKey(k, t)
       \/ \E s \in ZScores, m \in Subs : ZAdd(k, s, m, t)
       \/ \E s, s2 \in ZScores, m, m2 \in Subs : ZAdd2(k, s, m, s2, m2, t)
       \/ \E m \in Subs : ZIncrBy(k, 1, m, t) \/ ZIncrBy(k, 0, m, t) \/ ZRem(k, m, t)
       \/ \E m, n \in Subs : ZRem2(k, m, n, t)
       \/ \E s, e \in {-1, 0, 1} : ZRemRangeByRank(k, s, e, t)
       \/ \E iv \in ZIv : ZRemRangeByScore(k, iv[1], iv[2], iv[3], iv[4], t)
       \/ \E iv \in LexIv : ZRemRangeByLex(k, iv[1], iv[2], iv[3], iv[4], t)
       \/ \E d \in EDurs : ZExpire(k, d, t)
SpecZ == Init /\ [][NextZ]_vars

-----------------------------------------------------------------------------
\* bitmaps (with the legacy string layout: Set / Del of the string under the same key are in the instance)
SetBit(k, o, v, t)  == Ok("setbit", k, <<o, v>>, t) /\ db' = Nx("setbit", k, <<o, v>>, t).db
BitClear(k, t)      == Ok("bitclear", k, <<>>, t) /\ db' = Nx("bitclear", k, <<>>, t).db
BExpire(k, d, t)    == Ok("bexpire", k, <<d>>, t) /\ db' = Nx("bexpire", k, <<d>>, t).db
BPersist(k, t)      == Ok("bpersist", k, <<>>, t) /\ db' = Nx("bpersist", k, <<>>, t).db
BOffs == {0, 7, 8192}
NextB ==
  \/ \E k \in Keys \ FullKeys, t \in Times :
       \/ SetBit(k, 0, 1, t) \/ BitClear(k, t)
       \/ \E d \in Durs : BExpire(k, d, t)
  \/ \E k \in FullKeys, t \in Times :
       \* (no string commands under the bitmap's key: the legacy conversion is a recorded finding,
       \* kv-bitmap-legacy-conversion, and stays out of the graph; the model and its theorems cover it)
       \/ BitClear(k, t) \/ BPersist(k, t)
       \/ \E o \in BOffs, v \in {0, 1} : SetBit(k, o, v, t)
       \/ \E d \in EDurs : BExpire(k, d, t)
SpecB == Init /\ [][NextB]_vars

-----------------------------------------------------------------------------
\* local deletion: the background scan at the node's clock tick
Scan(now) == db' = ScanEffect(db, ScanDue(db, now), now)
NextLD == \/ \E k \in Keys, t \in Times :
               \/ Set(k, V1, t) \/ Del(k, t) \/ Persist(k, t) \/ HSet(k, X1, V1, t) \/ HClear(k, t) \/ HDel(k, X1, t)
               \/ \E d \in Durs : SetEx(k, d, V1, t) \/ Expire(k, d, t) \/ HExpire(k, d, t) \/ SetX(k, V1, d, 0, t)
          \/ \E now \in Times : Scan(now)
SpecLD == Init /\ [][NextLD]_vars

-----------------------------------------------------------------------------
(* Model theorems, as state predicates that quantify over the commands of the  *)
(* instance.  TCmds is the command set of the type under check.                *)
C(n, k, a) == Cmd(n, k, a)
CmdsKV ==
  {C(n, k, <<>>) : n \in {"get", "strlen", "exists", "ttl", "incr", "del", "persist"}, k \in Keys}
  \cup {C(n, k, <<v>>) : n \in {"set", "setnx", "getset", "append"}, k \in Keys, v \in VIds}
  \cup {C("setex", k, <<d, v>>) : k \in Keys, d \in Durs, v \in VIds}
  \cup {C("setx", k, <<v, d, m>>) : k \in Keys, v \in VIds, d \in {0} \cup Durs, m \in 0..2}
  \cup {C("mset", k, <<v, k2, v>>) : k \in Keys, v \in VIds, k2 \in Keys}
  \cup {C(n, k, <<k2>>) : n \in {"exists2", "mget", "del2"}, k \in Keys, k2 \in Keys}
  \cup {C("incrby", k, <<d>>) : k \in Keys, d \in {-1, 2}}
  \cup {C("setrange", k, <<o, v>>) : k \in Keys, o \in {0, 1}, v \in VIds}
  \cup {C("getrange", k, <<s, e>>) : k \in Keys, s \in RIdx, e \in RIdx}
  \cup {C("expire", k, <<d>>) : k \in Keys, d \in EDurs}
CmdsH ==
  {C(n, k, <<>>) : n \in {"hlen", "hgetall", "hkeys", "hvals", "hkeyexist", "httl", "hclear", "hpersist"}, k \in Keys}
  \cup {C(n, k, <<f>>) : n \in {"hget", "hexists", "hdel"}, k \in Keys, f \in Subs}
  \cup {C(n, k, <<f, g>>) : n \in {"hmget", "hdel2"}, k \in Keys, f \in Subs, g \in Subs}
  \cup {C(n, k, <<f, v>>) : n \in {"hset", "hsetnx"}, k \in Keys, f \in Subs, v \in VIds}
  \cup {C("hmset", k, <<f, v, g, v>>) : k \in Keys, f \in Subs, g \in Subs, v \in VIds}
  \cup {C("hincrby", k, <<f, 1>>) : k \in Keys, f \in Subs}
  \cup {C("hexpire", k, <<d>>) : k \in Keys, d \in EDurs}
CmdsL ==
  {C(n, k, <<>>) : n \in {"llen", "lkeyexist", "lttl", "lpop", "rpop", "lclear", "lpersist"}, k \in Keys}
  \cup {C("lindex", k, <<i>>) : k \in Keys, i \in LIdx}
  \cup {C(n, k, <<s, e>>) : n \in {"lrange", "ltrim"}, k \in Keys, s \in LIdx, e \in LIdx}
  \cup {C(n, k, <<v>>) : n \in {"lpush", "rpush"}, k \in Keys, v \in VIds}
  \cup {C(n, k, <<v, w>>) : n \in {"lpush2", "rpush2"}, k \in Keys, v \in VIds, w \in VIds}
  \cup {C("lset", k, <<i, v>>) : k \in Keys, i \in LIdx, v \in VIds}
  \cup {C("lexpire", k, <<d>>) : k \in Keys, d \in EDurs}
CmdsS ==
  {C(n, k, <<>>) : n \in {"scard", "smembers", "skeyexist", "sttl", "spop", "sclear", "spersist"}, k \in Keys}
  \cup {C(n, k, <<m>>) : n \in {"sismember", "sadd", "srem"}, k \in Keys, m \in Subs}
  \cup {C(n, k, <<m, n2>>) : n \in {"sadd2", "srem2"}, k \in Keys, m \in Subs, n2 \in Subs}
  \cup {C(n, k, <<x>>) : n \in {"srandmember", "spopn"}, k \in Keys, x \in {1, 2, 5}}
  \cup {C("sexpire", k, <<d>>) : k \in Keys, d \in EDurs}
CmdsZ ==
  {C(n, k, <<>>) : n \in {"zcard", "zkeyexist", "zttl", "zclear", "zpersist"}, k \in Keys}
  \cup {C(n, k, <<m>>) : n \in {"zscore", "zrank", "zrevrank", "zrem"}, k \in Keys, m \in Subs}
  \cup {C(n, k, <<s, e>>) : n \in {"zrange", "zrevrange", "zremrangebyrank"}, k \in Keys, s \in ZIdx, e \in ZIdx}
  \cup {C(n, k, iv) : n \in {"zrangebyscore", "zrevrangebyscore", "zcount", "zremrangebyscore"}, k \in Keys, iv \in ZIv}
  \cup {C(n, k, iv) : n \in {"zrangebylex", "zlexcount", "zremrangebylex"}, k \in Keys, iv \in LexIv}
  \cup {C("zadd", k, <<s, m>>) : k \in Keys, s \in ZScores, m \in Subs}
  \cup {C("zadd2", k, <<s, m, s, m2>>) : k \in Keys, s \in ZScores, m \in Subs, m2 \in Subs}
  \cup {C("zincrby", k, <<1, m>>) : k \in Keys, m \in Subs}
  \cup {C("zrem2", k, <<m, m2>>) : k \in Keys, m \in Subs, m2 \in Subs}
  \cup {C("zexpire", k, <<d>>) : k \in Keys, d \in EDurs}
CmdsB ==
  {C(n, k, <<>>) : n \in {"bitcount", "bkeyexist", "bttl", "bitclear", "bpersist"}, k \in Keys}
  \cup {C("getbit", k, <<o>>) : k \in Keys, o \in BOffs}
  \cup {C("setbit", k, <<o, v>>) : k \in Keys, o \in BOffs, v \in {0, 1}}
  \cup {C("bitcount2", k, <<s, e>>) : k \in Keys, s \in {0, 1, 1024}, e \in {-1, 0, 1023, 1024}}
  \cup {C("bexpire", k, <<d>>) : k \in Keys, d \in EDurs}
AllCmds == CmdsKV \cup CmdsH \cup CmdsL \cup CmdsS \cup CmdsZ
CmdsLD == CmdsKV \cup CmdsH
CONSTANT TCmds
Nows == Times \cup {RNow}

TT == {TyOf(c) : c \in TCmds}       \* type letters under check in this instance

ReadsChangeNothing ==
  \A c \in TCmds : c.c \in ReadCmds => Do(db, c, 0, RNow).db = db
\* C09 on the model: every way of counting / enumerating a collection agrees
R(n, k, a, now) == Reply(db, C(n, k, a), 0, now)
CountsAgree ==
  \A k \in Keys, now \in Nows :
    /\ "h" \in TT =>
       LET n == R("hlen", k, <<>>, now)[2]
       IN /\ R("hgetall", k, <<>>, now)[2] = n /\ R("hkeys", k, <<>>, now)[2] = n /\ R("hvals", k, <<>>, now)[2] = n
          /\ R("hkeyexist", k, <<>>, now) = RInt(IF n > 0 THEN 1 ELSE 0)
          /\ n = Cardinality({f \in Subs : R("hexists", k, <<f>>, now) = RInt(1)})
          /\ \A f \in Subs : (R("hexists", k, <<f>>, now) = RInt(1)) <=> (R("hget", k, <<f>>, now) # RNil)
    /\ "s" \in TT =>
       LET n == R("scard", k, <<>>, now)[2]
       IN /\ R("smembers", k, <<>>, now)[2] = n
          /\ R("skeyexist", k, <<>>, now) = RInt(IF n > 0 THEN 1 ELSE 0)
          /\ n = Cardinality({m \in Subs : R("sismember", k, <<m>>, now) = RInt(1)})
    /\ "l" \in TT =>
       LET n == R("llen", k, <<>>, now)[2]
       IN /\ R("lrange", k, <<0, -1>>, now)[2] = n
          /\ R("lkeyexist", k, <<>>, now) = RInt(IF n > 0 THEN 1 ELSE 0)
          /\ \A i \in 0..(MaxLen + 2) : (R("lindex", k, <<i>>, now) # RNil) <=> i < n
    /\ "b" \in TT =>
       LET n == R("bitcount", k, <<>>, now)[2]
       IN /\ R("bitcount2", k, <<0, -1>>, now) = RInt(n)
          /\ n >= Cardinality({o \in BOffs : R("getbit", k, <<o>>, now) = RInt(1)})
          /\ (n > 0 => R("bkeyexist", k, <<>>, now) = RInt(1))
    /\ "z" \in TT =>
       LET n == R("zcard", k, <<>>, now)[2]
       IN /\ R("zrange", k, <<0, -1>>, now)[2] = n /\ R("zrevrange", k, <<0, -1>>, now)[2] = n
          /\ R("zrangebyscore", k, <<0, 2, 0, 2>>, now)[2] = n
          /\ R("zrangebylex", k, <<0, 2, 0, 2>>, now)[2] = n
          /\ R("zcount", k, <<0, 2, 0, 2>>, now) = RInt(n) /\ R("zlexcount", k, <<0, 2, 0, 2>>, now) = RInt(n)
          /\ R("zkeyexist", k, <<>>, now) = RInt(IF n > 0 THEN 1 ELSE 0)
          /\ n = Cardinality({m \in Subs : R("zscore", k, <<m>>, now) # RNil})
          /\ \A m \in Subs : (R("zscore", k, <<m>>, now) # RNil) <=> (R("zrank", k, <<m>>, now) # RNil)

\* C10 on the model ("wc")
W(n, k, a, t) == Do(db, C(n, k, a), t, t)
ExpiredIsDead == Policy = "wc" =>
  \A k \in Keys, t \in Times : LET v == V1  x == X1 IN
    /\ ("k" \in TT /\ Dead(db.kv[k], t)) =>
         /\ W("get", k, <<>>, t).r = RNil /\ W("strlen", k, <<>>, t).r = RInt(0) /\ W("exists", k, <<>>, t).r = RInt(0)
         /\ W("ttl", k, <<>>, t).r = RInt(-1)
         /\ W("append", k, <<v>>, t).r = RInt(Len(Val(v))) /\ W("append", k, <<v>>, t).db.kv[k].v = Val(v)
         /\ W("incr", k, <<>>, t).r = RInt(1) /\ W("setnx", k, <<v>>, t).r = RInt(1)
         /\ W("getset", k, <<v>>, t).r = RNil /\ W("del", k, <<>>, t).r = RInt(0)
         /\ W("expire", k, <<1>>, t).r = RInt(0) /\ W("persist", k, <<>>, t).r = RInt(0)
         /\ W("setrange", k, <<1, v>>, t).r \in {RInt(0), RInt(1 + Len(Val(v)))}
    /\ ("h" \in TT /\ Dead(db.hs[k], t)) =>
         /\ W("hlen", k, <<>>, t).r = RInt(0) /\ W("hget", k, <<x>>, t).r = RNil /\ W("hkeyexist", k, <<>>, t).r = RInt(0)
         /\ W("hset", k, <<x, v>>, t).r = RInt(1) /\ W("hdel", k, <<x>>, t).r = RInt(0)
         /\ W("hincrby", k, <<x, 1>>, t).r = RInt(1) /\ W("hclear", k, <<>>, t).r = RInt(0)
         /\ W("hexpire", k, <<1>>, t).r = RInt(0)
    /\ ("l" \in TT /\ Dead(db.ls[k], t)) =>
         /\ W("llen", k, <<>>, t).r = RInt(0) /\ W("lpush", k, <<v>>, t).r = RInt(1) /\ W("rpush", k, <<v>>, t).r = RInt(1)
         /\ W("lpop", k, <<>>, t).r = RNil /\ W("rpop", k, <<>>, t).r = RNil /\ W("lset", k, <<0, v>>, t).r = RErr
         /\ W("lclear", k, <<>>, t).r = RInt(0)
    /\ ("s" \in TT /\ Dead(db.st[k], t)) =>
         /\ W("scard", k, <<>>, t).r = RInt(0) /\ W("sadd", k, <<x>>, t).r = RInt(1) /\ W("srem", k, <<x>>, t).r = RInt(0)
         /\ W("spop", k, <<>>, t).r = RNil /\ W("sclear", k, <<>>, t).r = RInt(0)
    /\ ("b" \in TT /\ Dead(db.bm[k], t) /\ ~KVLive(db.kv[k], t).has) =>
         /\ W("bitcount", k, <<>>, t).r = RInt(0) /\ W("getbit", k, <<0>>, t).r = RInt(0) /\ W("bkeyexist", k, <<>>, t).r = RInt(0)
         /\ W("setbit", k, <<7, 1>>, t).r = RInt(0) /\ W("setbit", k, <<7, 1>>, t).db.bm[k].bits = {7}
         /\ W("bitclear", k, <<>>, t).r = RInt(0) /\ W("bexpire", k, <<1>>, t).r = RInt(0)
    /\ ("z" \in TT /\ Dead(db.zs[k], t)) =>
         /\ W("zcard", k, <<>>, t).r = RInt(0) /\ W("zadd", k, <<2, x>>, t).r = RInt(1) /\ W("zrem", k, <<x>>, t).r = RInt(0)
         /\ W("zincrby", k, <<1, x>>, t).r = RScore(1) /\ W("zclear", k, <<>>, t).r = RInt(0)
PersistName(ty) == CASE ty = "b" -> "bpersist" [] ty = "k" -> "persist" [] ty = "h" -> "hpersist" [] ty = "l" -> "lpersist" [] ty = "s" -> "spersist" [] ty = "z" -> "zpersist"
OverwriteClearsExpiry ==
  \A k \in Keys, t \in Times : LET v == V1 IN
    /\ "k" \in TT =>
        /\ W("set", k, <<v>>, t).db.kv[k].exp = 0 /\ W("getset", k, <<v>>, t).db.kv[k].exp = 0
        /\ \A k2 \in Keys : W("mset", k, <<v, k2, v>>, t).db.kv[k].exp = 0 /\ W("mset", k, <<v, k2, v>>, t).db.kv[k2].exp = 0
    /\ Policy = "wc" => \A ty \in TT : LET e == RecOf(W(PersistName(ty), k, <<>>, t).db, ty, k).exp
                                      IN e = 0 \/ (e = RecOf(db, ty, k).exp /\ e <= t)
ModifyCmds(k, v, x) ==
  {C("append", k, <<v>>), C("incr", k, <<>>), C("setrange", k, <<1, v>>), C("setnx", k, <<v>>),
   C("hset", k, <<x, v>>), C("hsetnx", k, <<x, v>>), C("hmset", k, <<x, v, x, v>>), C("hincrby", k, <<x, 1>>), C("hdel", k, <<x>>),
   C("lpush", k, <<v>>), C("rpush", k, <<v>>), C("lset", k, <<0, v>>), C("lpop", k, <<>>), C("rpop", k, <<>>), C("ltrim", k, <<0, 0>>),
   C("sadd", k, <<x>>), C("srem", k, <<x>>), C("spop", k, <<>>),
   C("zadd", k, <<2, x>>), C("zincrby", k, <<1, x>>), C("zrem", k, <<x>>), C("zremrangebyrank", k, <<0, 0>>),
   C("setbit", k, <<8, 1>>), C("setbit", k, <<0, 0>>)}
Present(d, ty, k) == IF ty = "k" THEN d.kv[k].has ELSE ~CEmpty(ty, Coll(d, ty, k))
ModifyKeepsExpiry ==
  \A k \in Keys, t \in Times : \A c \in {m \in ModifyCmds(k, V1, X1) : TyOf(m) \in TT} :
     LET ty  == TyOf(c)
         old == RecOf(db, ty, k)
         d   == Do(db, c, t, t)
         new == RecOf(d.db, ty, k)
     IN (old.exp # 0 /\ ~Dead(old, t) /\ ~Failed(d.r) /\ Present(d.db, ty, k)) => new.exp = old.exp
NewGenerationIsEmpty ==
  \A k \in Keys, t \in Times : LET v == V1  x == X1 IN
    /\ ("h" \in TT /\ Dead(db.hs[k], t)) => W("hset", k, <<x, v>>, t).db.hs[k] = [HNil EXCEPT !.f = Upd(EmptyF, x, Val(v))]
    /\ ("l" \in TT /\ Dead(db.ls[k], t)) => W("lpush", k, <<v>>, t).db.ls[k] = [LNil EXCEPT !.q = <<Val(v)>>]
    /\ ("s" \in TT /\ Dead(db.st[k], t)) => W("sadd", k, <<x>>, t).db.st[k] = [SNil EXCEPT !.m = {x}]
    /\ ("z" \in TT /\ Dead(db.zs[k], t)) => W("zadd", k, <<2, x>>, t).db.zs[k] = [ZNil EXCEPT !.sc = Upd(EmptyF, x, 2)]
    /\ \A ty \in TT \ {"k"} : LET r == Coll(db, ty, k) IN CEmpty(ty, r) => r.exp = 0
TTLIsRemaining == Policy = "wc" =>
  \A k \in Keys, now \in Nows : \A ty \in TT :
    LET r == RecOf(db, ty, k)
        alive == ~Dead(r, now) /\ Present(db, ty, k)
        nm == CASE ty = "b" -> "bttl" [] ty = "k" -> "ttl" [] ty = "h" -> "httl" [] ty = "l" -> "lttl" [] ty = "s" -> "sttl" [] ty = "z" -> "zttl"
    IN /\ (alive /\ r.exp # 0) => (R(nm, k, <<>>, now) = RInt(r.exp - now) /\ r.exp - now > 0)
       /\ (~alive \/ r.exp = 0) => R(nm, k, <<>>, now) = RInt(-1)
\* local deletion: commands never look at expiries, the scan never removes early
LocalDeletion == Policy = "ld" =>
  /\ \A k \in Keys : db.kv[k].exp = 0 /\ db.hs[k].exp = 0
  /\ \A now \in Times : ScanNotEarly(db, ScanDue(db, now), now)
  /\ \A now \in Times, g \in TyLetters \X Keys :
        (Present(db, g[1], g[2]) /\ ~Present(ScanEffect(db, ScanDue(db, now), now), g[1], g[2]))
          => \E e \in RecOf(db, g[1], g[2]).pend : e <= now
TypeOK == \A k \in Keys : db.kv[k].has \in BOOLEAN /\ (~db.kv[k].has => db.kv[k].v = <<>> /\ db.kv[k].exp = 0)
=============================================================================
