SPECIFICATION TSpec
CONSTANTS
  NT = 3
  NK = 5
POSTCONDITION AllConsumed
CHECK_DEADLOCK FALSE
