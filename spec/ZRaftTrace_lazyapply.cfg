SPECIFICATION TSpec
CONSTANTS
  Server <- TServer
  InitVoterSeq <- TVoters
  PreVote <- TPreVote
  CheckQuorum <- TCQ
  Mut = ""
  LazyApply = TRUE
  Collapsed = FALSE
  MaxAppEnts = 1
CONSTRAINT HW
INVARIANTS ElectionSafety LearnerNeverCampaignsOrVotes VoteOncePerTerm LogMatching CommittedNeverTruncated StateMachineSafety LeaderCompleteness DurableCommit RestartSound ReadStateSafety
POSTCONDITION Accepted
CHECK_DEADLOCK FALSE
