SPECIFICATION TSpec
CONSTANTS
  Stores = {1, 2}
  CutBeforeNotify = TRUE
  PurgeBelowSnapOnly = TRUE
  RestoreCopies = TRUE
  SharedFilesSafe = TRUE
INVARIANTS CheckpointExact CheckpointImmutable PurgeKeepsRestorable
POSTCONDITION AllConsumed
CHECK_DEADLOCK FALSE
