------------------------------- MODULE ZIsolate -------------------------------
(* Isolation of (type, table, key) tuples in ZanRedisDB's data mapping          *)
(* (property C12, part i).                                                      *)
(*                                                                              *)
(* The store is a map from tuples (type, table, key) to values; hash fields,    *)
(* set / sorted-set members and list elements live inside the value of their    *)
(* tuple.  Every command addresses ONE tuple (writes of the five data types,    *)
(* the per-type clear commands, DEL, the per-type expire commands), ONE table   *)
(* (the whole-table delete, DeleteTableRange), ONE (type, table) key space (a   *)
(* key scan), or exactly the tuples that carry an expiry (the expiry pass of    *)
(* the local-deletion policy).  KeysIndependent: a command changes nothing      *)
(* outside what it addresses, and its reply is a function of what it addresses. *)
(*                                                                              *)
(* Types: 1 kv, 2 hash, 3 list, 4 set, 5 zset (each type has its own keyspace:  *)
(* doc/user-guide.md), 6 bitmap (SETBITV2 / BITCLEAR; value = the offsets that  *)
(* are on), 7 JSON document (JSON.SET / JSON.DEL; value = the stored number),   *)
(* 8 HyperLogLog (PFADD / DEL; value = the elements added; it lives in the kv   *)
(* keyspace, so the driver gives HLL keys names no kv tuple uses).  Tables, keys, sub-keys are positions of ordered pools   *)
(* that the Go driver instantiates with adversarial byte strings.  Values and   *)
(* scores are small naturals.  A value is a sequence of pairs:                  *)
(*   kv    <<>> | << <<v, 0>> >>                                                *)
(*   hash  << <<field, v>>, ... >>     ascending by field                       *)
(*   list  << <<v, 0>>, ... >>         head first                               *)
(*   set   << <<member, 0>>, ... >>    ascending by member                      *)
(*   zset  << <<member, score>>, ... >> ascending by member                     *)
(* Command semantics are Redis' (SET/DEL/HSET/HDEL/RPUSH/LPOP/SADD/SREM/ZADD/   *)
(* ZREM/ZREMRANGEBYSCORE/EXPIRE) and doc/user-guide.md's per-type extensions    *)
(* (hclear/lclear/sclear/zclear answer 1 when the collection existed; hexpire   *)
(* etc. answer like EXPIRE).                                                    *)
EXTENDS Integers, Sequences, FiniteSets, SequencesExt

CONSTANTS NT,       \* tables
          NK,       \* keys per table
          Mut       \* "none" or the name of a deliberately broken variant (spec mutants)

NTy  == 8
NTup == NTy * NT * NK
Tups == 1..NTup

Tup(ty, t, k) == ((ty - 1) * NT + (t - 1)) * NK + k
TyOf(u)  == ((u - 1) \div (NT * NK)) + 1
TabOf(u) == (((u - 1) \div NK) % NT) + 1
KeyOf(u) == ((u - 1) % NK) + 1

VARIABLES st,       \* [Tups -> value]
          ttl       \* tuples that carry an expiry (local-deletion policy: sticky until the pass)

ivars == <<st, ttl>>

EmptyStore == [u \in Tups |-> <<>>]

-------------------------------------------------------------------------------
(* value helpers                                                                *)
Has(v, x)    == \E i \in 1..Len(v) : v[i][1] = x
Del(v, x)    == SelectSeq(v, LAMBDA e : e[1] # x)
Put(v, x, y) == SetToSortSeq({e \in ToSet(v) : e[1] # x} \cup {<<x, y>>}, LAMBDA a, b : a[1] < b[1])
ByScore(v)   == SetToSortSeq(ToSet(v), LAMBDA a, b : a[2] < b[2] \/ (a[2] = b[2] /\ a[1] < b[1]))
B2N(b)       == IF b THEN 1 ELSE 0

\* what the data type of a tuple admits
OpsOf(ty) == CASE ty = 1 -> {"set", "del", "expire"}
               [] ty = 2 -> {"hset", "hdel", "clear", "expire"}
               [] ty = 3 -> {"rpush", "lpop", "clear", "expire"}
               [] ty = 4 -> {"sadd", "srem", "clear", "expire"}
               [] ty = 5 -> {"zadd", "zrem", "zrembyscore", "zrembylex", "zlexcount", "zrangebylex", "clear", "expire"}
               [] ty = 6 -> {"bitset", "clear"}
               [] ty = 7 -> {"jset", "jdel"}
               [] ty = 8 -> {"pfadd", "del"}

\* Lexicographic member ranges (ZRANGEBYLEX / ZLEXCOUNT / ZREMRANGEBYLEX; Redis: defined when all
\* members have the same score - the driver only issues them then).  A bound is coded as
\* 10 * s + i: s = 0 the unbounded side ("-" / "+"), s > 0 the sub-key with position s (its name may be
\* the EMPTY string: "[" or "(" alone is a bound, not an unbounded side); i = 1 inclusive, 0 exclusive.
InLex(m, a, b) ==
  /\ (a \div 10 = 0 \/ (IF a % 10 = 1 THEN m >= a \div 10 ELSE m > a \div 10))
  /\ (b \div 10 = 0 \/ (IF b % 10 = 1 THEN m <= b \div 10 ELSE m < b \div 10))
LexSel(v, a, b) == SelectSeq(v, LAMBDA e : InLex(e[1], a, b))

\* effect of a single-tuple command on the value v of the addressed tuple: <<new value, reply>>
Effect(v, op, a, b) ==
  CASE op = "set"    -> << << <<a, 0>> >>, 0 >>
    [] op = "del"    -> << <<>>, B2N(v # <<>>) >>
    [] op = "clear"  -> << <<>>, B2N(v # <<>>) >>
    [] op = "hset"   -> << Put(v, a, b), B2N(~Has(v, a)) >>
    [] op = "hdel"   -> << Del(v, a), B2N(Has(v, a)) >>
    [] op = "rpush"  -> << Append(v, <<a, 0>>), Len(v) + 1 >>
    [] op = "lpop"   -> IF v = <<>> THEN << <<>>, -1 >> ELSE << Tail(v), v[1][1] >>
    [] op = "sadd"   -> << Put(v, a, 0), B2N(~Has(v, a)) >>
    [] op = "srem"   -> << Del(v, a), B2N(Has(v, a)) >>
    [] op = "zadd"   -> << Put(v, a, b), B2N(~Has(v, a)) >>
    [] op = "zrem"   -> << Del(v, a), B2N(Has(v, a)) >>
    [] op = "zrembyscore" ->
         << SelectSeq(v, LAMBDA e : ~(e[2] >= a /\ e[2] <= b)),
            Len(SelectSeq(v, LAMBDA e : e[2] >= a /\ e[2] <= b)) >>
    [] op = "zrembylex"   -> << SelectSeq(v, LAMBDA e : ~InLex(e[1], a, b)), Len(LexSel(v, a, b)) >>
    [] op = "zlexcount"   -> << v, Len(LexSel(v, a, b)) >>
    [] op = "zrangebylex" -> << v, Len(LexSel(v, a, b)) >>     \* list reply: LexMembers
    [] op = "expire" -> << v, B2N(v # <<>>) >>
    [] op = "bitset" -> << Put(v, a, 0), B2N(Has(v, a)) >>      \* SETBIT offset 1: answers the old bit
    [] op = "jset"   -> << << <<a, 0>> >>, 0 >>                 \* JSON.SET key . number
    [] op = "jdel"   -> << <<>>, B2N(v # <<>>) >>               \* JSON.DEL key
    [] op = "pfadd"  -> << Put(v, a, 0), B2N(~Has(v, a)) >>     \* PFADD one element (exact for tiny sets)

\* the list reply of ZRANGEBYLEX: the members of the range in member order
LexMembers(v, a, b) == [i \in 1..Len(LexSel(v, a, b)) |-> LexSel(v, a, b)[i][1]]

\* what a full enumeration of a tuple shows (sorted sets are listed by (score, member))
\* HyperLogLog keys cannot be enumerated: what is read back is PFCOUNT
Dump(s, u) == IF TyOf(u) = 5 THEN ByScore(s[u])
              ELSE IF TyOf(u) = 8 THEN (IF s[u] = <<>> THEN <<>> ELSE << <<Len(s[u]), 0>> >>)
              ELSE s[u]

\* the keys of one (type, table) key space, in key order
KeysOf(s, ty, t) == SelectSeq([k \in 1..NK |-> k], LAMBDA k : s[Tup(ty, t, k)] # <<>>)

-------------------------------------------------------------------------------
(* the store after a command; `Addressed` is what the command is allowed to     *)
(* touch.  The broken variants (Mut) touch a neighbour as the corresponding     *)
(* encoding mistakes would (clear range end off by one, table range computed    *)
(* without the separator / length prefix).                                      *)
Addressed(op, u, a) ==
  CASE op = "deltable"  -> {x \in Tups : TabOf(x) = a}
    [] op = "runexpiry" -> ttl
    [] op = "keys"      -> {}
    [] op = "limit"     -> {}
    [] OTHER            -> {u}

Next1(u) == IF u < NTup THEN u + 1 ELSE u     \* the neighbour in encoded-key order (mutants)

After(s, op, u, a, b) ==
  CASE op = "deltable" ->
         [x \in Tups |-> IF TabOf(x) = a \/ (Mut = "deltable-prefix" /\ TabOf(x) = a + 1)
                         THEN <<>> ELSE s[x]]
    [] op = "runexpiry" -> [x \in Tups |-> IF x \in ttl THEN <<>> ELSE s[x]]
    [] op \in {"keys", "limit"} -> s
    [] OTHER ->
         [x \in Tups |-> IF x = u THEN Effect(s[u], op, a, b)[1]
                         ELSE IF Mut = "clear-neighbour" /\ op = "clear" /\ x = Next1(u) THEN <<>>
                         ELSE IF Mut = "type-shared" /\ op = "del" /\ KeyOf(x) = KeyOf(u) /\ TabOf(x) = TabOf(u) THEN <<>>
                         ELSE s[x]]

ReplyOf(s, op, u, a, b) ==
  CASE op \in {"deltable", "runexpiry", "keys", "limit"} -> 0
    [] OTHER -> Effect(s[u], op, a, b)[2]

TtlAfter(s, op, u) ==
  CASE op = "expire"    -> IF s[u] # <<>> THEN ttl \cup {u} ELSE ttl
    [] op = "runexpiry" -> {}
    [] OTHER            -> ttl

Do(op, u, a, b) ==
  /\ st'  = After(st, op, u, a, b)
  /\ ttl' = TtlAfter(st, op, u)

-------------------------------------------------------------------------------
(* Multi-key commands on kv tuples (MGET, EXISTS k1 k2 .., DEL k1 k2 .., MSET) and the    *)
(* partial whole-table delete DeleteTableRange [start, end).  A slot of a multi-key       *)
(* command is a kv tuple, or an INVALID name (code <= 0: no ':' separator, empty table,   *)
(* over-long key): per slot the answer is the value of exactly that tuple (-1 = nil),     *)
(* nil or an error for an invalid name - never another tuple's value.                     *)
SlotVal(s, x) == IF s[x] = <<>> THEN -1 ELSE s[x][1][1]
MGetOK(s, ks, rl) ==
  /\ Len(rl) = Len(ks)
  /\ \A i \in 1..Len(ks) : IF ks[i] > 0 THEN rl[i] = SlotVal(s, ks[i]) ELSE rl[i] \in {-1, -998}
\* EXISTS counts every slot that names an existing key (a key named twice counts twice)
MExists(s, ks) == Cardinality({i \in 1..Len(ks) : ks[i] > 0 /\ s[ks[i]] # <<>>})
\* DEL removes the named keys and answers how many existed (each key once)
MDelAfter(s, ks) == [x \in Tups |-> IF x \in ToSet(ks) THEN <<>> ELSE s[x]]
MDelReply(s, ks) == Cardinality({x \in ToSet(ks) : x > 0 /\ s[x] # <<>>})
\* MSET k v k v ..: the last value given for a key wins
MSetAfter(s, ks, vs) ==
  [x \in Tups |-> IF x \in ToSet(ks)
                  THEN LET i == CHOOSE i \in 1..Len(ks) : ks[i] = x /\ \A j \in 1..Len(ks) : ks[j] = x => j <= i
                       IN << <<vs[i], 0>> >>
                  ELSE s[x]]
\* DeleteTableRange of table t from key position lo (0 = from the start) to hi exclusive (0 = to the
\* end): kv / hash / list / set / zset data of exactly those keys (the scope its code comment gives)
InKeyRange(k, lo, hi) == (lo = 0 \/ k >= lo) /\ (hi = 0 \/ k < hi)
DelRangeAfter(s, t, lo, hi) ==
  [x \in Tups |-> IF TabOf(x) = t /\ TyOf(x) <= 5 /\ InKeyRange(KeyOf(x), lo, hi) THEN <<>> ELSE s[x]]
MultiOps == {"mget", "mexists", "mdel", "mset", "delrange"}

-------------------------------------------------------------------------------
(* Limit probes.  The documented size limits (doc/user-guide.md: values up to 8 MB; *)
(* common/limit.go: "max key size" 10240, "subkey length for hash/set/zset" 10240,  *)
(* "max value size" 8 MiB) are constants of the model.  A command whose key,        *)
(* sub-key or value is over its limit must be refused and change nothing (a key of  *)
(* 65536+n bytes would alias an n-byte key behind the 16-bit length prefixes); at   *)
(* or below the limit it must be accepted.  The driver removes what an accepted     *)
(* probe wrote (on a key outside the pools) before the dump is taken.               *)
MaxKeyLen == 10240
MaxSubLen == 10240
MaxValLen == 8388608
\* kl = length of the key without its table, kf = length of the whole "table:key": the code
\* applies the key limit to the one or the other depending on the command, the documentation
\* does not say which - over the limit by both readings must be refused, within it by both
\* readings must be accepted, in between either answer is taken as observed
MustReject(kl, sl, vl)  == kl > MaxKeyLen \/ sl > MaxSubLen \/ vl > MaxValLen \/ kl = 0
MustAccept(kf, sl, vl)  == kf <= MaxKeyLen /\ sl <= MaxSubLen /\ vl <= MaxValLen
LimitReply(kl, kf, sl, vl, observed) ==
  IF MustReject(kl, sl, vl) THEN -998
  ELSE IF MustAccept(kf, sl, vl) THEN 0
  ELSE IF observed = 0 THEN 0 ELSE -998

-------------------------------------------------------------------------------
TypeOK == /\ DOMAIN st = Tups
          /\ ttl \subseteq Tups

\* the values keep their canonical shape (sorted, no duplicate sub-key)
Canonical ==
  \A u \in Tups :
    TyOf(u) \in {2, 4, 5, 6, 8} => \A i \in 1..(Len(st[u]) - 1) : st[u][i][1] < st[u][i + 1][1]
=============================================================================
