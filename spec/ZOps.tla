-------------------------------- MODULE ZOps --------------------------------
(* The small value-returning-write model shared by the C04 and C06 trace specifications. *)
(* Written from the Redis command reference (INCR, GETSET, SETNX, SET, DEL, HINCRBY,      *)
(* LPUSH, LPOP, RPOP, SET with NX / XX, SETEX, PFADD) for keys without (reachable) expiry.  A store is a record with one field per    *)
(* modelled location: two string keys s1, s2, two fields of one hash h1f1, h1f2, one list *)
(* l1.  Values are positive integers; 0 stands for "absent" / the nil reply, -1 for the    *)
(* status reply OK (so that it cannot be confused with an integer reply).                 *)
EXTENDS Integers, Sequences, FiniteSets

(* p1 is a HyperLogLog key used as a small set: PFADD answers 1 iff the element is new, and  *)
(* PFCOUNT is exact for the handful of fixed elements the drivers use (checked by the        *)
(* driver's own warm-up: a run in which it is not is not recorded).  In the store it is the *)
(* set of added elements; a dump only shows PFCOUNT, see Dump.  PFADD answers are not checked. *)
EmptyStore == [s1 |-> 0, s2 |-> 0, h1f1 |-> 0, h1f2 |-> 0, l1 |-> <<>>, p1 |-> {}]
(* what a read of every location returns *)
Dump(st) == [st EXCEPT !.p1 = Cardinality(@)]
(* the store an epoch starts from, given the dump of the previous barrier (p1 is only used  *)
(* in histories that start empty)                                                           *)
FromDump(d) == [d EXCEPT !.p1 = {}]

(* Apply(st, op) = [st |-> store after, res |-> reply]; op = [t, k, v] *)
Apply(st, op) ==
  LET k == op.k v == op.v IN
  CASE op.t = "incr"    -> [st |-> [st EXCEPT ![k] = @ + 1], res |-> st[k] + 1]
    [] op.t = "getset"  -> [st |-> [st EXCEPT ![k] = v], res |-> st[k]]
    [] op.t = "setnx"   -> IF st[k] = 0 THEN [st |-> [st EXCEPT ![k] = v], res |-> 1]
                                        ELSE [st |-> st, res |-> 0]
    [] op.t = "set"     -> [st |-> [st EXCEPT ![k] = v], res |-> -1]     \* the status reply OK
    [] op.t = "setex"   -> [st |-> [st EXCEPT ![k] = v], res |-> -1]     \* SETEX with a far expiry
    [] op.t = "setifnx" -> IF st[k] = 0 THEN [st |-> [st EXCEPT ![k] = v], res |-> -1]   \* SET k v NX
                                        ELSE [st |-> st, res |-> 0]                    \* nil
    [] op.t = "setifxx" -> IF st[k] # 0 THEN [st |-> [st EXCEPT ![k] = v], res |-> -1]   \* SET k v XX
                                        ELSE [st |-> st, res |-> 0]
    [] op.t = "get"     -> [st |-> st, res |-> st[k]]          \* reads served by the leader: GET, HGET, LLEN
    [] op.t = "hget"    -> [st |-> st, res |-> st[k]]
    [] op.t = "llen"    -> [st |-> st, res |-> Len(st.l1)]
    [] op.t = "pfadd"   -> [st |-> [st EXCEPT !.p1 = @ \cup {v}], res |-> 1]
       \* (the 0 / 1 answer of PFADD is not part of the contract checked here: the drivers record
       \* any integer answer as 1.  Observed: after a restart the first PFADD of an element that is
       \* already counted answers 1 although PFCOUNT does not change - left to the data-model checks.)
    [] op.t = "del"     -> [st |-> [st EXCEPT ![k] = 0], res |-> IF st[k] = 0 THEN 0 ELSE 1]
    [] op.t = "hincrby" -> [st |-> [st EXCEPT ![k] = @ + v], res |-> st[k] + v]
    [] op.t = "lpush"   -> [st |-> [st EXCEPT !.l1 = <<v>> \o @], res |-> Len(st.l1) + 1]
    [] op.t = "lpop"    -> IF st.l1 = <<>> THEN [st |-> st, res |-> 0]
                           ELSE [st |-> [st EXCEPT !.l1 = Tail(@)], res |-> Head(st.l1)]
    [] op.t = "rpop"    -> IF st.l1 = <<>> THEN [st |-> st, res |-> 0]
                           ELSE [st |-> [st EXCEPT !.l1 = SubSeq(@, 1, Len(@) - 1)],
                                 res |-> st.l1[Len(st.l1)]]

(* Fold(st, ops): the store after applying a sequence of op records in order *)
RECURSIVE Fold(_, _)
Fold(st, ops) == IF ops = <<>> THEN st ELSE Fold(Apply(st, Head(ops)).st, Tail(ops))
=============================================================================
