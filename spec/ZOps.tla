-------------------------------- MODULE ZOps --------------------------------
(* The small value-returning-write model shared by the C04 and C06 trace specifications. *)
(* Written from the Redis command reference (INCR, GETSET, SETNX, SET, DEL, HINCRBY,      *)
(* LPUSH, LPOP, RPOP) for keys without expiry.  A store is a record with one field per    *)
(* modelled location: two string keys s1, s2, two fields of one hash h1f1, h1f2, one list *)
(* l1.  Values are positive integers; 0 stands for "absent" / the nil reply, -1 for the    *)
(* status reply OK (so that it cannot be confused with an integer reply).                 *)
EXTENDS Integers, Sequences

EmptyStore == [s1 |-> 0, s2 |-> 0, h1f1 |-> 0, h1f2 |-> 0, l1 |-> <<>>]

(* Apply(st, op) = [st |-> store after, res |-> reply]; op = [t, k, v] *)
Apply(st, op) ==
  LET k == op.k v == op.v IN
  CASE op.t = "incr"    -> [st |-> [st EXCEPT ![k] = @ + 1], res |-> st[k] + 1]
    [] op.t = "getset"  -> [st |-> [st EXCEPT ![k] = v], res |-> st[k]]
    [] op.t = "setnx"   -> IF st[k] = 0 THEN [st |-> [st EXCEPT ![k] = v], res |-> 1]
                                        ELSE [st |-> st, res |-> 0]
    [] op.t = "set"     -> [st |-> [st EXCEPT ![k] = v], res |-> -1]     \* the status reply OK
    [] op.t = "del"     -> [st |-> [st EXCEPT ![k] = 0], res |-> IF st[k] = 0 THEN 0 ELSE 1]
    [] op.t = "hincrby" -> [st |-> [st EXCEPT ![k] = @ + v], res |-> st[k] + v]
    [] op.t = "lpush"   -> [st |-> [st EXCEPT !.l1 = <<v>> \o @], res |-> Len(st.l1) + 1]
    [] op.t = "lpop"    -> IF st.l1 = <<>> THEN [st |-> st, res |-> 0]
                           ELSE [st |-> [st EXCEPT !.l1 = Tail(@)], res |-> Head(st.l1)]
    [] op.t = "rpop"    -> IF st.l1 = <<>> THEN [st |-> st, res |-> 0]
                           ELSE [st |-> [st EXCEPT !.l1 = SubSeq(@, 1, Len(@) - 1)],
                                 res |-> st.l1[Len(st.l1)]]

(* Fold(st, ops): the store after applying a sequence of op records in order *)
RECURSIVE Fold(_, _)
Fold(st, ops) == IF ops = <<>> THEN st ELSE Fold(Apply(st, Head(ops)).st, Tail(ops))
=============================================================================
