----------------------------- MODULE ZRaftTrace -----------------------------
(* Trace validation for ZRaft: replays one ndjson trace recorded by harness     *)
(* `raftsim` from N real raft.Node instances.  Every line is one step of one     *)
(* replica; the step must be one that the strict layer of ZRaft allows from the *)
(* reconstructed pre-state (same operators as the model-checked actions), the   *)
(* logged projection of the post-state must equal the specification's, and      *)
(* every message the code produced must be either the response the design       *)
(* prescribes or a truthful leader message (FlowOK).  Timing and flow control    *)
(* are free; doing less (treating a message as lost, committing later, not      *)
(* answering) is accepted; doing something the design forbids is not.            *)
(* Unlogged choices (lease ignore, which Tick alternative) are left to TLC.      *)
(* The trace is accepted iff some behaviour consumes every line: the high-water *)
(* mark of l is kept in TLC register 1 (needs -workers 1).  All ZRaft            *)
(* invariants are evaluated on the reconstructed global state after each line.   *)
EXTENDS ZRaft, Json, IOUtils

VARIABLE l

Trace == ndJsonDeserialize(IOEnv.ZR_TRACE)
\* The run's configuration comes from the environment (ZR_N, ZR_VOTERS as a digit string such
\* as "123", ZR_PREVOTE, ZR_CQ as 0/1): constants that depend on the deserialized trace make TLC
\* re-read the file on every use.  TInit checks them against the trace's first line.
RECURSIVE Digits(_)
Digits(n) == IF n < 10 THEN <<n>> ELSE Digits(n \div 10) \o <<n % 10>>
TServer == 1..atoi(IOEnv.ZR_N)
TVoters == Digits(atoi(IOEnv.ZR_VOTERS))
TPreVote == IOEnv.ZR_PREVOTE = "1"
TCQ == IOEnv.ZR_CQ = "1"
CfgOK == LET c == Trace[1].cfg IN
         c.n = atoi(IOEnv.ZR_N) /\ c.voters = TVoters /\ c.prevote = TPreVote /\ c.cq = TCQ

E == Trace[l]
P == E.post
tvars == <<st, dur, rdy, net, leaders, grants, gc, gct, gcq, gapp, bad, l>>

JSet(q) == {q[k] : k \in 1..Len(q)}
JEnt(j) == Ent(j.t, j.k, j.v)
JEnts(q) == [k \in 1..Len(q) |-> JEnt(q[k])]
JSnap(j) == [idx |-> j.idx, term |-> j.term, voters |-> JSet(j.voters), learners |-> JSet(j.learners)]
JMsg(j) == Msg(j.t, j.from, j.to, j.term, j.idx, j.lt, j.c, JEnts(j.ents), j.rej, j.hint, JSnap(j.snap), j.force)
JMsgs(q) == {JMsg(q[k]) : k \in 1..Len(q)}
RoleOf(r) == CASE r = "StateFollower" -> "F" [] r = "StateCandidate" -> "C" [] r = "StateLeader" -> "L"
               [] r = "StatePreCandidate" -> "P" [] OTHER -> "?"

\* the logged projection equals the specification's state
PostOK(s, p) ==
  /\ p.up /\ s.up
  /\ p.term = s.term /\ p.vote = s.vote /\ RoleOf(p.role) = s.role /\ p.lead = s.lead
  /\ p.commit = s.commit /\ p.applied = s.applied
  /\ p.last = Last(s) /\ p.lastTerm = LastTerm(s) /\ p.stable = s.stable /\ p.psnap = s.psnap.idx
  /\ JSet(p.voters) = s.voters /\ JSet(p.learners) = s.learners /\ p.isl = s.isl /\ p.pc = s.pc /\ p.tr = s.tr

TInit == Init /\ l = 2 /\ TLCSet(1, 2) /\ CfgOK

\* an input step of replica i with the given set of allowed results
\* (lossy = TRUE adds the alternative "the input was treated as lost"; it is FALSE for events whose
\* only unlogged effect is bookkeeping of the specification itself - a read request's floor -, where
\* the alternative could never be told apart and would double the search at every such event)
InputTL(i, results, lossy) ==
  /\ st[i].up /\ ~rdy[i].has
  /\ LET s == st[i]
         outs == JMsgs(E.out)
     IN \E res \in results \cup (IF lossy THEN {Ignore(s)} ELSE {}) :
          LET c == P.commit
              s2 == [res.s EXCEPT !.commit = IF c >= s.commit /\ c <= res.s.commit THEN c ELSE @,
                                  !.out = @ \cup outs]
          IN /\ PostOK(s2, P)
             /\ \A o \in outs : o \in res.resp \/ FlowOK(i, s2, dur[i], o)
             /\ st' = [st EXCEPT ![i] = s2]
             /\ leaders' = LeadersAfter(i, s, s2)
             /\ RecordCommit(s2, s.commit, FALSE)
             /\ bad' = bad \cup BadAfterInput(i, s, s2, outs)
  /\ UNCHANGED <<dur, rdy, net, grants, gapp>>

InputT(i, results) == InputTL(i, results, TRUE)

RecvT(i) == LET m == JMsg(E.m) IN
            /\ m \in net /\ m.to = i /\ st[i].up
            /\ InputT(i, Handle(i, st[i], m))

ReadyT(i) ==
  /\ st[i].up /\ ~rdy[i].has
  /\ LET s == st[i]
         R == E.rd
         k == IF Len(R.cents) > 0 THEN R.cfirst + Len(R.cents) - 1 ELSE 0
         r == MkReady(s, k)
         msgs == JMsgs(R.msgs)
         s2 == AfterTake(s, r)
     IN /\ R.has
        /\ IF k = 0 THEN TRUE ELSE (R.cfirst = HFrom(s) /\ k <= Last(s) /\ JEnts(R.cents) = Slice(s, R.cfirst, k))
        /\ JEnts(R.ents) = r.ents /\ (Len(R.ents) > 0 => R.first = r.first)
        /\ R.hsset = r.hsset
        /\ R.hsset => (R.hterm = r.hs.term /\ R.hvote = r.hs.vote /\ R.hcommit = r.hs.commit)
        /\ JSnap(R.snap) = r.snap
        /\ msgs \subseteq s.out
        /\ {[ctx |-> R.reads[x].ctx, idx |-> R.reads[x].idx] : x \in 1..Len(R.reads)} \subseteq s.rs
        /\ R.nl = r.nl
        /\ st' = [st EXCEPT ![i] = s2]
        /\ LET reads == {[ctx |-> R.reads[x].ctx, idx |-> R.reads[x].idx] : x \in 1..Len(R.reads)} IN
           /\ rdy' = [rdy EXCEPT ![i] = [r EXCEPT !.msgs = msgs, !.reads = reads, !.confs = ConfsOwed(s2, r),
                                               \* durability is observed, not demanded (see PersistHS)
                                               !.sync = IF R.sync \/ r.snap.idx > 0 THEN "yes" ELSE "no"]]
           /\ bad' = bad \cup BadOfApp(s, r.hfrom, r.hto) \cup (IF StaleReads(s, reads) # {} THEN {"stale-read"} ELSE {})
        /\ gapp' = GappAfter(s, r.hfrom, r.hto)
        /\ PostOK(s2, P)
  /\ UNCHANGED <<dur, net, leaders, grants, gc, gct, gcq>>

ApplyConfT(i) ==
  /\ st[i].up /\ Len(st[i].appq) > 0
  /\ LET s == st[i]
         h == Head(s.appq)
         outs == JMsgs(E.out)
         s1 == ApplyCC(i, s, h.e)
         c == P.commit
         s2 == [s1 EXCEPT !.appq = Tail(s.appq), !.out = @ \cup outs,
                          !.commit = IF c >= s.commit /\ c <= s1.commit THEN c ELSE @]
     IN /\ h.idx = E.a /\ h.e.kind = E.cc.k /\ h.e.val = E.cc.v
        /\ PostOK(s2, P)
        /\ \A o \in outs : FlowOK(i, s2, dur[i], o)
        /\ st' = [st EXCEPT ![i] = s2]
        /\ rdy' = [rdy EXCEPT ![i].confs = IF @ > 0 THEN @ - 1 ELSE 0]
        /\ RecordCommit(s2, s.commit, FALSE)
  /\ UNCHANGED <<dur, net, leaders, grants, gapp, bad>>

SnapshotT(i) ==
  /\ st[i].up
  /\ LET s == st[i]
         d == dur[i]
         k == E.a
         sn == JSnap(E.rd.snap)
     IN /\ k > d.snap.idx /\ k > d.off /\ k <= DLast(d)
        /\ k <= Max(s.applied, rdy[i].hto)
        /\ IF Len(s.appq) = 0 THEN TRUE ELSE k < Head(s.appq).idx
        /\ sn.idx = k /\ sn.term = DTermAt(d, k) /\ sn.voters = s.voters /\ sn.learners = s.learners
        /\ dur' = [dur EXCEPT ![i].snap = sn, ![i].shs = d.hs]
  /\ UNCHANGED <<st, rdy, net>> /\ UNCHANGED hvars

Skip == UNCHANGED vars

TNext ==
  /\ l <= Len(Trace)
  /\ l' = l + 1
  /\ LET i == E.n IN
     CASE E.ev = "recv"        -> RecvT(i)
       [] E.ev = "tick"        -> InputT(i, TickResults(i, st[i]))
       [] E.ev = "campaign"    -> InputT(i, CampaignResults(i, st[i]))
       [] E.ev = "propose"     -> InputT(i, {ProposeRes(i, st[i], Ent(0, "n", E.a))})
       [] E.ev = "proposeconf" -> InputT(i, {ProposeRes(i, st[i], Ent(0, E.cc.k, E.cc.v))})
       [] E.ev = "transfer"    -> InputT(i, {TransferRes(i, st[i], E.a)})
       [] E.ev = "readindex"   -> InputTL(i, {ReadReqRes(i, st[i], E.a, 0)}, FALSE)
       [] E.ev = "reportsnap"  -> InputT(i, {})
       [] E.ev = "unreachable" -> InputT(i, {})
       [] E.ev = "ready"       -> ReadyT(i)
       [] E.ev = "persist"     -> Persist(i, E.s) /\ PostOK(st[i], P)
       [] E.ev = "send"        -> Send(i) /\ PostOK(st[i], P)
       [] E.ev = "advance"     -> Advance(i) /\ PostOK(st'[i], P)
       [] E.ev = "applyconf"   -> ApplyConfT(i)
       [] E.ev = "snapshot"    -> SnapshotT(i)
       [] E.ev = "compact"     -> Skip
       [] E.ev = "crash"       -> Crash(i, E.a = 1)
       [] E.ev = "restart"     -> Restart(i) /\ RestartOK(dur[i]) /\ PostOK(st'[i], P)
       [] E.ev = "start"       -> Start(i, E.a = 1, E.b = 1) /\ PostOK(st'[i], P)
       [] E.ev = "settled"     -> AllLiveAppliedAll(E.a) /\ Skip
       [] OTHER                -> FALSE        \* panic, unsettled: no action of the design

Done == l > Len(Trace) /\ UNCHANGED tvars
TSpec == TInit /\ [][TNext \/ Done]_tvars

\* high-water mark of the trace position (evaluated on every generated state)
\* Once one explanation of the whole trace has been found (every invariant was evaluated on each of
\* its states when it was generated) the remaining alternatives are not explored any further: hidden
\* bookkeeping (read acks, in-flight duplicates) can make them many.
HW == LET h == TLCGet(1) IN
      IF h > Len(Trace) THEN FALSE
      ELSE TLCSet(1, IF l > h THEN l ELSE h)
Accepted == /\ PrintT(<<"HWM", TLCGet(1), Len(Trace)>>)
            /\ TLCGet(1) = Len(Trace) + 1
=============================================================================
