SPECIFICATION TSpec
CONSTANTS
  Keys = {k1}
  Vals = {0}
  PartialWrite = FALSE
  LeakyError = FALSE
  Panics = FALSE
INVARIANTS NoPanic ErrorChangesNothing NothingLeaks
POSTCONDITION AllConsumed
CHECK_DEADLOCK FALSE
