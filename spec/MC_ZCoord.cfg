SPECIFICATION CSpec
CONSTANTS
  N = 4
  Nodes <- MCNodes
  R = 3
  InitK = 3
  Parts = {0}
  Writers = {1}
  RSet = {3}
  RmNodes = {}
  MaxEpoch = 6
  MaxID = 6
  G_OnePending = TRUE
  G_Quorum = TRUE
  G_Reachable = TRUE
  G_SyncAdd = TRUE
  G_NoAddPending = TRUE
  G_FreshID = TRUE
  G_Distinct = TRUE
  G_LeftRaft = TRUE
  G_CAS = TRUE
  G_Surplus = TRUE
  G_Unlisted = TRUE
  CountCalls = FALSE
  MaxDown = 64
  MaxUnsynced = 64
CONSTRAINT Bounded
INVARIANTS C18_OneRemoving C18_QuorumDistinct C18_AddOneWhenInSync C18_IdsNeverReused C18_NoMarkUnreachable C18x_RoundKeepsInSync C18x_PlacementInputDistinct C18x_RemovableOnlyUnlisted Aux_MembersKnown
