SPECIFICATION Spec
CONSTANTS
  NPos = 3
  MaxWrites = 2
  Mut = "none"
INVARIANTS Ordered NothingForeign MatchExact ScanCompleteOnceOrdered Terminates
