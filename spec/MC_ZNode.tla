---------------------------- MODULE MC_ZNode ----------------------------
(* Bounded instances of ZNode for exhaustive TLC runs; the constants are set in the cfgs. *)
EXTENDS ZNode
(* rseq only names Readys; two states that differ in nothing else behave alike as long as *)
(* the numbers in rdy / chan / cur stay consistent, so it is normalised away in the view.  *)
Norm(r) == IF r = 0 THEN 0 ELSE 1 + rseq - r
View == <<nextId, pend, acked, ackOk, ackCnt, failed, propQ, rlog, commit, handed,
          [rdy EXCEPT !.r = Norm(@)], pcR, role, glog,
          [j \in 1..Len(chan) |-> [chan[j] EXCEPT !.r = Norm(@)]], pcA, [cur EXCEPT !.r = Norm(@)],
          applied, snapi, store, lastIdx, pcS, sIdx, sImg, latestSnap, released, nsnaps, purgeCk,
          walEnts, walCommit, walSnaps, walLow, snapFiles, ckpt, torn, instApplied, ninst, up, crashes, restarts, failedRestart>>
=============================================================================
