------------------------------- MODULE MC_ZWal -------------------------------
(* Bounded instance of ZWal: every history of at most MaxCalls Save /          *)
(* SaveSnapshot calls over indexes 1..MaxIdx and terms 1..MaxTerm with at most *)
(* MaxCut segment cuts, both fsync modes, a clean restart, and - if WithCrash  *)
(* - every crash image (process / power: whole records, short, torn; one       *)
(* flipped record) reopened at every snapshot marker and at a bogus one.       *)
(* With WithCrash = FALSE the same instance generates the save histories the   *)
(* driver `walsim` executes on the real wal package (tlc -simulate).           *)
(*                                                                             *)
(* Histories are raft-legal: entries are appended without gaps, entries at or  *)
(* below the commit index or a snapshot marker are never rewritten, terms and  *)
(* commit never decrease, markers move forward, a marker ahead of the commit   *)
(* index is followed by the hard state that commits it.                        *)
EXTENDS ZWal, TLC

CONSTANTS MaxCalls, MaxIdx, MaxTerm, MaxCut, WithCrash,
          Mutant        \* "" or the name of a guard that is left out (spec mutants)

VARIABLES ncall, ncut
mvars == <<wvars, ncall, ncut>>

Terms == 1..MaxTerm
HSKinds == {"zero", "commit", "term", "term0", "vote"}

HSOf(hk, last, newLast) ==
  CASE hk = "zero"   -> ZeroHS
    [] hk = "commit" -> [t |-> Max2(last.t, 1), v |-> last.v, c |-> newLast]
    [] hk = "term"   -> [t |-> last.t + 1, v |-> 1, c |-> last.c]
    [] hk = "term0"  -> [t |-> last.t + 1, v |-> 0, c |-> last.c]
    [] hk = "vote"   -> [t |-> last.t, v |-> 1, c |-> last.c]

Init ==
  /\ recs = <<>> /\ segs = <<>> /\ handed = 0 /\ synced = 0 /\ pproc = 0 /\ ppow = 0
  /\ enti = 0 /\ mode = "none" /\ opt = FALSE /\ locks = [l |-> 1, p |-> 0]
  /\ img = NoImg /\ snapq = Snap0 /\ res = NoRes
  /\ ncall = 0 /\ ncut = 0

DoCreate(o) == Create(o, 1) /\ UNCHANGED <<ncall, ncut>>

\* the unmutated Save, or one with a guard of the sync policy removed
SaveM(hs, ents, cut) ==
  IF Mutant = "" THEN Save(hs, ents, cut)
  ELSE
  /\ mode = "append"
  /\ ~(hs = ZeroHS /\ ents = <<>>)
  /\ LET last == LastState(recs)
         n    == Len(ents)
         r1   == recs \o SaveRecs(hs, ents)
         e1   == IF n > 0 THEN ents[n].i ELSE enti
         hdr  == IF Mutant = "header-without-state" THEN ZeroHS ELSE LastState(r1)
         r2   == IF cut THEN r1 \o HeaderRecs(MetaOf(recs), hdr) ELSE r1
         must == MustSync(hs, last, n)
         fs   == MustFsync(opt, hs, last, n)
         mustM == IF Mutant = "no-flush-on-entries" THEN TermVoteChanged(hs, last) ELSE must
         fsM   == IF Mutant = "no-fsync-on-vote" THEN (must /\ ~opt) ELSE fs
     IN /\ recs' = r2
        /\ enti' = e1
        /\ segs' = (IF cut THEN Append(segs, [first |-> Len(r1) + 1, idx |-> e1 + 1]) ELSE segs)
        /\ handed' = (IF mustM \/ cut THEN Len(r2) ELSE handed)
        /\ synced' = (IF cut /\ ~opt THEN Len(r2)
                      ELSE IF fsM /\ Contiguous THEN Len(r1) ELSE synced)
        /\ pproc'  = (IF must THEN Len(r1) ELSE pproc)
        /\ ppow'   = (IF fs /\ (~opt \/ Contiguous) THEN Len(r1) ELSE ppow)
  /\ UNCHANGED <<mode, opt, locks, img, snapq, res>>

DoSave(hk, f, n, cut) ==
  /\ mode = "append" /\ ncall < MaxCalls
  /\ (cut => ncut < MaxCut)
  /\ LET last    == LastState(recs)
         floor   == IF Mutant = "rewrite-below-commit" THEN 0 ELSE Max2(last.c, MaxMarker(recs))
         newLast == IF n > 0 THEN f + n - 1 ELSE enti
         hs      == HSOf(hk, last, newLast)
         et      == IF hs # ZeroHS THEN hs.t ELSE Max2(last.t, 1)
         ents    == [j \in 1..n |-> [i |-> f + j - 1, t |-> et, x |-> ncall + 1]]
     IN /\ (n = 0 => f = enti + 1)
        /\ f > floor /\ f <= enti + 1 /\ newLast <= MaxIdx
        /\ (hk \in {"term", "term0"} => last.t + 1 <= MaxTerm)
        /\ (hk = "vote" => last.t >= 1 /\ last.v = 0)
        /\ (hk = "commit" => newLast > last.c)
        \* a snapshot received from the leader (marker ahead of the commit index) is followed
        \* by the hard state that commits it, as raft hands both out in one Ready
        /\ (MaxMarker(recs) > last.c => hk = "commit")
        /\ SaveM(hs, ents, cut)
  /\ ncall' = ncall + 1
  /\ ncut' = (IF cut THEN ncut + 1 ELSE ncut)

DoSnap(i, t) ==
  /\ mode = "append" /\ ncall < MaxCalls
  /\ i > MaxMarker(recs)
  /\ IF Mutant = "snap-sets-enti"
     THEN \* a marker behind the log moves the last-saved index backwards
          /\ mode = "append"
          /\ recs' = Append(recs, SnapRec([i |-> i, t |-> t]))
          /\ enti' = i
          /\ handed' = Len(recs') /\ pproc' = Len(recs')
          /\ synced' = (IF opt THEN synced ELSE Len(recs'))
          /\ ppow'   = (IF opt THEN ppow ELSE Len(recs'))
          /\ UNCHANGED <<segs, mode, opt, locks, img, snapq, res>>
     ELSE SaveSnapshot([i |-> i, t |-> t])
  /\ ncall' = ncall + 1 /\ UNCHANGED ncut

\* the node releases at the index of a snapshot it has saved, after wal.Sync(): the marker
\* and a hard state that commits it are in the prefix that survives a crash
\* (node/raft.go: "Force WAL to fsync its hard state before Release() releases");
\* Mutant "release-anywhere": at any index, without the sync
DoSync       == Sync /\ (handed # Len(recs) \/ synced # Len(recs)) /\ UNCHANGED <<ncall, ncut>>
DoRelease(i) == /\ (Mutant = "release-anywhere" \/ \E s \in ValidSnaps(Pre(recs, CrashFloor)) : s.i = i)
                /\ (IF Mutant = "release-keeps-one-less"
                    THEN /\ mode = "append"
                         /\ LET ge == {k \in 1..Len(segs) : segs[k].idx >= i}
                                keep == IF ge = {} THEN Len(segs) ELSE CHOOSE k \in ge : \A j \in ge : k <= j
                            IN locks' = [locks EXCEPT !.l = Max2(@, keep)]
                         /\ UNCHANGED <<recs, segs, handed, synced, pproc, ppow, enti, mode, opt, img, snapq, res>>
                    ELSE ReleaseLockTo(i))
                /\ locks' # locks /\ UNCHANGED <<ncall, ncut>>
DoPurge(max, k) == Purge(max, k) /\ UNCHANGED <<ncall, ncut>>
DoClose      == Close /\ UNCHANGED <<ncall, ncut>>
\* the node restarts at the newest marker ValidSnapshotEntries offers
DoRestart    == /\ mode = "closed" /\ ncall < MaxCalls
                /\ LET V == ValidSnaps(OnDisk(recs, Len(recs)))
                   IN V # {} /\ Restart(Newest(V))
                /\ UNCHANGED <<ncall, ncut>>

DoCrashProc(n)        == WithCrash /\ CrashProc(n) /\ UNCHANGED <<ncall, ncut>>
DoCrashPower(n, tail) == WithCrash /\ CrashPower(n, tail) /\ UNCHANGED <<ncall, ncut>>
DoFlip(r)             == WithCrash /\ Flip(r) /\ UNCHANGED <<ncall, ncut>>
DoReopen(i, t)        == Reopen([i |-> i, t |-> t]) /\ UNCHANGED <<ncall, ncut>>

Next ==
  \/ \E o \in BOOLEAN : DoCreate(o)
  \/ \E hk \in HSKinds, f \in 1..MaxIdx + 1, n \in 0..2, cut \in BOOLEAN : DoSave(hk, f, n, cut)
  \/ \E i \in 1..MaxIdx, t \in Terms : DoSnap(i, t)
  \/ \E i \in 1..MaxIdx + 1 : DoRelease(i)
  \/ \E max \in 0..1, k \in 1..2 : DoPurge(max, k)
  \/ DoSync
  \/ DoClose
  \/ DoRestart
  \/ \E n \in 0..Len(recs) : DoCrashProc(n)
  \/ \E n \in 0..Len(recs), tail \in {"none", "short", "torn"} : DoCrashPower(n, tail)
  \/ \E r \in 1..Len(recs) : DoFlip(r)
  \/ \E s \in SnapChoices : DoReopen(s.i, s.t)

Spec == Init /\ [][Next]_mvars
=============================================================================
