SPECIFICATION Spec
CONSTANTS
  N = 3
  Term <- TermFn
  RecvFilter = TRUE
  ApplyFilter = "none"
  SyncedAfter = TRUE
  SnapHasSynced = TRUE
  Pipelined = FALSE
  Senders = {1, 2}
  FlushTest = "last"
  MaxLog = 4
  MaxRestart = 1
  MaxSenderRestart = 1
INVARIANTS DestinationIsPrefix SyncedAfterEffect SyncedExact SenderTruthful
