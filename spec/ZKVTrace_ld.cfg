SPECIFICATION TSpec
CONSTANTS
  NKeys = 4
  Mut = "none"
  Policy = "ld"
POSTCONDITION AllConsumed
CHECK_DEADLOCK FALSE
