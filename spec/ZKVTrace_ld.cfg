SPECIFICATION TSpec
CONSTANTS
  NKeys = 4
  Policy = "ld"
POSTCONDITION AllConsumed
CHECK_DEADLOCK FALSE
