-------------------------------- MODULE ZScan --------------------------------
(* Cursor iteration over one ordered "space" of ZanRedisDB (property C13).     *)
(*                                                                             *)
(* A space is what one scan command family addresses:                          *)
(*   SCAN / ADVSCAN      the keys of one data type in one table,               *)
(*   HSCAN/SSCAN/ZSCAN   the fields / members of one collection,               *)
(* each forwards or in reverse (REVSCAN, ADVREVSCAN, HREVSCAN, ...).           *)
(* Written from doc/user-guide.md ("scan命令": usage as in the Redis            *)
(* documentation except that the cursor is a string, the end mark is the empty *)
(* string; results are in key order inside a partition; the table is what      *)
(* precedes the first ':') and the Redis SCAN guarantees (every element present*)
(* during the whole iteration is returned; none that never existed).           *)
(*                                                                             *)
(* Elements are positions 1..NPos of an ordered pool of byte strings; the Go   *)
(* driver instantiates the pool order-consistently with adversarial names.     *)
(* Cursor values: a position = "the element at that position" (exclusive       *)
(* bound), 0 = the empty string (forward: start of the space; as a *returned*  *)
(* cursor: end of the iteration), NPos+1 = an upper bound of the space (the    *)
(* documented way to start a reverse iteration).                               *)
(* Data of other tables / types / collections is the variable `foreign`; no    *)
(* operator of a page reads it - that is NothingForeign.                       *)
EXTENDS Integers, Sequences, FiniteSets, SequencesExt

CONSTANTS NPos,     \* size of the element pool
          Mut       \* "none", or the name of a deliberately broken variant (spec mutants)

Pos == 1..NPos

VARIABLES pop,      \* positions present in the scanned space
          foreign,  \* positions present in some other space (same names, other table/type/key)
          it        \* the running iteration (a record, see NoIter / NewIter)

svars == <<pop, foreign, it>>

-------------------------------------------------------------------------------
(* Pure operators (shared with the trace specification)                        *)

Min2(a, b) == IF a < b THEN a ELSE b
Take(s, n) == IF n >= Len(s) THEN s ELSE SubSeq(s, 1, n)

\* the elements of S a page may still return when the cursor is `cur`
Ahead(S, cur, rev) ==
  IF Mut = "inclusive"
  THEN {p \in S : IF rev THEN p <= cur ELSE p >= cur}
  ELSE {p \in S : IF rev THEN p < cur ELSE p > cur}

Sorted(S, rev) == IF rev THEN SetToSortSeq(S, LAMBDA a, b : a > b)
                         ELSE SetToSortSeq(S, LAMBDA a, b : a < b)

\* everything that is still to come, in iteration order
Rest(P, F, M, cur, rev) ==
  Sorted(Ahead((IF Mut = "foreign" THEN P \cup F ELSE P) \cap M, cur, rev), rev)

\* the reference page: the first cnt matching elements after the cursor; the next cursor
\* is the last returned element, or the end mark when the page is short
RefPage(P, F, M, cur, cnt, rev) == Take(Rest(P, F, M, cur, rev), cnt)
RefNext(els, cnt) ==
  IF Mut = "earlyend" THEN (IF Len(els) <= cnt THEN 0 ELSE els[Len(els)])
  ELSE IF Len(els) < cnt \/ Len(els) = 0 THEN 0
  ELSE IF Mut = "first" THEN els[1] ELSE els[Len(els)]

\* What an observed page must satisfy.  Deliberately permissive where the
\* documentation is silent (COUNT is an upper bound, the end mark may come together
\* with the last element or one page later); strict on everything completeness, order
\* and termination rest on.
PageOK(P, F, M, cur, cnt, rev, els, next) ==
  LET rest == Rest(P, F, M, cur, rev) IN
  /\ Len(els) <= Min2(cnt, Len(rest))
  /\ els = SubSeq(rest, 1, Len(els))              \* a prefix of what is to come, in order
  /\ (rest # <<>>) => Len(els) >= 1                \* progress
  /\ IF Len(els) = Len(rest)
     THEN next = 0 \/ (Len(els) > 0 /\ next = els[Len(els)])
     ELSE next = els[Len(els)]                     \* cursor = last returned element

-------------------------------------------------------------------------------
(* The iteration record                                                        *)
NoIter == [active |-> FALSE, cur |-> 0, start |-> 0, cnt |-> 0, rev |-> FALSE, m |-> {},
           seen |-> <<>>, pages |-> 0, thr |-> {}, ever |-> {}, static |-> TRUE, done |-> FALSE]

NewIter(P, cur, cnt, rev, M) ==
  [active |-> TRUE, cur |-> cur, start |-> cur, cnt |-> cnt, rev |-> rev, m |-> M,
   seen |-> <<>>, pages |-> 0, thr |-> P, ever |-> P, static |-> TRUE, done |-> FALSE]

AfterPage(i, els, next) ==
  [i EXCEPT !.cur = next, !.seen = i.seen \o els, !.pages = i.pages + 1, !.done = (next = 0)]

AfterWrite(i, P2) ==
  IF i.active /\ ~i.done
  THEN [i EXCEPT !.thr = i.thr \cap P2, !.ever = i.ever \cup P2, !.static = FALSE]
  ELSE i

-------------------------------------------------------------------------------
(* Actions                                                                     *)
Begin(cur, cnt, rev, M) ==
  /\ ~it.active
  /\ it' = NewIter(pop, cur, cnt, rev, M)
  /\ UNCHANGED <<pop, foreign>>

\* one scan command: any page PageOK admits (the reference page is one of them)
Page ==
  /\ it.active /\ ~it.done
  /\ \E n \in 0..Min2(it.cnt, NPos) :
       LET els == Take(Rest(pop, foreign, it.m, it.cur, it.rev), n) IN
       \E next \in {0, RefNext(els, it.cnt)} \cup (IF Len(els) > 0 THEN {els[Len(els)]} ELSE {}) :
         /\ \/ Mut # "none" /\ els = RefPage(pop, foreign, it.m, it.cur, it.cnt, it.rev)
                            /\ next = RefNext(els, it.cnt)
            \/ Mut = "none" /\ PageOK(pop, foreign, it.m, it.cur, it.cnt, it.rev, els, next)
         /\ it' = AfterPage(it, els, next)
  /\ UNCHANGED <<pop, foreign>>

Add(p)    == p \notin pop /\ pop' = pop \cup {p} /\ it' = AfterWrite(it, pop') /\ UNCHANGED foreign
Rem(p)    == p \in pop /\ pop' = pop \ {p} /\ it' = AfterWrite(it, pop') /\ UNCHANGED foreign
ForeignAdd(p)    == p \notin foreign /\ foreign' = foreign \cup {p} /\ UNCHANGED <<pop, it>>
ForeignRemove(p) == p \in foreign /\ foreign' = foreign \ {p} /\ UNCHANGED <<pop, it>>

-------------------------------------------------------------------------------
(* Properties.  They are stated on a finished iteration (returned cursor = end *)
(* mark) and, where possible, on every prefix.                                 *)

InDir(a, b, rev) == IF rev THEN a > b ELSE a < b
Count(s, x) == Cardinality({i \in 1..Len(s) : s[i] = x})
\* the part of a set the iteration is responsible for (ahead of its start cursor)
Scope(S, i) == {p \in S \cap i.m : IF i.rev THEN p < i.start ELSE p > i.start}

\* strictly in key order (hence never twice), at every moment
Ordered == \A i \in 1..(Len(it.seen) - 1) : InDir(it.seen[i], it.seen[i + 1], it.rev)

\* nothing that never existed in the scanned space, nothing that does not match
NothingForeign == \A i \in 1..Len(it.seen) : it.seen[i] \in Scope(it.ever, it)
MatchExact     == \A i \in 1..Len(it.seen) : it.seen[i] \in it.m

\* a finished iteration returned every element that was present throughout exactly once;
\* over a population that did not change it returned exactly the sorted element list
ScanCompleteOnceOrdered ==
  it.done =>
    /\ \A p \in Scope(it.thr, it) : Count(it.seen, p) = 1
    /\ it.static => it.seen = Sorted(Scope(pop, it), it.rev)

\* an iteration needs at most one page per pool element plus one; over a static
\* population at most one page per element in scope plus one
Terminates ==
  /\ it.pages <= NPos + 1
  /\ it.static => it.pages <= Cardinality(Scope(pop, it)) + 1
  /\ (it.active /\ ~it.done) => Cardinality(Ahead(Pos, it.cur, it.rev)) + it.pages <= NPos + 1

IterOK == Ordered /\ NothingForeign /\ MatchExact /\ ScanCompleteOnceOrdered /\ Terminates
=============================================================================
