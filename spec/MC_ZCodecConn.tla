---------------------------- MODULE MC_ZCodecConn ----------------------------
(* Bounded instance of ZCodecConn: <= MaxWritten messages over <= MaxConns     *)
(* connections, pipe depth MaxWire, every cut position; histories are part of  *)
(* the state (no VIEW).  MC_ZCodecConn_mut_*.cfg: a new connection keeps the   *)
(* encoder context (keepenc), keeps both contexts (keepboth), or the reader    *)
(* hands raft the message of a cut frame (partial) - TLC must refute them.     *)
(* Keeping only the decoder context is not observable (the first frame of a    *)
(* connection is full and overwrites it) and is not a mutant.                  *)
EXTENDS ZCodecConn

CONSTANTS MaxWire, MaxWritten, MaxConns, MaxIdx

G(n, g, r, nm) == [node |-> n, gid |-> g, rep |-> r, name |-> nm]
Pairs == << <<G(1, 7, 1, "ns-0"), G(2, 7, 2, "ns-0")>>,
            <<G(1, 8, 1, "ns-1"), G(2, 8, 2, "ns-1")>> >>
K == [compact |-> TRUE, local |-> 2, remote |-> 1]

MkMsg(g, i, n) ==
  [type |-> "MsgApp", from |-> Pairs[g][1].rep, to |-> Pairs[g][2].rep, term |-> 1,
   logterm |-> 1, index |-> i, commit |-> i,
   ents |-> [j \in 1..n |-> [index |-> i + j, term |-> 1, d |-> 1]],
   fg |-> Pairs[g][1], tg |-> Pairs[g][2], rest |-> NoRest]

Room == Len(written) < MaxWritten

Write(g, i, n)     == Room /\ Len(wire) < MaxWire /\ NSend(MkMsg(g, i, n))
WriteLost(g, i, n) == Room /\ NSendLost(MkMsg(g, i, n))
WriteHB            == Room /\ Len(wire) < MaxWire /\ NSend(HBMsg)
Cut(k)             == NCut(k)
Attach             == conns < MaxConns /\ NAttach

Init == NInit(K)
Next == \/ \E g \in 1..2, i \in 0..MaxIdx, n \in 0..1 : Write(g, i, n) \/ WriteLost(g, i, n)
        \/ WriteHB
        \/ NDecode
        \/ \E k \in 0..MaxWire : Cut(k)
        \/ Attach
Spec == Init /\ [][Next]_nvars
=============================================================================
