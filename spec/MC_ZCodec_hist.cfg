SPECIFICATION Spec
CONSTANTS
  Mutant = "none"
  MaxWire = 2
  Terms = {1, 2}
  Indexes = {0}
  MaxEnts = 1
  Sizes = {1}
  Commits = {1}
  Lazy = TRUE
  Damage = TRUE
  MaxSent = 3
INVARIANTS Lossless StepFaithful InSync CtxAgree ErrorAfterDamage
