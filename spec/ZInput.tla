-------------------------------- MODULE ZInput --------------------------------
(* Property C11: no client input can crash a replica or leave a partial write  *)
(* behind.  The specification is generic in the command text: whatever bytes a *)
(* client sends, the replica answers with exactly one of two steps             *)
(*   ErrReply  - an error (rejected by the leader-side check, or rejected by   *)
(*               the apply handler): the stored data is unchanged AND the      *)
(*               store's shared default write batch is empty afterwards;       *)
(*   OkWrite   - a normal reply: only data of the addressed key(s) may change  *)
(*               (havoc of the addressed key), a read changes nothing;         *)
(* and there is NO action for a panic, a dead or a hung process.               *)
(*                                                                             *)
(* The abstract machine below carries what the code has: `store` (committed    *)
(* data), `wb` (the default write batch RockDB.wb shared by consecutive        *)
(* commands) and `up`.  Each command has an outcome kind chosen by the         *)
(* environment (valid, rejected by the leader, rejected at apply) and the      *)
(* three ways the code can go wrong are explicit switches (spec mutants):      *)
(*   PartialWrite  - an erroring handler commits part of its writes,           *)
(*   LeakyError    - an erroring handler leaves writes in `wb` (no AbortBatch),*)
(*   Panics        - a handler panics in the apply loop.                       *)
(* TLC exhausts the machine: with all switches off the three invariants hold;  *)
(* each switch violates exactly one of them (MC_ZInput*.cfg).  The trace       *)
(* specification ZInputTrace uses the same step predicates on real runs.       *)
EXTENDS Integers, Sequences, FiniteSets, TLC

CONSTANTS Keys, Vals,
          PartialWrite, LeakyError, Panics     \* FALSE in the design

VARIABLES store,   \* committed data: Keys -> Vals
          wb,      \* pending content of the default write batch: set of <<key, val>>
          up,      \* the process is alive and serving
          last     \* observation of the last step: [cls, key, changed]

ivars == <<store, wb, up, last>>

Changed(a, b) == {k \in Keys : a[k] # b[k]}

RECURSIVE Flush(_, _)
Flush(st, b) == IF b = {} THEN st
                ELSE LET w == CHOOSE x \in b : TRUE IN Flush([st EXCEPT ![w[1]] = w[2]], b \ {w})

-------------------------------------------------------------------------------
(* Step predicates shared with the trace specification.                        *)
\* an error reply: nothing changed
ErrStepOK(changed) == changed = {}
\* a normal reply: only the addressed keys changed
OkStepOK(changed, addressed) == changed \subseteq addressed

-------------------------------------------------------------------------------
Init == /\ store = [k \in Keys |-> 0] /\ wb = {} /\ up = TRUE
        /\ last = [cls |-> "none", key |-> {}, changed |-> {}]

(* A valid command on key k: its write goes through the default write batch    *)
(* and is committed together with whatever the batch already holds.            *)
OkWrite(k, v) ==
  /\ up
  /\ LET st2 == Flush(store, wb \cup {<<k, v>>})
     IN /\ store' = st2
        /\ last' = [cls |-> "ok", key |-> {k}, changed |-> Changed(store, st2)]
  /\ wb' = {} /\ UNCHANGED up

(* A command that is answered with an error, by either layer.                  *)
ErrReply(k) ==
  /\ up
  /\ \/ /\ store' = store /\ wb' = wb                      \* the design
        /\ last' = [cls |-> "err", key |-> {k}, changed |-> {}]
     \/ /\ PartialWrite                                     \* mutant: validation after a partial commit
        /\ \E v \in Vals : /\ v # store[k]
                           /\ store' = [store EXCEPT ![k] = v]
                           /\ last' = [cls |-> "err", key |-> {k}, changed |-> {k}]
        /\ wb' = wb
     \/ /\ LeakyError                                       \* mutant: error path without AbortBatch
        /\ \E v \in Vals : wb' = wb \cup {<<k, v>>}
        /\ store' = store
        /\ last' = [cls |-> "err", key |-> {k}, changed |-> {}]
  /\ UNCHANGED up

(* mutant: a handler panics while the committed entry is applied               *)
Panic(k) == /\ Panics /\ up /\ up' = FALSE
            /\ last' = [cls |-> "panic", key |-> {k}, changed |-> {}]
            /\ UNCHANGED <<store, wb>>

Next == \/ \E k \in Keys, v \in Vals : OkWrite(k, v)
        \/ \E k \in Keys : ErrReply(k)
        \/ \E k \in Keys : Panic(k)

Spec == Init /\ [][Next]_ivars

-------------------------------------------------------------------------------
NoPanic             == up
ErrorChangesNothing == last.cls = "err" => ErrStepOK(last.changed)
NothingLeaks        == last.cls = "ok" => OkStepOK(last.changed, last.key)
BatchEmptyBetweenCommands == wb = {}
=============================================================================
