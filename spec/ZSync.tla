-------------------------------- MODULE ZSync --------------------------------
(* Cross-cluster log replay, receiver side (property C19).                     *)
(*                                                                             *)
(* A source cluster's committed raft log, entries 1..N with terms Term[i]      *)
(* (non-decreasing), is shipped by a syncer to the receiving cluster, which    *)
(* proposes every entry to its own raft group and applies it there.  Every     *)
(* entry is a non-idempotent write (INCR / LPUSH / APPEND), so the receiver's  *)
(* data are described by `effects`, the sequence of source indices whose       *)
(* effect it has applied.  The delivery environment is hostile: it hands over  *)
(* any entry again at any time (duplicates inside a batch, whole batches       *)
(* again, stale entries, batches overlapping the synced position, retries      *)
(* after a proposal was dropped or after the answer was lost); the receiver    *)
(* snapshots and restarts.  Deliveries are gap-free: entry i is only handed    *)
(* over when i-1 has been taken by the receiver before (the sender owns        *)
(* continuity; ApplyRaftReqs ends a batch at the first proposal error).        *)
(*                                                                             *)
(* One action per critical section of the code:                                *)
(*   RecvEntry   server/grpc_api.go ApplyRaftReqs, one loop iteration: the     *)
(*               first duplicate filter against the synced position as it is   *)
(*               *now*, then the proposal (asynchronous: nothing is applied)   *)
(*   ApplyCheck / ApplyEffect / ApplySynced                                    *)
(*               node/node.go applyEntry: second duplicate filter              *)
(*               (isAlreadyApplied), the state machine's write, then           *)
(*               postprocessRemoteApply moving the synced position             *)
(*   TakeSnapshot  the apply loop between two entries (GetSnapshot clones the  *)
(*               synced states together with the checkpoint)                   *)
(*   Restart     restore the newest snapshot, replay the receiver's raft log   *)
EXTENDS Integers, Sequences, FiniteSets

CONSTANTS N,              \* length of the source log
          Term,           \* [1..N -> Nat], non-decreasing
          RecvFilter,     \* TRUE: ApplyRaftReqs drops entries at or below the synced position
          ApplyFilter,    \* "le": skip idx <= synced (the design); "lt": idx < synced; "none"
          SyncedAfter,    \* TRUE: the synced position moves after the effect is applied
          SnapHasSynced,  \* TRUE: the snapshot carries the synced position
          Pipelined       \* TRUE: faithful model of a receiver with several replicas: ApplyRaftReqs queues
                          \* the proposals of a batch without waiting; when leadership moves, the head
                          \* proposals are cancelled while later ones of the same batch still commit

VARIABLES rlog,      \* receiver's raft log: sequence of source indices proposed (committed)
          applied,   \* number of rlog entries the apply loop has gone through
          effects,   \* sequence of source indices whose write has been applied to the store
          synced,    \* source index of the synced position (its term is Term[synced])
          pc,        \* apply loop: "idle" | "effect" | "synced" (inside applyEntry)
          snap,      \* newest snapshot: [applied, effects, synced]
          handed,    \* highest source index handed over so far (gap-free deliveries)
          replayTo,  \* after a restart: rlog length to replay before the node is ready again
          seen       \* history: highest synced position a ready node has shown

svars == <<rlog, applied, effects, synced, pc, snap, handed, replayTo, seen>>

TermOf(i) == IF i = 0 THEN 0 ELSE Term[i]
NoSnap    == [applied |-> 0, effects |-> <<>>, synced |-> 0]

\* the duplicate filter of the design: an entry is old if its term is below the synced
\* term or its index is at or below the synced index
Old(i, syn)    == TermOf(i) < TermOf(syn) \/ i <= syn
OldLt(i, syn)  == TermOf(i) < TermOf(syn) \/ i < syn
SkipAtApply(i, syn) ==
  CASE ApplyFilter = "le"   -> Old(i, syn)
    [] ApplyFilter = "lt"   -> OldLt(i, syn)
    [] OTHER                -> FALSE

Ready == applied >= replayTo /\ pc = "idle"

SInit ==
  /\ rlog = <<>> /\ applied = 0 /\ effects = <<>> /\ synced = 0 /\ pc = "idle"
  /\ snap = NoSnap /\ handed = 0 /\ replayTo = 0 /\ seen = 0

-------------------------------------------------------------------------------
(* the environment hands entry i to ApplyRaftReqs; `ok` = the proposal reaches  *)
(* the receiver's raft log (FALSE: dropped - no leader, queue full, timeout    *)
(* before it was queued; the sender will hand the entry over again)            *)
RecvEntry(i, ok) ==
  /\ i \in 1..N /\ i <= handed + 1
  /\ applied >= replayTo                      \* proposals need a leader: after the replay
  /\ IF RecvFilter /\ Old(i, synced)
     THEN UNCHANGED rlog                       \* "already applied": skipped, the batch goes on
     ELSE IF ok THEN rlog' = Append(rlog, i)
                ELSE UNCHANGED rlog            \* error returned: the batch ends here
  \* the sender moves on to i+1 only when i was taken (or was old)
  /\ handed' = IF i > handed /\ (ok \/ (RecvFilter /\ Old(i, synced))) THEN i ELSE handed
  /\ UNCHANGED <<applied, effects, synced, pc, snap, replayTo, seen>>

\* (multi-replica receiver) the proposal of entry i was queued and then cancelled by a leader
\* change - but the batch had gone on: later entries of it were queued behind and commit.
\* Nothing in the receiver refuses the entry that follows the hole (isContinueCommit only logs).
CancelPrefix(i) ==
  /\ Pipelined
  /\ i \in 1..N /\ i <= handed + 1
  /\ applied >= replayTo
  /\ ~(RecvFilter /\ Old(i, synced))
  /\ handed' = IF i > handed THEN i ELSE handed      \* the sender's batch continues with i+1
  /\ UNCHANGED <<rlog, applied, effects, synced, pc, snap, replayTo, seen>>

\* applyEntry, first part: the apply-time duplicate filter
ApplyCheck ==
  /\ pc = "idle" /\ applied < Len(rlog) /\ rlog[applied + 1] > 0
  /\ LET i == rlog[applied + 1]
     IN IF SkipAtApply(i, synced)
        THEN applied' = applied + 1 /\ UNCHANGED pc
        ELSE pc' = (IF SyncedAfter THEN "effect" ELSE "synced") /\ UNCHANGED applied
  /\ UNCHANGED <<rlog, effects, synced, snap, handed, replayTo, seen>>

Finish == IF SyncedAfter THEN pc = "synced" ELSE pc = "effect"

\* the state machine executes the write
ApplyEffect ==
  /\ pc = "effect"
  /\ effects' = Append(effects, rlog[applied + 1])
  /\ IF Finish THEN pc' = "idle" /\ applied' = applied + 1
               ELSE pc' = "synced" /\ UNCHANGED applied
  /\ UNCHANGED <<rlog, synced, snap, handed, replayTo, seen>>

\* postprocessRemoteApply: the synced position moves to the entry just applied
ApplySynced ==
  /\ pc = "synced"
  /\ synced' = rlog[applied + 1]
  /\ IF Finish THEN pc' = "idle" /\ applied' = applied + 1
               ELSE pc' = "effect" /\ UNCHANGED applied
  /\ UNCHANGED <<rlog, effects, snap, handed, replayTo, seen>>

\* the source has compacted its log: instead of entries the sender ships a snapshot of the source's
\* data as of entry i (NotifyTransferSnap + NotifyApplySnap); the receiver's data become exactly
\* that, the synced position becomes i; entries at or below i that are still in the receiver's raft
\* log are old from now on
\* The request is itself an entry of the receiver's raft log (written here as -i), so it is
\* replayed after a restart like any other entry.
InstallRemoteSnap(i) ==
  /\ applied >= replayTo
  /\ i \in 1..N /\ i > synced
  /\ rlog'   = Append(rlog, 0 - i)
  /\ handed' = IF i > handed THEN i ELSE handed
  /\ UNCHANGED <<applied, effects, synced, pc, snap, replayTo, seen>>

\* the apply loop reaches a snapshot entry: restore the transferred checkpoint, then move the position
ApplySnapEntry ==
  /\ pc = "idle" /\ applied < Len(rlog) /\ rlog[applied + 1] < 0
  /\ LET i == 0 - rlog[applied + 1]
     IN IF i <= synced
        THEN UNCHANGED <<effects, synced>>
        ELSE effects' = [k \in 1..i |-> k] /\ synced' = i
  /\ applied' = applied + 1
  /\ UNCHANGED <<rlog, pc, snap, handed, replayTo, seen>>

\* a ready node shows its synced position (GetSyncedRaft)
Observe ==
  /\ Ready
  /\ seen' = IF synced > seen THEN synced ELSE seen
  /\ UNCHANGED <<rlog, applied, effects, synced, pc, snap, handed, replayTo>>

TakeSnapshot ==
  /\ pc = "idle" /\ applied > snap.applied
  /\ snap' = [applied |-> applied, effects |-> effects,
              synced |-> IF SnapHasSynced THEN synced ELSE 0]
  /\ UNCHANGED <<rlog, applied, effects, synced, pc, handed, replayTo, seen>>

\* stop, restore the newest snapshot (store checkpoint + synced states), replay the log
Restart ==
  /\ pc = "idle"
  /\ applied'  = snap.applied
  /\ effects'  = snap.effects
  /\ synced'   = snap.synced
  /\ replayTo' = Len(rlog)
  /\ UNCHANGED <<rlog, pc, snap, handed, seen>>

-------------------------------------------------------------------------------
(* Pure operators for trace validation: what a whole batch does to a quiescent *)
(* receiver (the entries go through both filters one after the other).         *)
StepEntry(syn, i) == IF Old(i, syn) THEN syn ELSE i
RECURSIVE RunFrom(_, _, _)
RunFrom(syn, b, k) == IF k > Len(b) THEN syn ELSE RunFrom(StepEntry(syn, b[k]), b, k + 1)
RunBatch(syn, b)   == RunFrom(syn, b, 1)
\* positions the batch may leave the receiver at when it was cut short by an error
\* (= {RunBatch(syn, SubSeq(b, 1, k)) : k \in 0..Len(b)}, computed in one pass)
RECURSIVE PrefixesFrom(_, _, _)
PrefixesFrom(syn, b, k) == IF k > Len(b) THEN {syn} ELSE {syn} \cup PrefixesFrom(StepEntry(syn, b[k]), b, k + 1)
Prefixes(syn, b) == PrefixesFrom(syn, b, 1)

-------------------------------------------------------------------------------
(* Properties.                                                                 *)
Range(s) == {s[k] : k \in DOMAIN s}

\* every source entry's write is applied exactly once, in source order
RemoteExactlyOnce == \A k \in DOMAIN effects : effects[k] = k

\* the synced position never runs ahead of the effects
SyncedAfterEffect == synced = 0 \/ synced \in Range(effects)

\* ... and, when the apply loop is between entries, is exactly where the effects end
SyncedExact == pc = "idle" => synced = Len(effects)

\* a ready node never shows a synced position below one it has shown before
\* (monotone, and it survives snapshot + restart)
SyncedMonotone == Ready => synced >= seen
SyncedSurvivesRestart == (applied >= replayTo /\ replayTo > 0 /\ pc = "idle") => synced >= seen
=============================================================================
