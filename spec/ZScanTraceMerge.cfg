SPECIFICATION TSpec
CONSTANTS
  NPos = 72
  Mut = "none"
POSTCONDITION AllConsumed
CHECK_DEADLOCK FALSE
