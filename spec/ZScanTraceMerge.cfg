SPECIFICATION TSpec
CONSTANTS
  NPos = 24
  Mut = "none"
POSTCONDITION AllConsumed
CHECK_DEADLOCK FALSE
