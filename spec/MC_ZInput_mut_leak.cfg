SPECIFICATION Spec
CONSTANTS
  Keys = {k1, k2}
  Vals = {0, 1, 2}
  PartialWrite = FALSE
  LeakyError = TRUE
  Panics = FALSE
INVARIANTS NoPanic ErrorChangesNothing NothingLeaks
