SPECIFICATION MCSpec
CONSTANTS
  Server = {1, 2, 3}
  InitVoterSeq <- Seq123
  PreVote = FALSE
  CheckQuorum = FALSE
  Mut = ""
  LazyApply = FALSE
  Collapsed = FALSE
  MaxAppEnts = 8
  MaxTerm = 3
  MaxLog = 3
  MaxElect = 2
  MaxMsgs = 3
  MaxDup = 0
  MaxCrash = 0
  MaxProp = 0
  MaxReads = 0
  MaxConf = 2
  ConfOps <- OpsShrink
  FCrash = FALSE
  FSnap = FALSE
  FTransfer = FALSE
  FHeartbeat = FALSE
  FResend = FALSE
  FPartial = FALSE
CONSTRAINT Bound
VIEW view
INVARIANTS ElectionSafety LearnerNeverCampaignsOrVotes VoteOncePerTerm LogMatching CommittedNeverTruncated StateMachineSafety LeaderCompleteness DurableCommit RestartSound ReadStateSafety
CHECK_DEADLOCK FALSE
