SPECIFICATION Spec
CONSTANTS
  Keys = {1, 2, 3}
  P = 3
  Hosted = {0, 1, 2}
  Vals = {1, 2}
  NsOf <- MCNs
  Refused = {}
  RouteMulti = "perkey"
  OwnerShift = 0
  RejectUnhosted = TRUE
  MaxLen = 3
INVARIANTS MergedEqualsSingleStore OnlyOwnerExecutes
VIEW View
