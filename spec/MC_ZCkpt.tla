------------------------------ MODULE MC_ZCkpt ------------------------------
(* Bounded instance of ZCkpt for exhaustive checking and for generating        *)
(* behaviours (-simulate) that harness `ckptsim` executes on real stores.      *)
EXTENDS ZCkpt, TLC

CONSTANTS MaxLen,     \* length of the replicated log
          MaxTerm,    \* raft terms 1..MaxTerm
          MaxCkpt,    \* bound on checkpoints per backup directory
          MaxRestore  \* bound on the number of restores in a behaviour

VARIABLE nrestore

mvars == <<log, applied, ckpts, flight, snapIdx, born, gone, nrestore>>

Init == CInit /\ nrestore = 0

\* one named action per disjunct so that TLC's action labels carry the arguments
MApply(s, t)      == (applied[s] < Len(log) \/ Len(log) < MaxLen) /\ Apply(s, t) /\ UNCHANGED nrestore
MBackupBegin(s)   == Cardinality(ckpts[s]) < MaxCkpt /\ BackupBegin(s) /\ UNCHANGED nrestore
MBackupCut(s)     == BackupCut(s) /\ UNCHANGED nrestore
MBackupNotify(s)  == BackupNotify(s) /\ UNCHANGED nrestore
MBackupDone(s)    == BackupDone(s) /\ UNCHANGED nrestore
MRecordSnap(s, t, i) == RecordSnap(s, t, i) /\ UNCHANGED nrestore
MPurge(s, V)      == Purge(s, V) /\ UNCHANGED nrestore
MRestore(s, t, i) == nrestore < MaxRestore /\ Restore(s, t, i) /\ nrestore' = nrestore + 1
MFetch(from, to, t, i) == Cardinality(ckpts[to]) < MaxCkpt /\ Fetch(from, to, t, i) /\ UNCHANGED nrestore

AllCk == UNION {ckpts[s] : s \in Stores}

Next ==
  \/ \E s \in Stores, t \in 1..MaxTerm : MApply(s, t)
  \/ \E s \in Stores : MBackupBegin(s)
  \/ \E s \in Stores : MBackupCut(s)
  \/ \E s \in Stores : MBackupNotify(s)
  \/ \E s \in Stores : MBackupDone(s)
  \/ \E s \in Stores, t \in 1..MaxTerm, i \in 1..MaxLen : MRecordSnap(s, t, i)
  \/ \E s \in Stores, V \in SUBSET AllCk : MPurge(s, V)
  \/ \E s \in Stores, t \in 1..MaxTerm, i \in 1..MaxLen : MRestore(s, t, i)
  \/ \E from \in Stores, to \in Stores, t \in 1..MaxTerm, i \in 1..MaxLen : MFetch(from, to, t, i)

Spec == Init /\ [][Next]_mvars
=============================================================================
