------------------------------ MODULE MC_ZCkpt ------------------------------
(* Bounded instance of ZCkpt for exhaustive checking and for generating        *)
(* behaviours (-simulate) that harness `ckptsim` executes on real stores.      *)
EXTENDS ZCkpt, TLC

CONSTANTS MaxId,      \* number of distinct entries written
          MaxTerm,    \* bound on restores (each takes a new term)
          MaxCkpt     \* bound on checkpoints per backup directory

Names(s) == {NameOf(c) : c \in ckpts[s]}

Init == CInit

\* one named action per disjunct so that TLC's action labels carry the arguments
MWrite(s)         == nextId <= MaxId /\ Write(s)
MBackupBegin(s)   == Cardinality(ckpts[s]) < MaxCkpt /\ BackupBegin(s)
MBackupCut(s)     == BackupCut(s)
MBackupNotify(s)  == BackupNotify(s)
MBackupDone(s)    == BackupDone(s)
MRecordSnap(s, t, i) == RecordSnap(s, t, i)
MPurge(s, V)      == Purge(s, V)
MRestore(s, t, i) == gterm < MaxTerm /\ Restore(s, t, i)
MFetch(from, to, t, i) == Cardinality(ckpts[to]) < MaxCkpt /\ Fetch(from, to, t, i)

AllCk == UNION {ckpts[s] : s \in Stores}

Next ==
  \/ \E s \in Stores : MWrite(s)
  \/ \E s \in Stores : MBackupBegin(s)
  \/ \E s \in Stores : MBackupCut(s)
  \/ \E s \in Stores : MBackupNotify(s)
  \/ \E s \in Stores : MBackupDone(s)
  \/ \E s \in Stores, t \in 1..MaxTerm, i \in 1..MaxId : MRecordSnap(s, t, i)
  \/ \E s \in Stores, V \in SUBSET AllCk : MPurge(s, V)
  \/ \E s \in Stores, t \in 1..MaxTerm, i \in 1..MaxId : MRestore(s, t, i)
  \/ \E from \in Stores, to \in Stores, t \in 1..MaxTerm, i \in 1..MaxId : MFetch(from, to, t, i)

Spec == Init /\ [][Next]_cvars
=============================================================================
