SPECIFICATION Spec
CONSTANTS
  Stores = {1, 2}
  CutBeforeNotify = TRUE
  PurgeBelowSnapOnly = TRUE
  RestoreCopies = TRUE
  SharedFilesSafe = TRUE
  MaxId = 3
  MaxTerm = 4
  MaxCkpt = 2
INVARIANTS CheckpointExact CheckpointImmutable PurgeKeepsRestorable SnapRestorable
