SPECIFICATION Spec
CONSTANTS
  MaxCalls = 5
  MaxIdx = 3
  MaxTerm = 1
  MaxCut = 1
  WithCrash = FALSE
  Mutant = "snap-sets-enti"
INVARIANTS SegmentTransparent
