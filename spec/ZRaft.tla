-------------------------------- MODULE ZRaft --------------------------------
(* Design specification of the raft fork in ZanRedisDB (raft/raft.go, log.go,  *)
(* log_unstable.go, node.go, storage.go) as used by node/raft.go: elections     *)
(* with pre-vote and check-quorum, log replication, learners, single-step       *)
(* membership changes that take effect when the entry is APPLIED (pendingConf), *)
(* snapshots, leader transfer, the Ready pipeline (TakeReady / Persist / Send / *)
(* Advance as separate steps) and crash / restart from durable state.           *)
(*                                                                              *)
(* Structure: the transition of ONE replica on ONE input is a pure operator on  *)
(* a replica-state record (section "strict layer").  The model-checking actions *)
(* (section "actions") and the trace specification ZRaftTrace.tla both use      *)
(* exactly these operators, so what TLC explores exhaustively and what a real   *)
(* trace is judged against is the same definition.                              *)
(*                                                                              *)
(* Deliberate deviations from the code (all over-approximations for safety):    *)
(*  - timers are not modelled: Tick nondeterministically does nothing, starts   *)
(*    a (pre-)campaign, makes a leader step down (check-quorum) or aborts a     *)
(*    transfer; the check-quorum lease is "may ignore a vote request while a    *)
(*    leader is known";                                                         *)
(*  - flow control (Progress state, inflights, pause) is not modelled: a leader *)
(*    may send any truthful MsgApp/MsgHeartbeat/MsgSnap at any time;            *)
(*  - log compaction by the application only matters at restart (everything at  *)
(*    or below the snapshot index is gone then); a leader may send its storage  *)
(*    snapshot whenever it has one;                                             *)
(*  - message loss is non-delivery (the network is a set, delivery optional).   *)
EXTENDS Integers, Sequences, FiniteSets, TLC

CONSTANTS Server,        \* replica ids (positive integers)
          InitVoterSeq,  \* bootstrap voters in StartNode's peer order
          PreVote, CheckQuorum,
          Mut            \* "" or the name of ONE guard that is removed (spec mutants)

VARIABLES st,      \* volatile state per replica
          dur,     \* durable state per replica (what a restart sees)
          rdy,     \* the outstanding Ready per replica
          net,     \* messages in flight (a set; never-delivered = lost)
          leaders, \* history: <<term, replica>> that ever led
          grants,  \* history: real votes that left a replica [term, voter, cand]
          gc,      \* history: first reported committed entry per index
          gct,     \*          term of the reporter
          gcq,     \*          voters of the reporter ({} = bootstrap entry)
          gapp,    \* history: first entry handed to a state machine per index
          bad      \* history: names of violations detected at the step itself

vars == <<st, dur, rdy, net, leaders, grants, gc, gct, gcq, gapp, bad>>
hvars == <<leaders, grants, gc, gct, gcq, gapp, bad>>

-------------------------------------------------------------------------------
(* values *)
NoE    == [term |-> 0, kind |-> "", val |-> 0]
NoSnap == [idx |-> 0, term |-> 0, voters |-> {}, learners |-> {}]
NoHS   == [term |-> 0, vote |-> 0, commit |-> 0]
Ent(t, k, v) == [term |-> t, kind |-> k, val |-> v]
IsConf(e) == e.kind \in {"av", "al", "rm"}
Max(a, b) == IF a > b THEN a ELSE b
Min(a, b) == IF a < b THEN a ELSE b
SetMax(S) == CHOOSE x \in S : \A y \in S : y <= x
SetMin(S) == CHOOSE x \in S : \A y \in S : x <= y

Msg(t, from, to, term, idx, lt, c, ents, rej, hint, snap, force) ==
  [t |-> t, from |-> from, to |-> to, term |-> term, idx |-> idx, lt |-> lt, c |-> c,
   ents |-> ents, rej |-> rej, hint |-> hint, snap |-> snap, force |-> force]
Resp(t, from, to, term, idx, rej, hint) == Msg(t, from, to, term, idx, 0, 0, <<>>, rej, hint, NoSnap, FALSE)
RespTypes == {"MsgAppResp", "MsgVoteResp", "MsgHeartbeatResp", "MsgPreVoteResp"}

Blank == [up |-> FALSE, term |-> 0, vote |-> 0, role |-> "F", lead |-> 0, log |-> <<>>, off |-> 0,
          offTerm |-> 0, commit |-> 0, applied |-> 0, stable |-> 0, psnap |-> NoSnap,
          voters |-> {}, learners |-> {}, isl |-> FALSE, pc |-> FALSE, vg |-> {}, vr |-> {},
          match |-> [j \in Server |-> 0], nx |-> [j \in Server |-> 1], tr |-> 0, out |-> {},
          phs |-> NoHS, pss |-> <<0, "F">>, appq |-> <<>>,
          ro |-> <<>>,   \* leader: pending ReadIndex requests in arrival order [ctx, idx, from, acks] (raft/read_only.go)
          rs |-> {},     \* ReadStates [ctx, idx] not yet carried by a Ready (raft.readStates)
          rq |-> {}]     \* requests issued HERE: [ctx, floor] (floor = highest index reported committed by then)
NoDur == [hs |-> NoHS, shs |-> NoHS, log |-> <<>>, off |-> 0, offTerm |-> 0, snap |-> NoSnap]
NoRd  == [has |-> FALSE, first |-> 0, ents |-> <<>>, hsset |-> FALSE, hs |-> NoHS, snap |-> NoSnap,
          msgs |-> {}, reads |-> {}, hfrom |-> 0, hto |-> 0, nl |-> FALSE, soft |-> FALSE, sync |-> "design",
          pents |-> FALSE, phs |-> FALSE, sent |-> FALSE, confs |-> 0]

-------------------------------------------------------------------------------
(* the log of a replica: entries for indexes off+1 .. off+Len(log) *)
Last(s)      == s.off + Len(s.log)
TermAt(s, k) == IF k = s.off THEN s.offTerm
                ELSE IF k > s.off /\ k <= Last(s) THEN s.log[k - s.off].term ELSE 0
LastTerm(s)  == TermAt(s, Last(s))
EntryAt(s, k) == s.log[k - s.off]
Slice(s, a, b) == SubSeq(s.log, a - s.off, b - s.off)     \* entries a..b (empty if a > b)
Members(s)   == s.voters \cup s.learners
QuorumN(V)   == IF Mut = "quorum" THEN Max(1, Cardinality(V) \div 2) ELSE (Cardinality(V) \div 2) + 1
NConfIn(s, a, b) == Cardinality({k \in a..b : k > s.off /\ k <= Last(s) /\ IsConf(EntryAt(s, k))})

UpToDate(s, idx, lt) == \/ Mut = "uptodate"
                        \/ lt > LastTerm(s)
                        \/ (lt = LastTerm(s) /\ idx >= Last(s))

-------------------------------------------------------------------------------
(* #### strict layer #### *)
(* role changes: raft.go reset, becomeFollower, becomeCandidate, becomeLeader *)
ResetS(s, i, term) ==
  [s EXCEPT !.term = term,
            !.vote = IF term = s.term \/ Mut = "votereset" THEN s.vote ELSE 0,
            !.lead = 0, !.vg = {}, !.vr = {}, !.tr = 0, !.pc = FALSE, !.ro = <<>>,
            !.match = [j \in Server |-> IF j = i THEN Last(s) ELSE 0],
            !.nx = [j \in Server |-> Last(s) + 1]]
BecomeFollower(s, i, term, lead) == [ResetS(s, i, term) EXCEPT !.role = "F", !.lead = lead]

\* raft.maybeCommit: the quorum-th largest Match among the voters, current-term rule
Mci(s) == LET V == s.voters
              q == QuorumN(V)
              c == {k \in {s.match[j] : j \in V} : Cardinality({j \in V : s.match[j] >= k}) >= q}
          IN IF c = {} THEN 0 ELSE SetMax(c)
MaybeCommit(s) == LET m == Mci(s)
                  IN IF m > s.commit /\ m <= Last(s) /\ (Mut = "oldtermcommit" \/ TermAt(s, m) = s.term)
                     THEN [s EXCEPT !.commit = m] ELSE s
AppendEntries(s, i, es) == MaybeCommit([s EXCEPT !.log = @ \o es, !.match[i] = Last(s) + Len(es)])

BecomeLeader(s, i) ==
  LET s1 == [ResetS(s, i, s.term) EXCEPT !.role = "L", !.lead = i,
                                          !.pc = NConfIn(s, s.commit + 1, Last(s)) >= 1]
  IN AppendEntries(s1, i, <<Ent(s.term, "n", 0)>>)

Res(s, resp) == [s |-> s, resp |-> resp]
Ignore(s)    == Res(s, {})

VoteReqs(s, i, t, term, force) ==
  {Msg(t, i, j, term, Last(s), LastTerm(s), 0, <<>>, FALSE, 0, NoSnap, force) : j \in s.voters \ {i}}

CampaignReal(s, i, force) ==
  LET s1 == [ResetS(s, i, s.term + 1) EXCEPT !.vote = i, !.role = "C", !.vg = {i}]
  IN IF QuorumN(s.voters) = 1 THEN Res(BecomeLeader(s1, i), {})
     ELSE Res(s1, VoteReqs(s1, i, "MsgVote", s1.term, force))
CampaignPre(s, i) ==
  LET s1 == [s EXCEPT !.role = "P", !.vg = {i}, !.vr = {}, !.lead = 0]
  IN IF QuorumN(s.voters) = 1 THEN CampaignReal(s1, i, FALSE)
     ELSE Res(s1, VoteReqs(s1, i, "MsgPreVote", s.term + 1, FALSE))

Promotable(s, i) == /\ IF Mut = "learnerpromotable" THEN i \in Members(s) ELSE i \in s.voters
                    /\ s.psnap.idx = 0
\* raft.hup: no campaign while a configuration entry in (applied, committed] is unapplied
HupGuard(s, i) == /\ s.role # "L" /\ Promotable(s, i)
                  /\ s.applied >= s.off
                  /\ (Mut = "hupconf" \/ NConfIn(s, s.applied + 1, s.commit) = 0)
Hup(s, i, type) == IF ~HupGuard(s, i) THEN Ignore(s)
                   ELSE IF type = "pre" THEN CampaignPre(s, i)
                   ELSE CampaignReal(s, i, type = "transfer")

\* ---- (pre-)vote requests (raft.Step, vote branch)
HandleVoteReq(i, s, m) ==
  LET pre == m.t = "MsgPreVote"
      rt  == IF pre THEN "MsgPreVoteResp" ELSE "MsgVoteResp"
      canVote == \/ s.vote = m.from
                 \/ (s.vote = 0 /\ s.lead = 0)
                 \/ (pre /\ m.term > s.term)
                 \/ Mut = "voteonce"
      grant == canVote /\ UpToDate(s, m.idx, m.lt)
  IN IF s.isl /\ Mut # "learnervote" THEN Ignore(s)
     ELSE IF grant
     THEN Res([s EXCEPT !.vote = IF pre /\ Mut # "prevoterecord" THEN @ ELSE m.from],
              {Resp(rt, i, m.from, m.term, 0, FALSE, 0)})
     ELSE Res(s, {Resp(rt, i, m.from, s.term, 0, TRUE, 0)})

\* ---- append (raft.handleAppendEntries, raftLog.maybeAppend/findConflict/append)
\* result: a set ({} = the code would panic: no legal step)
HandleAppend(i, s, m) ==
  IF m.idx < s.commit THEN {Res(s, {Resp("MsgAppResp", i, m.from, s.term, s.commit, FALSE, 0)})}
  ELSE IF m.idx <= Last(s) /\ (TermAt(s, m.idx) = m.lt \/ Mut = "prevterm")
  THEN LET n == Len(m.ents)
           lastnew == m.idx + n
           confl == {k \in 1..n : TermAt(s, m.idx + k) # m.ents[k].term}
           ci == IF confl = {} THEN 0 ELSE m.idx + SetMin(confl)
           s1 == IF ci = 0 THEN s
                 ELSE [s EXCEPT !.log = SubSeq(s.log, 1, ci - 1 - s.off) \o SubSeq(m.ents, ci - m.idx, n),
                                !.stable = Min(@, ci - 1)]
           c2 == Max(s.commit, Min(m.c, lastnew))
       IN IF ci # 0 /\ ci <= s.commit /\ Mut # "truncbelowcommit" THEN {}
          ELSE {Res([s1 EXCEPT !.commit = c2], {Resp("MsgAppResp", i, m.from, s.term, lastnew, FALSE, 0)})}
  ELSE {Res(s, {Resp("MsgAppResp", i, m.from, s.term, m.idx, TRUE, Last(s))})}

HandleHeartbeat(i, s, m) ==
  IF m.c > Last(s) /\ m.c > s.commit THEN {}      \* commitTo panics
  ELSE {Res([s EXCEPT !.commit = Max(@, m.c)], {Resp("MsgHeartbeatResp", i, m.from, s.term, 0, FALSE, m.hint)})}

\* ---- snapshot (raft.handleSnapshot / restore)
HandleSnapshot(i, s, m) ==
  LET sn == m.snap
      ack(s2) == Res(s2, {Resp("MsgAppResp", i, m.from, s2.term, s2.commit, FALSE, 0)})
  IN IF sn.idx <= s.commit /\ Mut # "snapbackward" THEN {ack(s)}
     ELSE IF sn.idx <= Last(s) /\ sn.idx >= s.off /\ TermAt(s, sn.idx) = sn.term
     THEN {ack([s EXCEPT !.commit = Max(@, sn.idx)])}
     ELSE IF i \in s.voters /\ ~s.isl /\ i \in sn.learners THEN {ack(s)}   \* a voter is never demoted by a snapshot
     ELSE LET s2 == [s EXCEPT !.log = <<>>, !.off = sn.idx, !.offTerm = sn.term, !.commit = sn.idx,
                              !.stable = sn.idx, !.psnap = sn, !.voters = sn.voters, !.learners = sn.learners,
                              !.isl = IF i \in sn.voters THEN FALSE ELSE IF i \in sn.learners THEN TRUE ELSE @,
                              !.match = [j \in Server |-> IF j = i THEN sn.idx ELSE 0],
                              !.nx = [j \in Server |-> sn.idx + 1]]
          IN {Res(s2, {Resp("MsgAppResp", i, m.from, s2.term, sn.idx, FALSE, 0)})}

\* ---- proposals (stepLeader MsgProp, with the pendingConf downgrade)
ProposeRes(i, s, e) ==
  IF s.role = "L"
  THEN IF i \notin s.voters \/ s.tr # 0 THEN Ignore(s)
       ELSE LET e1 == IF IsConf(e) /\ s.pc /\ Mut # "pendingconf" THEN Ent(s.term, "n", 0)
                      ELSE Ent(s.term, e.kind, e.val)
                s1 == [s EXCEPT !.pc = @ \/ IsConf(e)]
            IN Res(AppendEntries(s1, i, <<e1>>), {})
  ELSE IF s.role = "F" /\ s.lead # 0
  THEN Res(s, {Msg("MsgProp", i, s.lead, 0, 0, 0, 0, <<Ent(0, e.kind, e.val)>>, FALSE, 0, NoSnap, FALSE)})
  ELSE Ignore(s)

TimeoutNow(i, s, to) == Msg("MsgTimeoutNow", i, to, s.term, 0, 0, 0, <<>>, FALSE, 0, NoSnap, FALSE)

\* ---- leadership transfer request (stepLeader/stepFollower MsgTransferLeader); x = transferee
TransferRes(i, s, x) ==
  IF s.role = "L"
  THEN IF x \notin Members(s) \/ x \in s.learners \/ s.tr = x THEN Ignore(s)
       ELSE IF x = i THEN Res([s EXCEPT !.tr = 0], {})       \* a transfer in progress is aborted first
       ELSE LET s1 == [s EXCEPT !.tr = x]
            IN IF s.match[x] = Last(s) THEN Res(s1, {TimeoutNow(i, s, x)}) ELSE Res(s1, {})
  ELSE IF s.role = "F" /\ s.lead # 0
  THEN Res(s, {Msg("MsgTransferLeader", i, s.lead, 0, 0, 0, 0, <<>>, FALSE, 0, NoSnap, FALSE)})
  ELSE Ignore(s)

\* ---- vote responses (stepCandidate)
\* Note on membership changes during a campaign (examined on real code in round 4, raftsim profile
\* shrinkq).  As in the code (raft.poll), every grant recorded in vg counts, also the grant of a
\* member that has been removed since, and it is compared with the quorum of the CURRENT voters.
\* If a candidate could apply "remove X", "remove Y" in the middle of its campaign, the quorum would
\* shrink under votes that no longer belong to the configuration: with 5 voters candidate C holding
\* {C, X} applies both removals, counts 2 of {L, C, B} and leads the same term in which B was
\* elected by L - two leaders in one term ON REAL CODE (TLC: ElectionSafety violated on the recorded
\* trace under ZRaftTrace_lazyapply.cfg).  What makes this unreachable in the system is NOT a guard of
\* the raft package but the application contract modelled by rdy.confs (Send/Advance below): node/raft.go
\* processReady applies the configuration changes of every Ready before it advances it (waitApply),
\* except for the Ready in which the replica becomes leader, and that Ready cannot carry a
\* configuration entry in a group with more than one voter (the hup guard held when the campaign
\* started and the commit index does not move during a candidacy).  Hence applied (raft's cursor) never
\* runs ahead of the applied configuration on a replica that can campaign, the hup guard sees every
\* committed-but-unapplied configuration entry, and ApplyConf cannot fall between Campaign and the
\* last vote.  With LazyApply = TRUE (an application that advances first, which the Node interface
\* documents as allowed) the library alone is NOT safe.
HandleVoteResp(i, s, m) ==
  LET mine == (m.t = "MsgPreVoteResp" /\ s.role = "P") \/ (m.t = "MsgVoteResp" /\ s.role = "C")
      known == m.from \in s.vg \cup s.vr
      vg2 == IF ~known /\ ~m.rej THEN s.vg \cup {m.from} ELSE s.vg
      vr2 == IF ~known /\ m.rej THEN s.vr \cup {m.from} ELSE s.vr
      s1 == [s EXCEPT !.vg = vg2, !.vr = vr2]
      q == QuorumN(s.voters)
      cnt == Cardinality(vg2)
  IN IF ~mine THEN Ignore(s)
     ELSE IF cnt = q
     THEN IF s.role = "P" /\ Mut # "prevotewins" THEN CampaignReal(s1, i, FALSE)
          ELSE Res(BecomeLeader(s1, i), {})
     ELSE IF Cardinality(vr2) = q THEN Res(BecomeFollower(s1, i, s.term, 0), {})
     ELSE Res(s1, {})

\* ---- leader: append / heartbeat responses
HandleAppResp(i, s, m) ==
  IF m.rej THEN Res([s EXCEPT !.nx[m.from] = Max(1, Min(m.idx, m.hint + 1))], {})
  ELSE LET up == m.idx > s.match[m.from]
           s1 == [s EXCEPT !.match[m.from] = Max(@, m.idx), !.nx[m.from] = Max(@, m.idx + 1)]
           s2 == IF up THEN MaybeCommit(s1) ELSE s1
       IN IF up /\ s.tr = m.from /\ s2.match[m.from] = Last(s2)
          THEN Res(s2, {TimeoutNow(i, s2, m.from)}) ELSE Res(s2, {})

\* ---- linearizable reads, ReadOnlySafe (raft.go stepLeader/stepFollower MsgReadIndex, read_only.go).
\* On heartbeats, heartbeat responses and read-index messages the field `hint` carries the request id.
\* The design (raft thesis 6.4): the leader must have committed an entry of its term, takes its commit
\* index as the read index, and releases it after a heartbeat round acknowledged by a MAJORITY OF THE
\* VOTERS.  (ReadOnlyLeaseBased is not modelled: node/raft.go runs the default, ReadOnlySafe.)
ReadHB(i, s, c) == {Msg("MsgHeartbeat", i, j, s.term, 0, 0, Min(s.match[j], s.commit), <<>>, FALSE, c, NoSnap, FALSE)
                    : j \in Members(s) \ {i}}
ReadResp(i, s, to, c, idx) == Msg("MsgReadIndexResp", i, to, s.term, idx, 0, 0, <<>>, FALSE, c, NoSnap, FALSE)
ReadFloor == Len(gc)
\* c = request id; from = 0 for a request issued at this replica, else the forwarding replica
ReadReqRes(i, s, c, from) ==
  LET s0 == IF from = 0 THEN [s EXCEPT !.rq = @ \cup {[ctx |-> c, floor |-> ReadFloor]}] ELSE s
      local == from = 0 \/ from = i
  IN IF s.role = "L"
     THEN IF QuorumN(s.voters) > 1
          THEN IF TermAt(s, s.commit) # s.term /\ Mut # "readnotermcheck" THEN Res(s0, {})
               ELSE IF \E k \in 1..Len(s.ro) : s.ro[k].ctx = c THEN Res(s0, ReadHB(i, s, c))
               ELSE IF Mut = "readnoquorum"
               THEN (IF local THEN Res([s0 EXCEPT !.rs = @ \cup {[ctx |-> c, idx |-> s.commit]}], {})
                     ELSE Res(s0, {ReadResp(i, s, from, c, s.commit)}))
               ELSE Res([s0 EXCEPT !.ro = Append(@, [ctx |-> c, idx |-> s.commit, from |-> from, acks |-> {}])],
                        ReadHB(i, s, c))
          ELSE IF local THEN Res([s0 EXCEPT !.rs = @ \cup {[ctx |-> c, idx |-> s.commit]}], {})
               ELSE Res(s0, {ReadResp(i, s, from, c, s.commit)})
     ELSE IF s.role = "F" /\ s.lead # 0
     THEN Res(s0, {Msg("MsgReadIndex", i, s.lead, 0, 0, 0, 0, <<>>, FALSE, c, NoSnap, FALSE)})
     ELSE Res(s0, {})
\* heartbeat response that carries a request id
HandleReadAck(i, s, m) ==
  LET ks == {k \in 1..Len(s.ro) : s.ro[k].ctx = m.hint} IN
  IF ks = {} THEN Ignore(s)
  ELSE LET k == SetMin(ks)
           \* an ack that does not count is not recorded either (it would only split the search of the
           \* trace validation into states that differ in nothing observable)
           acks2 == IF Mut = "readlearnerack" \/ m.from \in s.voters THEN s.ro[k].acks \cup {m.from} ELSE s.ro[k].acks
           counted == IF Mut = "readlearnerack" THEN acks2 ELSE acks2 \cap s.voters
       IN IF Cardinality(counted) + 1 < QuorumN(s.voters)
          THEN Res([s EXCEPT !.ro[k].acks = acks2], {})
          ELSE LET rel == SubSeq(s.ro, 1, k)
                   R == {rel[x] : x \in 1..k}
                   mine == {r \in R : r.from = 0 \/ r.from = i}
               IN Res([s EXCEPT !.ro = SubSeq(@, k + 1, Len(@)),
                                !.rs = @ \cup {[ctx |-> r.ctx, idx |-> r.idx] : r \in mine}],
                      {ReadResp(i, s, r.from, r.ctx, r.idx) : r \in R \ mine})

\* ---- dispatch by role after the term rules
Dispatch(i, s, m) ==
  IF m.t \in {"MsgVote", "MsgPreVote"} THEN {HandleVoteReq(i, s, m)}
  ELSE IF m.t = "MsgProp" THEN {IF Len(m.ents) = 1 THEN ProposeRes(i, s, m.ents[1]) ELSE Ignore(s)}
  ELSE IF m.t = "MsgTransferLeader" THEN {TransferRes(i, s, m.from)}
  ELSE IF m.t = "MsgReadIndex" THEN {ReadReqRes(i, s, m.hint, m.from)}
  ELSE IF s.role = "L"
  THEN IF m.from \notin Members(s) THEN {Ignore(s)}
       ELSE IF m.t = "MsgAppResp" THEN {HandleAppResp(i, s, m)}
       ELSE IF m.t = "MsgHeartbeatResp" /\ m.hint # 0 THEN {HandleReadAck(i, s, m)}
       ELSE {Ignore(s)}                                   \* other heartbeat responses: flow control only
  ELSE IF s.role \in {"C", "P"}
  THEN IF m.t = "MsgApp" THEN HandleAppend(i, BecomeFollower(s, i, m.term, m.from), m)
       ELSE IF m.t = "MsgHeartbeat" THEN HandleHeartbeat(i, BecomeFollower(s, i, m.term, m.from), m)
       ELSE IF m.t = "MsgSnap" THEN HandleSnapshot(i, BecomeFollower(s, i, m.term, m.from), m)
       ELSE IF m.t \in {"MsgVoteResp", "MsgPreVoteResp"} THEN {HandleVoteResp(i, s, m)}
       ELSE {Ignore(s)}
  ELSE \* follower
       IF m.t = "MsgApp" THEN HandleAppend(i, [s EXCEPT !.lead = m.from], m)
       ELSE IF m.t = "MsgHeartbeat" THEN HandleHeartbeat(i, [s EXCEPT !.lead = m.from], m)
       ELSE IF m.t = "MsgSnap" THEN HandleSnapshot(i, [s EXCEPT !.lead = m.from], m)
       ELSE IF m.t = "MsgTimeoutNow" THEN {IF Promotable(s, i) THEN Hup(s, i, "transfer") ELSE Ignore(s)}
       ELSE IF m.t = "MsgReadIndexResp" THEN {Res([s EXCEPT !.rs = @ \cup {[ctx |-> m.hint, idx |-> m.idx]}], {})}
       ELSE {Ignore(s)}

\* ---- raft.Step: what replica i in state s may do with message m (a set of results)
Handle(i, s, m) ==
  IF m.t \in RespTypes /\ m.from \notin Members(s) /\ Mut # "nonmember" THEN {Ignore(s)}
  ELSE IF m.term = 0 THEN Dispatch(i, s, m)               \* forwarded local messages
  ELSE IF m.term > s.term
  THEN LET lease == m.t \in {"MsgVote", "MsgPreVote"} /\ ~m.force /\ CheckQuorum /\ s.lead # 0
           s1 == IF m.t = "MsgPreVote" \/ (m.t = "MsgPreVoteResp" /\ ~m.rej) THEN s
                 ELSE BecomeFollower(s, i, m.term,
                                     IF m.t \in {"MsgApp", "MsgHeartbeat", "MsgSnap"} THEN m.from ELSE 0)
       IN (IF lease THEN {Ignore(s)} ELSE {}) \cup Dispatch(i, s1, m)
  ELSE IF m.term < s.term
  THEN IF (CheckQuorum \/ PreVote) /\ m.t \in {"MsgHeartbeat", "MsgApp"}
       THEN {Res(s, {Resp("MsgAppResp", i, m.from, s.term, 0, FALSE, 0)})}
       ELSE IF m.t = "MsgPreVote" THEN {Res(s, {Resp("MsgPreVoteResp", i, m.from, s.term, 0, TRUE, 0)})}
       ELSE {Ignore(s)}
  ELSE Dispatch(i, s, m)

\* ---- Tick: timers are not modelled
TickResults(i, s) ==
  {Ignore(s)} \cup
  (IF s.role # "L" THEN {Hup(s, i, IF PreVote THEN "pre" ELSE "elect")}
   ELSE {Res([s EXCEPT !.tr = 0], {})} \cup
        (IF CheckQuorum THEN {Res(BecomeFollower(s, i, s.term, 0), {})} ELSE {}))
CampaignResults(i, s) == {Hup(s, i, IF PreVote THEN "pre" ELSE "elect")}

\* ---- what a leader may send unasked (flow control is free, content is not)
FlowOK(i, s, d, o) ==
  /\ s.role = "L" /\ o.from = i /\ o.term = s.term /\ o.to \in Members(s) \ {i}
  /\ \/ /\ o.t = "MsgApp"
        /\ o.idx >= s.off /\ o.idx + Len(o.ents) <= Last(s)
        /\ o.lt = TermAt(s, o.idx)
        /\ o.ents = Slice(s, o.idx + 1, o.idx + Len(o.ents))
        /\ o.c <= s.commit
     \/ /\ o.t = "MsgHeartbeat"
        /\ o.c <= s.commit /\ (o.c <= s.match[o.to] \/ Mut = "hbcommit")
     \/ /\ o.t = "MsgSnap"
        /\ o.snap = d.snap /\ d.snap.idx > 0

\* ---- applying a configuration change (raft.addNode / addLearner / removeNode)
ApplyCC(i, s, e) ==
  LET x == e.val
      s0 == [s EXCEPT !.pc = FALSE]
  IN IF e.kind = "av"
     THEN IF x \in s.voters THEN s0
          ELSE IF x \in s.learners
          THEN [s0 EXCEPT !.learners = @ \ {x}, !.voters = @ \cup {x}, !.isl = IF x = i THEN FALSE ELSE @]
          ELSE [s0 EXCEPT !.voters = @ \cup {x}, !.match[x] = 0, !.nx[x] = Last(s) + 1,
                          !.isl = IF x = i THEN FALSE ELSE @]
     ELSE IF e.kind = "al"
     THEN IF x \in Members(s) THEN s0
          ELSE [s0 EXCEPT !.learners = @ \cup {x}, !.match[x] = 0, !.nx[x] = Last(s) + 1,
                          !.isl = IF x = i THEN TRUE ELSE @]
     ELSE IF e.kind = "rm"
     THEN LET s1 == [s0 EXCEPT !.voters = @ \ {x}, !.learners = @ \ {x},
                               !.tr = IF s.role = "L" /\ s.tr = x THEN 0 ELSE @]
          IN IF Members(s1) = {} \/ s1.voters = {} THEN s1 ELSE MaybeCommit(s1)
     ELSE s0

\* ---- node.newReady: the Ready a replica in state s would hand out; k = last handed-out index
SoftOf(s) == <<s.lead, s.role>>
HSOf(s)   == [term |-> s.term, vote |-> s.vote, commit |-> s.commit]
HFrom(s)  == Max(s.applied, s.off) + 1
MkReady(s, k) ==
  LET hs == HSOf(s)
      soft == SoftOf(s) # s.pss
  IN [NoRd EXCEPT !.has = TRUE, !.first = s.stable + 1, !.ents = Slice(s, s.stable + 1, Last(s)),
                  !.hsset = hs # s.phs, !.hs = IF hs # s.phs THEN hs ELSE NoHS,
                  !.snap = s.psnap, !.msgs = s.out, !.reads = s.rs,
                  !.hfrom = IF k >= HFrom(s) THEN HFrom(s) ELSE 0, !.hto = IF k >= HFrom(s) THEN k ELSE 0,
                  !.soft = soft, !.nl = soft /\ s.role = "L"]
ReadyNonEmpty(r) == r.soft \/ r.hsset \/ r.snap.idx > 0 \/ Len(r.ents) > 0 \/ r.hto > 0 \/ r.msgs # {} \/ r.reads # {}
\* a ReadState handed out with an index below what was reported committed before its request was issued
StaleReads(s, reads) == {r \in reads : \E q \in s.rq : q.ctx = r.ctx /\ r.idx < q.floor}
\* conf entries among the handed-out ones, queued for the application
HandedConfs(s, r) == IF r.hto = 0 THEN <<>>
                     ELSE SelectSeq([k \in 1..(r.hto - r.hfrom + 1) |->
                                        [idx |-> r.hfrom + k - 1, e |-> EntryAt(s, r.hfrom + k - 1)]],
                                    LAMBDA x : IsConf(x.e))
AfterTake(s, r) == LET q == (IF r.snap.idx > 0 THEN <<>> ELSE s.appq) \o HandedConfs(s, r)
                   IN [s EXCEPT !.appq = q]
ConfsOwed(s2, r) == IF r.nl THEN 0 ELSE Len(s2.appq)

\* ---- storage (MemoryStorage / RocksStorage contract)
DLast(d) == d.off + Len(d.log)
DTermAt(d, k) == IF k = d.off THEN d.offTerm
                 ELSE IF k > d.off /\ k <= DLast(d) THEN d.log[k - d.off].term ELSE 0
StoreSnap(d, sn) == IF sn.idx = 0 \/ sn.idx <= d.snap.idx THEN d
                    ELSE [d EXCEPT !.snap = sn, !.log = <<>>, !.off = sn.idx, !.offTerm = sn.term]
StoreEnts(d, first, ents) ==
  IF Len(ents) = 0 THEN d
  ELSE LET skip == IF first <= d.off THEN d.off + 1 - first ELSE 0       \* entries at or below the offset are dropped
           f2 == first + skip
           e2 == SubSeq(ents, skip + 1, Len(ents))
       IN IF Len(e2) = 0 \/ f2 > DLast(d) + 1 THEN d
          ELSE [d EXCEPT !.log = SubSeq(d.log, 1, f2 - 1 - d.off) \o e2]
PersistEnts(d, r) == StoreEnts(StoreSnap(d, r.snap), r.first, r.ents)
\* Which hard state writes are durable (survive a power loss).
\*  - r.sync = "design" (model checking, MkReady): the DESIGN rule of the raft paper - term, vote and
\*    entries (and a snapshot) must be durable before messages leave; a commit-only write need not be.
\*  - r.sync = "yes" / "no" (trace validation, set by ReadyT from the logged Ready.MustSync of the real
\*    node; a Ready with a snapshot is written synchronously by the driver): an OBSERVATION of what the
\*    code did, never a demand.  The code may sync more than the design requires (the first hard state
\*    after RestartNode: MustSync is relative to the last advanced hard state, empty then).  If it syncs
\*    LESS, the trace is still followed faithfully - crash(lost) falls back to what really was durable -
\*    and the defect shows by its consequence on the following lines (VoteOncePerTerm, ElectionSafety,
\*    LeaderCompleteness, DurableCommit), which is what the directed scenario `lostvote` provokes.
PersistHS(d, r) == LET h == IF r.hsset THEN r.hs ELSE d.hs
                       must == IF r.sync = "design"
                               THEN Len(r.ents) > 0 \/ h.term # d.hs.term \/ h.vote # d.hs.vote \/ r.snap.idx > 0
                               ELSE r.sync = "yes"
                   IN [d EXCEPT !.hs = h, !.shs = IF must THEN h ELSE @]

\* ---- node.Advance
AdvanceS(s, r) ==
  LET le == IF Len(r.ents) > 0 THEN r.first + Len(r.ents) - 1 ELSE 0
      ok == le > 0 /\ le > s.stable /\ le <= Last(s) /\ TermAt(s, le) = r.ents[Len(r.ents)].term
  IN [s EXCEPT !.applied = IF Mut = "appliedcommit" /\ (r.hto > 0 \/ r.snap.idx > 0) THEN s.commit
                           ELSE IF r.hto > 0 THEN r.hto ELSE IF r.snap.idx > 0 THEN Max(@, r.snap.idx) ELSE @,
               !.stable = IF ok THEN le ELSE @,
               !.psnap = IF r.snap.idx > 0 /\ s.psnap.idx = r.snap.idx THEN NoSnap ELSE @,
               !.out = {}, !.rs = @ \ r.reads,
               !.phs = IF r.hsset THEN r.hs ELSE @,
               !.pss = IF r.soft THEN SoftOf(s) ELSE @]

\* ---- raft.newRaft from storage (RestartNode with Applied = 0 after the application dropped
\*      everything at or below its snapshot, as node/raft.go replayWAL does)
DurAtRestart(d) == LET o2 == Max(d.off, d.snap.idx)
                   IN [d EXCEPT !.log = SubSeq(d.log, o2 - d.off + 1, Len(d.log)), !.off = o2,
                                !.offTerm = IF d.snap.idx >= d.off /\ d.snap.idx > 0 THEN d.snap.term ELSE d.offTerm]
RestartOK(d) == LET d2 == DurAtRestart(d)
                IN d.hs = NoHS \/ (d.hs.commit >= d2.off /\ d.hs.commit <= DLast(d2))
RestartS(i, d) ==
  LET d2 == DurAtRestart(d)
      last == DLast(d2)
      hs == IF Mut = "novoteload" THEN [d.hs EXCEPT !.vote = 0] ELSE d.hs
  IN [Blank EXCEPT !.up = TRUE, !.term = hs.term, !.vote = hs.vote,
                   !.commit = IF d.hs = NoHS THEN d2.off ELSE hs.commit,
                   !.log = d2.log, !.off = d2.off, !.offTerm = d2.offTerm,
                   !.applied = d2.off, !.stable = last,
                   !.voters = d.snap.voters, !.learners = d.snap.learners, !.isl = i \in d.snap.learners,
                   !.match = [j \in Server |-> IF j = i THEN last ELSE 0],
                   !.nx = [j \in Server |-> last + 1]]

\* ---- StartNode
InitVoters == {InitVoterSeq[k] : k \in 1..Len(InitVoterSeq)}
BootLog == [k \in 1..Len(InitVoterSeq) |-> Ent(1, "av", InitVoterSeq[k])]
StartS(i, boot, learner) ==
  IF boot
  THEN [Blank EXCEPT !.up = TRUE, !.term = 1, !.log = BootLog, !.commit = Len(BootLog),
                     !.voters = InitVoters,
                     !.match = [j \in Server |-> IF j = i THEN Len(BootLog) ELSE 0],
                     !.nx = [j \in Server |-> Len(BootLog) + 1]]
  ELSE [Blank EXCEPT !.up = TRUE, !.term = 1, !.learners = IF learner THEN {i} ELSE {}, !.isl = learner]

-------------------------------------------------------------------------------
(* history bookkeeping *)
Pad(q, n, x) == IF Len(q) >= n THEN q ELSE q \o [k \in 1..(n - Len(q)) |-> x]
\* indexes newly covered by the commit index of replica state s2 (old commit c0)
NewlyCommitted(s2, c0) == {k \in (Max(c0, s2.off) + 1)..s2.commit : k <= Last(s2)}
RecGC(g, s2, c0)  == LET n == NewlyCommitted(s2, c0) IN
                     IF n = {} THEN g
                     ELSE [k \in 1..Max(Len(g), SetMax(n)) |->
                             IF k \in n /\ (k > Len(g) \/ Pad(g, k, NoE)[k] = NoE) THEN EntryAt(s2, k)
                             ELSE IF k <= Len(g) THEN g[k] ELSE NoE]
RecGCT(g, t, s2, c0) == LET n == NewlyCommitted(s2, c0) IN
                     IF n = {} THEN t
                     ELSE [k \in 1..Max(Len(t), SetMax(n)) |->
                             IF k \in n /\ (k > Len(g) \/ g[k] = NoE) THEN s2.term
                             ELSE IF k <= Len(t) THEN t[k] ELSE 0]
RecGCQ(g, q, s2, c0, boot) == LET n == NewlyCommitted(s2, c0) IN
                     IF n = {} THEN q
                     ELSE [k \in 1..Max(Len(q), SetMax(n)) |->
                             IF k \in n /\ (k > Len(g) \/ g[k] = NoE) THEN (IF boot THEN {} ELSE s2.voters)
                             ELSE IF k <= Len(q) THEN q[k] ELSE {}]
RecordCommit(s2, c0, boot) ==
  /\ gc'  = RecGC(gc, s2, c0)
  /\ gct' = RecGCT(gc, gct, s2, c0)
  /\ gcq' = RecGCQ(gc, gcq, s2, c0, boot)
\* two stages: what sa committed (under sa's configuration), then what sb committed on top
RecordCommit2(sa, sb, c0) ==
  LET g1 == RecGC(gc, sa, c0)
      t1 == RecGCT(gc, gct, sa, c0)
      q1 == RecGCQ(gc, gcq, sa, c0, FALSE)
  IN /\ gc'  = RecGC(g1, sb, sa.commit)
     /\ gct' = RecGCT(g1, t1, sb, sa.commit)
     /\ gcq' = RecGCQ(g1, q1, sb, sa.commit, FALSE)
NoCommitRecord == UNCHANGED <<gc, gct, gcq>>

\* hand-out of entries a..b of state s to the state machine
GappAfter(s, a, b) ==
  IF b = 0 THEN gapp
  ELSE [k \in 1..Max(Len(gapp), b) |->
          IF k >= a /\ k <= b /\ (k > Len(gapp) \/ gapp[k] = NoE) THEN EntryAt(s, k)
          ELSE IF k <= Len(gapp) THEN gapp[k] ELSE NoE]
BadOfApp(s, a, b) ==
  IF b = 0 THEN {}
  ELSE (IF \E k \in a..b : k <= Len(gapp) /\ gapp[k] # NoE /\ gapp[k] # EntryAt(s, k) THEN {"sm"} ELSE {})
       \cup (IF b > s.commit THEN {"uncommitted-handout"} ELSE {})

\* role / vote history of one input step  s -> s2 with responses resp
LeadersAfter(i, s, s2) == IF s2.role = "L" /\ (s.role # "L" \/ s.term # s2.term)
                          THEN leaders \cup {<<s2.term, i>>} ELSE leaders
BadAfterInput(i, s, s2, resp) ==
  (IF s.isl /\ \E o \in resp : o.t \in {"MsgVoteResp", "MsgPreVoteResp"} /\ ~o.rej THEN {"learner-vote"} ELSE {})
  \cup (IF s2.isl /\ s2.role # "F" THEN {"learner-campaign"} ELSE {})
GrantsOf(i, msgs) ==
  {[term |-> o.term, voter |-> i, cand |-> o.to] : o \in {x \in msgs : x.t = "MsgVoteResp" /\ ~x.rej}}
  \cup {[term |-> o.term, voter |-> i, cand |-> i] : o \in {x \in msgs : x.t = "MsgVote"}}

-------------------------------------------------------------------------------
(* #### actions #### *)
(* MC_ZRaft*.tla bound these; CanonFlow gives the messages the model's leader  *)
(* sends, the trace specification accepts any FlowOK message instead.           *)
CONSTANTS LazyApply,    \* TRUE lifts the application contract "configuration changes of a Ready are applied
                        \* before its messages are sent and it is advanced" (node/raft.go processReady waitApply);
                        \* only used to study what the raft library alone allows
          Collapsed,    \* TRUE: every input runs the whole Ready pipeline atomically
          MaxAppEnts    \* entries per MsgApp of the model's leader (MaxSizePerMsg)

Init == /\ st = [i \in Server |-> Blank] /\ dur = [i \in Server |-> NoDur] /\ rdy = [i \in Server |-> NoRd]
        /\ net = {} /\ leaders = {} /\ grants = {} /\ gc = <<>> /\ gct = <<>> /\ gcq = <<>> /\ gapp = <<>>
        /\ bad = {}

\* the model's leader: one append per member from its Next, after a state change
AppTo(i, s, j) == LET p == Min(Max(s.nx[j] - 1, s.off), Last(s)) IN
                  Msg("MsgApp", i, j, s.term, p, TermAt(s, p), s.commit,
                      Slice(s, p + 1, Min(Last(s), p + MaxAppEnts)), FALSE, 0, NoSnap, FALSE)
CanonFlow(i, s, s2) ==
  IF s2.role = "L" /\ (s.role # "L" \/ Last(s2) # Last(s) \/ s2.commit # s.commit)
  THEN {AppTo(i, s2, j) : j \in Members(s2) \ {i}} ELSE {}

\* the atomic pipeline used when Collapsed: take everything, persist, send, advance
RECURSIVE ApplyAllConf(_, _)
ApplyAllConf(i, s) == IF Len(s.appq) = 0 THEN s
                      ELSE ApplyAllConf(i, [ApplyCC(i, s, Head(s.appq).e) EXCEPT !.appq = Tail(s.appq)])
\* (configuration entries handed out are applied at once here; apply lag is explored with the
\* explicit pipeline, where ApplyConf is its own action)
CollapseS(i, s2, d) ==
  LET r == MkReady(s2, s2.commit)
      s3 == AfterTake(s2, r)
  IN [s |-> ApplyAllConf(i, AdvanceS(s3, r)), d |-> PersistHS(PersistEnts(d, r), r), r |-> r]

\* common tail of every input step of replica i: pre-state s, result res, extra (flow)
\* messages, and the delivered message to take out of the network (consume)
InputStep(i, s, res, extra, consume) ==
  LET s2 == [res.s EXCEPT !.out = @ \cup res.resp \cup extra]
  IN /\ leaders' = LeadersAfter(i, s, s2)
     /\ IF Collapsed THEN RecordCommit2(s2, CollapseS(i, s2, dur[i]).s, s.commit)
                     ELSE RecordCommit(s2, s.commit, FALSE)
     /\ IF Collapsed
        THEN LET c == CollapseS(i, s2, dur[i]) IN
             /\ st' = [st EXCEPT ![i] = c.s]
             /\ dur' = [dur EXCEPT ![i] = c.d]
             /\ net' = (net \ consume) \cup {o \in c.r.msgs : o.to # i}
             /\ grants' = grants \cup GrantsOf(i, c.r.msgs)
             /\ gapp' = GappAfter(s2, c.r.hfrom, c.r.hto)
             /\ bad' = bad \cup BadAfterInput(i, s, s2, res.resp) \cup BadOfApp(s2, c.r.hfrom, c.r.hto)
                           \cup (IF StaleReads(s2, c.r.reads) # {} THEN {"stale-read"} ELSE {})
             /\ UNCHANGED rdy
        ELSE /\ st' = [st EXCEPT ![i] = s2]
             /\ bad' = bad \cup BadAfterInput(i, s, s2, res.resp)
             /\ net' = net \ consume
             /\ UNCHANGED <<dur, rdy, grants, gapp>>

Idle(i) == st[i].up /\ ~rdy[i].has

Tick(i) == /\ Idle(i)
           /\ \E res \in TickResults(i, st[i]) \ {Ignore(st[i])} :
                InputStep(i, st[i], res, CanonFlow(i, st[i], res.s), {})
Heartbeat(i, j) == /\ Idle(i) /\ st[i].role = "L" /\ j \in Members(st[i]) \ {i}
                   /\ InputStep(i, st[i], Ignore(st[i]),
                        {Msg("MsgHeartbeat", i, j, st[i].term, 0, 0, IF Mut = "hbcommit" THEN st[i].commit ELSE Min(st[i].match[j], st[i].commit), <<>>, FALSE, 0, NoSnap, FALSE)}, {})
SendApp(i, j) == /\ Idle(i) /\ st[i].role = "L" /\ j \in Members(st[i]) \ {i}
                 /\ InputStep(i, st[i], Ignore(st[i]), {AppTo(i, st[i], j)}, {})
SendSnap(i, j) == /\ Idle(i) /\ st[i].role = "L" /\ j \in Members(st[i]) \ {i} /\ dur[i].snap.idx > 0
                  /\ InputStep(i, st[i], Ignore(st[i]),
                       {Msg("MsgSnap", i, j, st[i].term, 0, 0, 0, <<>>, FALSE, 0, dur[i].snap, FALSE)}, {})
Propose(i, v) == /\ Idle(i) /\ st[i].role = "L"
                 /\ LET res == ProposeRes(i, st[i], Ent(0, "n", v)) IN
                    InputStep(i, st[i], res, CanonFlow(i, st[i], res.s), {})
ProposeConf(i, k, x) == /\ Idle(i) /\ st[i].role = "L"
                        /\ LET res == ProposeRes(i, st[i], Ent(0, k, x)) IN
                           /\ res.s # st[i]
                           /\ InputStep(i, st[i], res, CanonFlow(i, st[i], res.s), {})
ReadIndex(i, c) == /\ Idle(i)
                   /\ InputStep(i, st[i], ReadReqRes(i, st[i], c, 0), {}, {})
Transfer(i, x) == /\ Idle(i) /\ st[i].role = "L"
                  /\ LET res == TransferRes(i, st[i], x) IN
                     /\ res.s # st[i]
                     /\ InputStep(i, st[i], res, {}, {})
\* delivery of message m; keep = TRUE is the bounded duplication
Recv(i, m, keep) == /\ Idle(i) /\ m \in net /\ m.to = i
                    /\ \E res \in Handle(i, st[i], m) :
                         InputStep(i, st[i], res, CanonFlow(i, st[i], res.s), IF keep THEN {} ELSE {m})

\* ---- explicit Ready pipeline
TakeReady(i, k) ==
  /\ ~Collapsed /\ st[i].up /\ ~rdy[i].has
  /\ k \in ({0} \cup (HFrom(st[i])..st[i].commit))
  /\ LET s == st[i]
         r == MkReady(s, k)
         s2 == AfterTake(s, r)
     IN /\ ReadyNonEmpty(r)
        /\ st' = [st EXCEPT ![i] = s2]
        /\ rdy' = [rdy EXCEPT ![i] = [r EXCEPT !.confs = ConfsOwed(s2, r)]]
        /\ gapp' = GappAfter(s, r.hfrom, r.hto)
        /\ bad' = bad \cup BadOfApp(s, r.hfrom, r.hto) \cup (IF StaleReads(s, r.reads) # {} THEN {"stale-read"} ELSE {})
        /\ UNCHANGED <<dur, net, leaders, grants, gc, gct, gcq>>
Persist(i, part) ==
  /\ rdy[i].has /\ st[i].up
  /\ LET r == rdy[i] IN
     /\ \/ part = "all" /\ ~r.pents /\ ~r.phs
        \/ part = "ents" /\ ~r.pents /\ r.snap.idx = 0
        \/ part = "hs" /\ r.pents /\ ~r.phs
     /\ dur' = [dur EXCEPT ![i] = IF part = "all" THEN PersistHS(PersistEnts(@, r), r)
                                  ELSE IF part = "ents" THEN PersistEnts(@, r) ELSE PersistHS(@, r)]
     /\ rdy' = [rdy EXCEPT ![i].pents = TRUE, ![i].phs = (part # "ents")]
  /\ UNCHANGED <<st, net>> /\ UNCHANGED hvars
Send(i) ==
  /\ rdy[i].has /\ st[i].up /\ ~rdy[i].sent
  /\ LET r == rdy[i] IN
     /\ (r.pents /\ r.phs) \/ r.nl \/ Mut = "sendbeforepersist"
     /\ (r.confs = 0 \/ LazyApply)
     /\ net' = net \cup {o \in r.msgs : o.to # i}
     /\ grants' = grants \cup GrantsOf(i, r.msgs)
     /\ rdy' = [rdy EXCEPT ![i].sent = TRUE]
  /\ UNCHANGED <<st, dur, leaders, gc, gct, gcq, gapp, bad>>
Advance(i) ==
  /\ rdy[i].has /\ st[i].up /\ rdy[i].sent /\ rdy[i].pents /\ rdy[i].phs /\ (rdy[i].confs = 0 \/ LazyApply)
  /\ st' = [st EXCEPT ![i] = AdvanceS(@, rdy[i])]
  /\ rdy' = [rdy EXCEPT ![i] = NoRd]
  /\ UNCHANGED <<dur, net>> /\ UNCHANGED hvars
ApplyConf(i) ==
  /\ st[i].up /\ Len(st[i].appq) > 0
  /\ LET s == st[i]
         s2 == [ApplyCC(i, s, Head(s.appq).e) EXCEPT !.appq = Tail(s.appq)]
         fl == IF s2.commit # s.commit /\ s2.role = "L" THEN {AppTo(i, s2, j) : j \in Members(s2) \ {i}} ELSE {}
     IN /\ st' = [st EXCEPT ![i] = [s2 EXCEPT !.out = @ \cup fl]]
        /\ rdy' = [rdy EXCEPT ![i].confs = IF @ > 0 THEN @ - 1 ELSE 0]
        /\ RecordCommit(s2, s.commit, FALSE)
        /\ UNCHANGED <<dur, net, leaders, grants, gapp, bad>>
\* the application snapshots at an index it has applied (here: raft's applied cursor)
Snapshot(i) ==
  /\ st[i].up /\ Len(st[i].appq) = 0
  /\ LET s == st[i]
         d == dur[i]
         k == s.applied
     IN /\ k > d.snap.idx /\ k > d.off /\ k <= DLast(d)
        /\ dur' = [dur EXCEPT ![i].snap = [idx |-> k, term |-> DTermAt(d, k), voters |-> s.voters, learners |-> s.learners],
                               ![i].shs = d.hs]     \* saving a snapshot syncs the WAL
  /\ UNCHANGED <<st, rdy, net>> /\ UNCHANGED hvars
Crash(i, lost) ==
  /\ st[i].up
  /\ st' = [st EXCEPT ![i] = Blank]
  /\ rdy' = [rdy EXCEPT ![i] = NoRd]
  /\ dur' = [dur EXCEPT ![i].hs = IF lost THEN dur[i].shs ELSE @]
  /\ UNCHANGED net /\ UNCHANGED hvars
Restart(i) ==
  /\ ~st[i].up
  /\ bad' = bad \cup (IF RestartOK(dur[i]) THEN {} ELSE {"restart-commit"})
  /\ RestartOK(dur[i]) => /\ st' = [st EXCEPT ![i] = RestartS(i, dur[i])]
                          /\ dur' = [dur EXCEPT ![i] = DurAtRestart(@)]
  /\ ~RestartOK(dur[i]) => UNCHANGED <<st, dur>>
  /\ UNCHANGED <<rdy, net, leaders, grants, gc, gct, gcq, gapp>>
Start(i, boot, learner) ==
  /\ ~st[i].up /\ dur[i] = NoDur /\ st[i] = Blank
  /\ boot <=> i \in InitVoters
  /\ LET s2 == StartS(i, boot, learner) IN
     /\ st' = [st EXCEPT ![i] = s2]
     /\ RecordCommit(s2, 0, TRUE)
  /\ UNCHANGED <<dur, rdy, net, leaders, grants, gapp, bad>>

-------------------------------------------------------------------------------
(* #### properties #### *)
ElectionSafety == \A p, q \in leaders : p[1] = q[1] => p[2] = q[2]
LearnerNeverCampaignsOrVotes ==
  /\ "learner-vote" \notin bad /\ "learner-campaign" \notin bad
  /\ \A i \in Server : st[i].up /\ st[i].isl => st[i].role = "F"
VoteOncePerTerm == \A g, h \in grants : g.term = h.term /\ g.voter = h.voter => g.cand = h.cand

\* two logs that agree on the term at an index agree on everything up to it
LogMatching ==
  \A i, j \in Server :
    (i < j /\ st[i].up /\ st[j].up) =>
      LET a == st[i]
          b == st[j]
          lo == Max(a.off, b.off) + 1
          hi == Min(Last(a), Last(b))
          same == {k \in lo..hi : TermAt(a, k) = TermAt(b, k)}
      IN same # {} => LET m == SetMax(same) IN Slice(a, lo, m) = Slice(b, lo, m)

\* a replica's log up to its commit index is what was first reported committed
CommittedNeverTruncated ==
  \A i \in Server : st[i].up =>
    LET s == st[i]
        hi == Min(s.commit, Last(s))
    IN hi > s.off => /\ Len(gc) >= hi
                     /\ SubSeq(gc, s.off + 1, hi) = Slice(s, s.off + 1, hi)
StateMachineSafety ==
  /\ "sm" \notin bad /\ "uncommitted-handout" \notin bad
  /\ \A k \in 1..Min(Len(gapp), Len(gc)) : gapp[k] # NoE /\ gc[k] # NoE => gapp[k] = gc[k]
LeaderCompleteness ==
  \A i \in Server : (st[i].up /\ st[i].role = "L") =>
    \A k \in 1..Len(gc) : (gc[k] # NoE /\ gct[k] <= st[i].term /\ k > st[i].off) =>
                            (k <= Last(st[i]) /\ EntryAt(st[i], k) = gc[k])
HoldsDurably(j, k, e) == LET d == dur[j] IN
  \/ k <= d.snap.idx
  \/ (k > d.off /\ k <= DLast(d) /\ d.log[k - d.off] = e)
DurableCommit ==
  \A k \in 1..Len(gc) : (gc[k] # NoE /\ gcq[k] # {}) =>
     Cardinality({j \in gcq[k] : HoldsDurably(j, k, gc[k])}) * 2 > Cardinality(gcq[k])
RestartSound == /\ "restart-commit" \notin bad
                /\ \A i \in Server : RestartOK(dur[i])
\* a ReadState (index i) handed out for a request issued at point p: i >= every index reported committed before p
ReadStateSafety == "stale-read" \notin bad
\* end of a healed run: every live member of the leader's configuration has applied everything
AllLiveAppliedAll(ld) ==
  /\ ld \in Server /\ st[ld].up /\ st[ld].role = "L"
  /\ \A j \in Members(st[ld]) : /\ st[j].up
                                /\ st[j].commit = st[ld].commit
                                /\ st[j].applied = st[ld].commit
                                /\ Last(st[j]) = Last(st[ld])
=============================================================================
