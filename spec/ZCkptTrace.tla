----------------------------- MODULE ZCkptTrace -----------------------------
(* Trace validation for ZCkpt (property C14): replays an ndjson trace recorded *)
(* by harness `ckptsim` from real stores through the ZCkpt actions and         *)
(* compares what the stores showed with what the specification says.           *)
(*                                                                             *)
(* The driver logs digests of the store content (`dump`: every data type read  *)
(* through the API; `raw`: every record of the engine).  The specification     *)
(* knows data only as "the effect of log[1..i]", so it learns the digest of     *)
(* index i when a store first reaches it (dig) and the raw digest of "the data *)
(* as of index i" when Backup(i) is requested (rawAt), and from then on demands*)
(* wherever the design says the same data must be present:                     *)
(*   - after Restore(c), on the same or on a fetching store      (CheckpointExact)    *)
(*   - in a read-only copy of checkpoint c, at any later time    (CheckpointImmutable)*)
(*   - when a restored store re-applies the same entries                       *)
(*   - across an engine flush/compaction.                                      *)
(* Directory listings (`ls`) show what the code purged: a vanished checkpoint  *)
(* must have been below the recorded snapshot index (PurgeKeepsRestorable), an *)
(* unknown directory is rejected.  The engine's cut is not observable: the     *)
(* `bnotify` event is BackupCut followed by BackupNotify (the design's         *)
(* assumption CutBeforeNotify); if the real cut came later, the restored       *)
(* digest differs from the one the specification demands.                      *)
(*                                                                             *)
(* Segments start with "reset".  The first disagreement of a segment is        *)
(* printed as <<"MISMATCH", line, <<what, expected>>>> and the rest of the     *)
(* segment is skipped.  Accepted iff every line is consumed and no MISMATCH.   *)
EXTENDS ZCkpt, Json, IOUtils, TLC

VARIABLES l,       \* next trace line
          bad,     \* a mismatch was seen in the current segment
          dig,     \* applied index -> logical digest, learnt at first sight
          rawAt    \* applied index -> raw engine digest when a backup was requested there

Trace == ndJsonDeserialize(IOEnv.ZR_TRACE)
E == Trace[l]

tvars == <<log, applied, ckpts, flight, snapIdx, born, gone, l, bad, dig, rawAt>>

TInit == CInit /\ l = 1 /\ bad = FALSE /\ dig = NoNames /\ rawAt = NoNames

Known(c)    == c \in DOMAIN dig
Learn(c, d) == IF Known(c) THEN dig ELSE Put(dig, c, d)
Agrees(c, d) == Known(c) => dig[c] = d

Mismatch(what, exp) ==
  /\ bad' = TRUE
  /\ PrintT(<<"MISMATCH", l, <<what, exp>>>>)
  /\ UNCHANGED <<cvars, dig, rawAt>>

Keep == UNCHANGED <<bad, dig, rawAt>>

TermOk(s) ==
  IF applied[s] < Len(log) THEN E.t = log[applied[s] + 1]
  ELSE IF Len(log) = 0 THEN TRUE ELSE E.t >= log[Len(log)]

TApply ==
  LET s == E.s
  IN IF ~ApplyLoopRuns(s) THEN Mismatch("apply-while-apply-loop-blocked", 0)
     ELSE IF E.idx # applied[s] + 1 \/ ~TermOk(s) THEN Mismatch("apply-index", applied[s] + 1)
     ELSE IF ~Agrees(E.idx, E.dump) THEN Mismatch("replayed-entries-differ", dig[E.idx])
     ELSE Apply(s, E.t) /\ dig' = Learn(E.idx, E.dump) /\ UNCHANGED <<bad, rawAt>>

TCompact ==
  LET s == E.s
  IN IF ~Agrees(applied[s], E.dump) THEN Mismatch("compact-changed-data", dig[applied[s]])
     ELSE Compact(s) /\ dig' = Learn(applied[s], E.dump) /\ UNCHANGED <<bad, rawAt>>

TBegin ==
  LET s == E.s
  IN IF ~E.ok THEN UNCHANGED <<cvars, bad, dig, rawAt>>      \* refused: nothing happened
     ELSE IF Busy(s) \/ E.i # applied[s] \/ E.i = 0 \/ E.t # log[E.i]
          THEN Mismatch("backup-name", applied[s])
     ELSE IF ~Agrees(E.i, E.dump) THEN Mismatch("backup-request-changed-data", dig[E.i])
     ELSE IF E.raw # "" /\ E.i \in DOMAIN rawAt /\ rawAt[E.i] # E.raw THEN Mismatch("records-differ-at-same-index", rawAt[E.i])
     ELSE /\ BackupBegin(s)
          /\ dig'   = Learn(E.i, E.dump)
          \* (a driver that goes through the state machine's GetSnapshot logs no raw digest)
          /\ rawAt' = IF E.raw = "" THEN rawAt ELSE Put(rawAt, E.i, E.raw)
          /\ UNCHANGED bad

\* WaitReady returned: the engine has fixed its view (assumption) and the apply loop runs
TNotify ==
  LET s == E.s
  IN IF ~Busy(s) THEN Mismatch("notify-without-backup", 0)
     ELSE /\ flight' = [flight EXCEPT ![s] =
                          [(IF flight[s].ph = "begun" THEN CutFlight(s) ELSE flight[s])
                             EXCEPT !.notified = TRUE]]
          /\ UNCHANGED <<log, applied, ckpts, snapIdx, born, gone>>
          /\ Keep

TDone ==
  LET s == E.s
  IN IF flight[s].ph # "cut" \/ flight[s].t # E.t \/ flight[s].i # E.i
     THEN Mismatch("done-without-backup", 0)
     ELSE IF E.err # ""
     THEN \* a failed backup records nothing (doing less is allowed)
          /\ flight' = [flight EXCEPT ![s] = Idle]
          /\ UNCHANGED <<log, applied, ckpts, snapIdx, born, gone>>
          /\ Keep
     ELSE BackupDone(s) /\ Keep

Listed == {<<E.ck[k][1], E.ck[k][2]>> : k \in 1..Len(E.ck)}

TLs ==
  LET s == E.s
      extra == Listed \ {NameOf(c) : c \in ckpts[s]}
      V == {c \in ckpts[s] : NameOf(c) \notin Listed}
      wrong == {NameOf(c) : c \in {x \in V : ~Purgeable(s, x)}}
  IN IF Busy(s) THEN UNCHANGED <<cvars, bad, dig, rawAt>>
     ELSE IF extra # {} THEN Mismatch("unknown-checkpoint-directory", Cardinality(extra))
     ELSE IF V = {} THEN UNCHANGED <<cvars, bad, dig, rawAt>>
     ELSE IF wrong # {} THEN Mismatch("purged-at-or-above-snapshot", <<Cardinality(wrong), snapIdx[s]>>)
     ELSE Purge(s, V) /\ Keep

TSnap ==
  LET s == E.s
  IN IF ~Has(s, E.t, E.i) \/ E.i < snapIdx[s]
     THEN \* the driver moved the snapshot index backwards or to a missing checkpoint:
          \* outside the design; treat as not happened (it only keeps more)
          UNCHANGED <<cvars, bad, dig, rawAt>>
     ELSE RecordSnap(s, E.t, E.i) /\ Keep

TRestore ==
  LET s == E.s
      n == Name(E.t, E.i)
  IN IF Busy(s) \/ ~Has(s, E.t, E.i) THEN Mismatch("restore-of-unknown-checkpoint", n)
     ELSE LET c == Lookup(s, E.t, E.i)
          IN IF E.err # "" THEN Mismatch("restore-failed", n)
             ELSE IF ~Known(c.img) \/ dig[c.img] # E.dump
                  THEN Mismatch("restored-data-differ", IF Known(c.img) THEN dig[c.img] ELSE "?")
             ELSE IF c.img \in DOMAIN rawAt /\ rawAt[c.img] # E.raw
                  THEN Mismatch("restored-records-differ", rawAt[c.img])
             ELSE Restore(s, E.t, E.i) /\ Keep

TCkDump ==
  LET s == E.s
      n == Name(E.t, E.i)
  IN IF ~Has(s, E.t, E.i) THEN Mismatch("dump-of-unknown-checkpoint", n)
     ELSE LET c == Lookup(s, E.t, E.i)
          IN IF E.err # "" THEN Mismatch("checkpoint-unreadable", n)
             ELSE IF ~Known(c.img) \/ dig[c.img] # E.dump
                  THEN Mismatch("checkpoint-data-changed", IF Known(c.img) THEN dig[c.img] ELSE "?")
             ELSE IF c.img \in DOMAIN rawAt /\ rawAt[c.img] # E.raw
                  THEN Mismatch("checkpoint-records-changed", rawAt[c.img])
             ELSE UNCHANGED <<cvars, bad, dig, rawAt>>

TFetch ==
  IF E.from = E.to \/ Busy(E.from) \/ Busy(E.to) \/ ~Has(E.from, E.t, E.i)
  THEN Mismatch("fetch-of-unknown-checkpoint", Name(E.t, E.i))
  ELSE IF E.err # "" THEN Mismatch("fetch-failed", Name(E.t, E.i))
  ELSE Fetch(E.from, E.to, E.t, E.i) /\ Keep

TNext ==
  /\ l <= Len(Trace)
  /\ l' = l + 1
  /\ IF E.ev = "reset"
     THEN /\ log' = <<>>
          /\ applied' = [s \in Stores |-> 0]
          /\ ckpts'   = [s \in Stores |-> {}]
          /\ flight'  = [s \in Stores |-> Idle]
          /\ snapIdx' = [s \in Stores |-> 0]
          /\ born' = NoNames /\ gone' = {}
          /\ bad' = FALSE /\ dig' = NoNames /\ rawAt' = NoNames
     ELSE IF bad THEN UNCHANGED <<cvars, bad, dig, rawAt>>
     ELSE CASE E.ev = "apply"   -> TApply
            [] E.ev = "compact" -> TCompact
            [] E.ev = "bbegin"  -> TBegin
            [] E.ev = "bnotify" -> TNotify
            [] E.ev = "bdone"   -> TDone
            [] E.ev = "ls"      -> TLs
            [] E.ev = "snap"    -> TSnap
            [] E.ev = "restore" -> TRestore
            [] E.ev = "ckdump"  -> TCkDump
            [] E.ev = "fetch"   -> TFetch
            [] OTHER            -> Mismatch("no-such-action", E.ev)

TSpec == TInit /\ [][TNext]_tvars

\* every line consumed: one state per line plus the initial state
AllConsumed == TLCGet("stats").diameter - 1 = Len(Trace)
=============================================================================
