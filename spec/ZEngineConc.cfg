SPECIFICATION CSpec
CONSTANTS NPos = 7
CONSTRAINT HWM
POSTCONDITION Accepted
CHECK_DEADLOCK FALSE
