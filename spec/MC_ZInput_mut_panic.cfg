SPECIFICATION Spec
CONSTANTS
  Keys = {k1, k2}
  Vals = {0, 1, 2}
  PartialWrite = FALSE
  LeakyError = FALSE
  Panics = TRUE
INVARIANTS NoPanic ErrorChangesNothing NothingLeaks
