---------------------------- MODULE ZEngineConc ----------------------------
(* Atomic visibility of write batches under concurrency (property C20: "a     *)
(* committed batch is visible atomically and completely, an uncommitted or     *)
(* cleared one not at all").                                                   *)
(*                                                                             *)
(* One writer commits batches while readers run range iterators.  The engine   *)
(* API is lock-free from the caller's point of view, so the trace carries the  *)
(* begin and end of every call (stamped by one atomic counter) and the point   *)
(* at which a commit takes effect / an iterator fixes its view is an internal  *)
(* step of this specification, somewhere between begin and end.  A recorded    *)
(* execution is accepted iff some placement of those internal steps explains   *)
(* every iterator result with ZEngine's sorted-map semantics.                  *)
EXTENDS ZEngine, Json, IOUtils, TLC

VARIABLES l,        \* next trace line
          inflight, \* the commit in progress: <<>> or <<batch>> (not yet effective)
          views,    \* reader id -> <<>> (no view yet) or <<content>> (view fixed)
          fresh     \* readers that may fix their view right now (partial-order reduction:
                    \* a view is fixed immediately after the read began or immediately after
                    \* a commit took effect; fixing it later without an effect in between
                    \* yields the same content, so nothing is lost)

Trace == ndJsonDeserialize(IOEnv.ZR_TRACE)
E == Trace[l]
cvars == <<data, batch, l, inflight, views, fresh>>

\* trace ops are records [op, k, v] exactly as ZEngine's batch operations
CInit == data = Empty /\ batch = <<>> /\ l = 1 /\ inflight = <<>> /\ views = <<>> /\ fresh = {} /\ TLCSet(1, 1)

IsEv(e) == l <= Len(Trace) /\ E.ev = e /\ l' = l + 1

\* ---- writer ----
CBegin == /\ IsEv("cbegin") /\ inflight = <<>>
          /\ inflight' = <<E.ops>>
          /\ fresh' = {}
          /\ UNCHANGED <<data, batch, views>>

\* internal: the whole batch becomes visible in one step
Effect == /\ inflight # <<>>
          /\ data' = ApplyBatch(data, inflight[1])
          /\ inflight' = <<>>
          /\ fresh' = {r \in DOMAIN views : views[r] = <<>>}
          /\ UNCHANGED <<batch, l, views>>

\* the commit call returned: it must have taken effect by now
CEnd == /\ IsEv("cend") /\ inflight = <<>> /\ E.err = ""
        /\ fresh' = {}
        /\ UNCHANGED <<data, batch, inflight, views>>

\* a batch that was filled and then cleared: no effect at all
Cleared == /\ IsEv("cleared")
           /\ fresh' = {}
           /\ UNCHANGED <<data, batch, inflight, views>>

\* ---- readers ----
RBegin == /\ IsEv("rbegin")
          /\ views' = [r \in DOMAIN views \cup {E.r} |-> IF r = E.r THEN <<>> ELSE views[r]]
          /\ fresh' = {E.r}
          /\ UNCHANGED <<data, batch, inflight>>

\* internal: the iterator fixes its view (a snapshot of the committed content)
Fix(r) == /\ r \in fresh /\ r \in DOMAIN views /\ views[r] = <<>>
          /\ views' = [views EXCEPT ![r] = <<data>>]
          /\ fresh' = fresh \ {r}
          /\ UNCHANGED <<data, batch, inflight, l>>

REnd == /\ IsEv("rend") /\ E.r \in DOMAIN views /\ views[E.r] # <<>>
        /\ E.res = IterRes(views[E.r][1], E.mn, E.mx, E.rt, E.rev, E.off, E.cnt)
        /\ E.err = ""
        /\ views' = [r \in DOMAIN views \ {E.r} |-> views[r]]
        /\ fresh' = {}
        /\ UNCHANGED <<data, batch, inflight>>

Reset == /\ IsEv("reset")
         /\ data' = Empty /\ batch' = <<>> /\ inflight' = <<>> /\ views' = <<>> /\ fresh' = {}

CNext == \/ CBegin \/ CEnd \/ Cleared \/ RBegin \/ REnd \/ Reset
         \/ (l <= Len(Trace) /\ Effect)
         \/ \E r \in DOMAIN views : Fix(r)

CSpec == CInit /\ [][CNext]_cvars

\* high-water mark of the trace position (needs -workers 1)
HWM == IF l > TLCGet(1) THEN TLCSet(1, l) ELSE TRUE
Accepted == /\ PrintT(<<"HWM", TLCGet(1), Len(Trace)>>)
            /\ TLCGet(1) = Len(Trace) + 1
=============================================================================
