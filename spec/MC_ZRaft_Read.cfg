SPECIFICATION MCSpec
CONSTANTS
  Server = {1, 2, 3}
  InitVoterSeq <- Seq123
  PreVote = FALSE
  CheckQuorum = FALSE
  Mut = ""
  LazyApply = FALSE
  Collapsed = TRUE
  MaxAppEnts = 8
  MaxTerm = 3
  MaxLog = 2
  MaxElect = 2
  MaxMsgs = 4
  MaxDup = 0
  MaxCrash = 0
  MaxProp = 1
  MaxReads = 1
  MaxConf = 0
  ConfOps <- OpsNone
  FCrash = FALSE
  FSnap = FALSE
  FTransfer = FALSE
  FHeartbeat = FALSE
  FResend = FALSE
  FPartial = FALSE
CONSTRAINT Bound
VIEW view
INVARIANTS ElectionSafety LearnerNeverCampaignsOrVotes VoteOncePerTerm LogMatching CommittedNeverTruncated StateMachineSafety LeaderCompleteness DurableCommit RestartSound ReadStateSafety
CHECK_DEADLOCK FALSE
