SPECIFICATION Spec
CONSTANTS
  MaxCalls = 4
  MaxIdx = 3
  MaxTerm = 1
  MaxCut = 1
  WithCrash = FALSE
  Mutant = ""
INVARIANTS SnapshotPickIsSound
