SPECIFICATION Spec
CONSTANTS
  NPos = 4
  MaxWrites = 2
  Mut = "none"
INVARIANTS Ordered NothingForeign MatchExact ScanCompleteOnceOrdered Terminates
