---------------------------- MODULE ZCoordTrace -----------------------------
(* Validates what the REAL coordinator wrote (harness coordsim: the real       *)
(* handleNamespaceMigrate / addNamespaceToNode / removeNamespaceFromNode /     *)
(* removeNamespaceFromRemovings / doCheckNamespaces over an in-memory register *)
(* and scripted data-node answers) against ZCoord.                             *)
(*                                                                             *)
(* Lines (segments start with "reset"; R of the whole file comes from env      *)
(* ZR_R):                                                                      *)
(*   reset  R P alive           new scenario (factor, number of partitions)    *)
(*   init   p rec               initial record of partition p (must be valid)  *)
(*   down/up/unsync/sync n      scripted environment (what the stubs answer)   *)
(*   members p m                raft membership of p reported by answering     *)
(*                              nodes                                          *)
(*   setr   r                   the replication factor was changed to r        *)
(*   begin/end op               a check or balance round runs (its removals    *)
(*                              of live nodes must be removals of a surplus)   *)
(*   placein old                the previous layout handed to the placement    *)
(*                              function (in-sync list of every partition)     *)
(*   call   op src n p w err    a coordinator entry point was called (info)    *)
(*   update p ok oldgen rec     one UpdateNamespacePartReplicaInfo call with   *)
(*                              the complete record the coordinator passed     *)
(*   panic                      a Go panic inside the coordinator              *)
(* Every successful update must (1) satisfy the record clauses of C18 and (2)  *)
(* be exactly Mark(n), Add(n) or Finish(n) of ZCoord from the previous record  *)
(* (or a pure reordering of RaftNodes = a leader move of the balance round)    *)
(* with every guard of that action true in the scripted environment.  The      *)
(* first rejected line of a segment prints <<"MISMATCH", line, names>> and the *)
(* rest of the segment is skipped.                                             *)
EXTENDS ZCoord, Json, IOUtils, TLC

VARIABLES l, skip, ctxop
tvars == <<metas, views, alive, unsynced, mems, used, bad, calls, rf, rmn, l, skip, ctxop>>

Trace == ndJsonDeserialize(IOEnv.ZR_TRACE)
E == Trace[l]

TraceR == CASE IOEnv.ZR_R = "1" -> 1 [] IOEnv.ZR_R = "2" -> 2 [] IOEnv.ZR_R = "3" -> 3
            [] IOEnv.ZR_R = "4" -> 4 [] IOEnv.ZR_R = "5" -> 5
TraceNodes == 1..64
TraceParts == 0..7
TraceRSet == {TraceR}

PairFn(ps) == [n \in {p[1] : p \in Range(ps)} |-> (CHOOSE p \in Range(ps) : p[1] = n)[2]]
RecOf(j) == [nodes |-> j.nodes, ids |-> PairFn(j.ids), rem |-> {p[1] : p \in Range(j.rem)},
             maxid |-> j.maxid, epoch |-> j.epoch]
\* the removal entry names the raft id of the replica it removes
RemIdsOK(j) == \A p \in Range(j.rem) : \E q \in Range(j.ids) : q = p
PairsUnique(ps) == \A i, k \in DOMAIN ps : i # k => ps[i][1] # ps[k][1]

Blank == [nodes |-> <<>>, ids |-> <<>>, rem |-> {}, maxid |-> 0, epoch |-> 0]
NoEpoch(m) == [m EXCEPT !.epoch = 0]
InSyncList(m) == SelectSeq(m.nodes, LAMBDA x : x \notin m.rem)

\* names of everything wrong with the step metas[p] -> nw in the current environment
StepBroken(p, nw) ==
  LET meta == metas[p]
      a == NoEpoch(nw)
      marks == {n \in NodeSet(meta) : a = NoEpoch(MarkOf(meta, n))}
      fins  == {n \in meta.rem : a = NoEpoch(FinishOf(meta, n))}
      \* an addition, whatever id it was given
      adds  == {n \in TraceNodes : /\ nw.nodes = Append(meta.nodes, n) /\ nw.rem = meta.rem
                                   /\ n \in DOMAIN nw.ids
                                   /\ \A x \in DOMAIN meta.ids : x # n => (x \in DOMAIN nw.ids /\ nw.ids[x] = meta.ids[x])}
      \* a leader move of the balance round: the same record up to the order of RaftNodes (the
      \* preferred leader is the first entry).  Order is irrelevant to every clause of C18.
      reorder == /\ NodeSet(nw) = NodeSet(meta) /\ Len(nw.nodes) = Len(meta.nodes) /\ nw.nodes # meta.nodes
                 /\ nw.ids = meta.ids /\ nw.rem = meta.rem /\ nw.maxid = meta.maxid
  IN IF nw.epoch <= meta.epoch THEN {"EpochNotAdvanced"}
     ELSE IF reorder THEN {}
     ELSE IF marks # {} THEN
          UNION {MarkBroken(meta, n, EnvP(p))
                 \cup (IF ctxop \in {"check", "balance", "moveoff"}
                       THEN If((n \in alive /\ n \notin DOMAIN rmn) => Cardinality(ISR(meta)) > rf, "Round:RemovalReducesInSyncBelowFactor")
                       ELSE {}) : n \in marks}
     ELSE IF fins # {} THEN UNION {FinishBroken(meta, n, EnvP(p)) : n \in fins}
     ELSE IF adds # {} THEN
          UNION {AddBroken(meta, n, EnvP(p))
                 \cup If(nw.ids[n] = meta.maxid + 1 /\ nw.maxid = meta.maxid + 1, "Add:IdNotMaxPlusOne")
                 \cup If(nw.ids[n] \notin used[p], "C18:IdReused") : n \in adds}
     ELSE {"NotOneMarkAddOrFinish"}

UpdateBroken(p, j) ==
  IF ~(PairsUnique(j.ids) /\ PairsUnique(j.rem)) THEN {"C18:IdsMalformed"}
  ELSE LET nw == RecOf(j) IN
       WriteBroken(metas[p], nw) \cup If(RemIdsOK(j), "RemovalNamesWrongReplicaId")
       \cup (IF WriteBroken(metas[p], nw) = {} THEN StepBroken(p, nw) ELSE {})

\* the previous layout handed to the placement function: the in-sync list of every partition,
\* no node twice in a list
PlaceInBroken(old) ==
  UNION {If(old[i] = InSyncList(metas[i - 1]), "PlacementInput:NotTheInSyncLists")
         \cup If(Cardinality(Range(old[i])) = Len(old[i]), "PlacementInput:NodeTwice") : i \in DOMAIN old}

TInit == /\ l = 1 /\ skip = FALSE /\ ctxop = ""
         /\ metas = [p \in TraceParts |-> Blank] /\ views = <<>> /\ alive = {} /\ unsynced = {}
         /\ mems = [p \in TraceParts |-> <<>>]
         /\ used = [p \in TraceParts |-> {}] /\ bad = {} /\ calls = 0 /\ rf = 1 /\ rmn = <<>>

Keep == UNCHANGED <<metas, alive, unsynced, mems, used, rf, rmn, ctxop>>
Reject(names) == /\ PrintT(<<"MISMATCH", l, names>>) /\ skip' = TRUE /\ Keep

TNext ==
  /\ l <= Len(Trace)
  /\ l' = l + 1
  /\ UNCHANGED <<views, bad, calls>>
  /\ IF E.ev = "reset" THEN
          /\ metas' = [p \in TraceParts |-> Blank] /\ alive' = Range(E.alive) /\ unsynced' = {}
          /\ mems' = [p \in TraceParts |-> <<>>] /\ used' = [p \in TraceParts |-> {}]
          /\ rf' = E.R /\ rmn' = <<>> /\ ctxop' = "" /\ skip' = FALSE
     ELSE IF skip THEN Keep /\ UNCHANGED skip
     ELSE CASE E.ev = "init" ->
                 LET nw == RecOf(E.rec) IN
                 IF PairsUnique(E.rec.ids) /\ RecordBroken(nw) = {} /\ nw.rem = {}
                 THEN /\ metas' = [metas EXCEPT ![E.p] = nw]
                      /\ used' = [used EXCEPT ![E.p] = {nw.ids[x] : x \in DOMAIN nw.ids}]
                      /\ mems' = [mems EXCEPT ![E.p] = nw.ids]
                      /\ UNCHANGED <<alive, unsynced, rf, ctxop, rmn, skip>>
                 ELSE Reject({"InitialRecordInvalid"})
            [] E.ev = "down"    -> alive' = alive \ {E.n} /\ unsynced' = unsynced \ {E.n}
                                   /\ UNCHANGED <<metas, mems, used, rf, ctxop, rmn, skip>>
            [] E.ev = "up"      -> alive' = alive \cup {E.n} /\ UNCHANGED <<metas, unsynced, mems, used, rf, ctxop, rmn, skip>>
            [] E.ev = "unsync"  -> unsynced' = unsynced \cup {E.n} /\ UNCHANGED <<metas, alive, mems, used, rf, ctxop, rmn, skip>>
            [] E.ev = "sync"    -> unsynced' = unsynced \ {E.n} /\ UNCHANGED <<metas, alive, mems, used, rf, ctxop, rmn, skip>>
            [] E.ev = "members" -> mems' = [mems EXCEPT ![E.p] = PairFn(E.m)]
                                   /\ UNCHANGED <<metas, alive, unsynced, used, rf, ctxop, rmn, skip>>
            [] E.ev = "setr"    -> rf' = E.r /\ UNCHANGED <<metas, alive, unsynced, mems, used, ctxop, rmn, skip>>
            [] E.ev = "begin"   -> ctxop' = E.op /\ UNCHANGED <<metas, alive, unsynced, mems, used, rf, rmn, skip>>
            [] E.ev = "end"     -> ctxop' = "" /\ UNCHANGED <<metas, alive, unsynced, mems, used, rf, rmn, skip>>
            [] E.ev = "rmmark"  -> /\ rmn' = [x \in DOMAIN rmn \cup {E.n} |-> IF x = E.n /\ x \notin DOMAIN rmn THEN "marked" ELSE rmn[x]]
                                   /\ UNCHANGED <<metas, alive, unsynced, mems, used, rf, ctxop, skip>>
            [] E.ev = "rmstates" ->
                 \* the coordinator's table of nodes being removed after a round: a node newly reported as
                 \* transferred / done (or dropped from the table) must not be listed by any partition
                 LET st == [i \in DOMAIN E.ns |-> IF E.sts[i] \in {"data_transferred", "done"} THEN "removable" ELSE "marked"]
                     now == [n \in Range(E.ns) |-> st[CHOOSE i \in DOMAIN E.ns : E.ns[i] = n]]
                     freed == {n \in DOMAIN now : now[n] = "removable"} \cup (DOMAIN rmn \ DOMAIN now)
                     newly == {n \in freed : n \notin DOMAIN rmn \/ rmn[n] = "marked"}
                 IN IF \E n \in newly, p \in TraceParts : n \in NodeSet(metas[p])
                    THEN Reject({"NodeRemovable:StillListedByAPartition"})
                    ELSE rmn' = now /\ UNCHANGED <<metas, alive, unsynced, mems, used, rf, ctxop, skip>>
            [] E.ev = "call"    -> Keep /\ UNCHANGED skip
            [] E.ev = "placein" -> LET b == PlaceInBroken(E.old) IN
                                   IF b = {} THEN Keep /\ UNCHANGED skip ELSE Reject(b)
            [] E.ev = "update"  ->
                 IF ~E.ok THEN Keep /\ UNCHANGED skip          \* CASFail: nothing was written
                 ELSE LET b == UpdateBroken(E.p, E.rec) IN
                      IF b = {} THEN /\ metas' = [metas EXCEPT ![E.p] = RecOf(E.rec)]
                                     /\ used' = [used EXCEPT ![E.p] = @ \cup {RecOf(E.rec).ids[x] : x \in DOMAIN RecOf(E.rec).ids}]
                                     /\ UNCHANGED <<alive, unsynced, mems, rf, ctxop, rmn, skip>>
                      ELSE Reject(b)
            [] OTHER -> Reject({"NoSuchAction:" \o E.ev})

TSpec == TInit /\ [][TNext]_tvars

AllConsumed == TLCGet("stats").diameter - 1 = Len(Trace)
=============================================================================
