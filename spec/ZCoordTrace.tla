---------------------------- MODULE ZCoordTrace -----------------------------
(* Validates what the REAL coordinator wrote (harness coordsim: the real       *)
(* handleNamespaceMigrate / addNamespaceToNode / removeNamespaceFromNode /     *)
(* removeNamespaceFromRemovings / doCheckNamespaces over an in-memory register *)
(* and scripted data-node answers) against ZCoord.                             *)
(*                                                                             *)
(* Lines (segments start with "reset"; R of the whole file comes from env      *)
(* ZR_R):                                                                      *)
(*   reset                      new scenario                                   *)
(*   init   rec                 the initial record (must be a valid record)    *)
(*   down/up/unsync/sync n      scripted environment (what the stubs answer)   *)
(*   members m                  raft membership reported by answering nodes    *)
(*   call   op src n err        a coordinator entry point was called (info)    *)
(*   update ok oldgen rec       one UpdateNamespacePartReplicaInfo call with   *)
(*                              the complete record the coordinator passed     *)
(*   panic                      a Go panic inside the coordinator              *)
(* Every successful update must (1) satisfy the record clauses of C18 and (2)  *)
(* be exactly Mark(n), Add(n) or Finish(n) of ZCoord from the previous record  *)
(* with every guard of that action true in the scripted environment.  The      *)
(* first rejected line of a segment prints <<"MISMATCH", line, names>> and the *)
(* rest of the segment is skipped.                                             *)
EXTENDS ZCoord, Json, IOUtils, TLC

VARIABLES l, skip
tvars == <<meta, snap, alive, unsynced, members, usedIDs, bad, calls, l, skip>>

Trace == ndJsonDeserialize(IOEnv.ZR_TRACE)
E == Trace[l]

TraceR == CASE IOEnv.ZR_R = "1" -> 1 [] IOEnv.ZR_R = "2" -> 2 [] IOEnv.ZR_R = "3" -> 3
            [] IOEnv.ZR_R = "4" -> 4 [] IOEnv.ZR_R = "5" -> 5
TraceNodes == 1..64

PairFn(ps) == [n \in {p[1] : p \in Range(ps)} |-> (CHOOSE p \in Range(ps) : p[1] = n)[2]]
RecOf(j) == [nodes |-> j.nodes, ids |-> PairFn(j.ids), rem |-> {p[1] : p \in Range(j.rem)},
             maxid |-> j.maxid, epoch |-> j.epoch]
\* the removal entry names the raft id of the replica it removes
RemIdsOK(j) == \A p \in Range(j.rem) : \E q \in Range(j.ids) : q = p
PairsUnique(ps) == \A i, k \in DOMAIN ps : i # k => ps[i][1] # ps[k][1]

Blank == [nodes |-> <<>>, ids |-> <<>>, rem |-> {}, maxid |-> 0, epoch |-> 0]
NoEpoch(m) == [m EXCEPT !.epoch = 0]

\* names of everything wrong with the step meta -> nw in the current environment
StepBroken(nw) ==
  LET a == NoEpoch(nw)
      marks == {n \in NodeSet(meta) : a = NoEpoch(MarkOf(meta, n))}
      fins  == {n \in meta.rem : a = NoEpoch(FinishOf(meta, n))}
      \* an addition, whatever id it was given
      adds  == {n \in TraceNodes : /\ nw.nodes = Append(meta.nodes, n) /\ nw.rem = meta.rem
                                   /\ n \in DOMAIN nw.ids
                                   /\ \A x \in DOMAIN meta.ids : x # n => (x \in DOMAIN nw.ids /\ nw.ids[x] = meta.ids[x])}
  IN IF nw.epoch <= meta.epoch THEN {"EpochNotAdvanced"}
     ELSE IF marks # {} THEN UNION {MarkBroken(meta, n, Env) : n \in marks}
     ELSE IF fins # {} THEN UNION {FinishBroken(meta, n, Env) : n \in fins}
     ELSE IF adds # {} THEN
          UNION {AddBroken(meta, n, Env)
                 \cup If(nw.ids[n] = meta.maxid + 1 /\ nw.maxid = meta.maxid + 1, "Add:IdNotMaxPlusOne")
                 \cup If(nw.ids[n] \notin usedIDs, "C18:IdReused") : n \in adds}
     ELSE {"NotOneMarkAddOrFinish"}

UpdateBroken(j) ==
  IF ~(PairsUnique(j.ids) /\ PairsUnique(j.rem)) THEN {"C18:IdsMalformed"}
  ELSE LET nw == RecOf(j) IN
       RecordBroken(nw) \cup If(RemIdsOK(j), "RemovalNamesWrongReplicaId")
       \cup (IF RecordBroken(nw) = {} THEN StepBroken(nw) ELSE {})

TInit == /\ l = 1 /\ skip = FALSE
         /\ meta = Blank /\ snap = Blank /\ alive = {} /\ unsynced = {} /\ members = <<>>
         /\ usedIDs = {} /\ bad = {} /\ calls = 0

Keep == UNCHANGED <<meta, alive, unsynced, members, usedIDs>>
Reject(names) == /\ PrintT(<<"MISMATCH", l, names>>) /\ skip' = TRUE /\ Keep

TNext ==
  /\ l <= Len(Trace)
  /\ l' = l + 1
  /\ UNCHANGED <<snap, bad, calls>>
  /\ IF E.ev = "reset" THEN
          /\ meta' = Blank /\ alive' = Range(E.alive) /\ unsynced' = {} /\ members' = <<>>
          /\ usedIDs' = {} /\ skip' = FALSE
     ELSE IF skip THEN Keep /\ UNCHANGED skip
     ELSE CASE E.ev = "init" ->
                 LET nw == RecOf(E.rec) IN
                 IF PairsUnique(E.rec.ids) /\ RecordBroken(nw) = {} /\ nw.rem = {}
                 THEN /\ meta' = nw /\ usedIDs' = {nw.ids[x] : x \in DOMAIN nw.ids}
                      /\ members' = nw.ids
                      /\ UNCHANGED <<alive, unsynced, skip>>
                 ELSE Reject({"InitialRecordInvalid"})
            [] E.ev = "down"    -> alive' = alive \ {E.n} /\ unsynced' = unsynced \ {E.n}
                                   /\ UNCHANGED <<meta, members, usedIDs, skip>>
            [] E.ev = "up"      -> alive' = alive \cup {E.n} /\ UNCHANGED <<meta, unsynced, members, usedIDs, skip>>
            [] E.ev = "unsync"  -> unsynced' = unsynced \cup {E.n} /\ UNCHANGED <<meta, alive, members, usedIDs, skip>>
            [] E.ev = "sync"    -> unsynced' = unsynced \ {E.n} /\ UNCHANGED <<meta, alive, members, usedIDs, skip>>
            [] E.ev = "members" -> members' = PairFn(E.m) /\ UNCHANGED <<meta, alive, unsynced, usedIDs, skip>>
            [] E.ev = "call"    -> Keep /\ UNCHANGED skip
            [] E.ev = "update"  ->
                 IF ~E.ok THEN Keep /\ UNCHANGED skip          \* CASFail: nothing was written
                 ELSE LET b == UpdateBroken(E.rec) IN
                      IF b = {} THEN /\ meta' = RecOf(E.rec)
                                     /\ usedIDs' = usedIDs \cup {RecOf(E.rec).ids[x] : x \in DOMAIN RecOf(E.rec).ids}
                                     /\ UNCHANGED <<alive, unsynced, members, skip>>
                      ELSE Reject(b)
            [] OTHER -> Reject({"NoSuchAction:" \o E.ev})

TSpec == TInit /\ [][TNext]_tvars

AllConsumed == TLCGet("stats").diameter - 1 = Len(Trace)
=============================================================================
