SPECIFICATION SpecLD
CONSTANTS
  NKeys = 1
  Mut = "none"
  Policy = "ld"
  Subs = {1}
  VIds = {2}
  Times = {0, 1, 2, 3}
  Durs = {1, 2}
  RNow = 2
  MaxLen = 1
  MaxNum = 2
  FullKeys = {1}
  Dup = FALSE
  TCmds <- CmdsLD
INVARIANTS TypeOK ReadsChangeNothing CountsAgree ExpiredIsDead OverwriteClearsExpiry ModifyKeepsExpiry NewGenerationIsEmpty TTLIsRemaining LocalDeletion
CHECK_DEADLOCK FALSE
