SPECIFICATION Spec
CONSTANTS
  NPos = 4
  MaxWrites = 2
  Mut = "first"
INVARIANTS Ordered NothingForeign MatchExact ScanCompleteOnceOrdered Terminates
