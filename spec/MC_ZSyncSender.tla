--------------------------- MODULE MC_ZSyncSender ---------------------------
EXTENDS ZSyncSender, TLC
CONSTANTS MaxLog, MaxRestart, MaxSenderRestart
VARIABLES nrestart, nsr
mvars == <<rlog, applied, effects, synced, pc, snap, handed, replayTo, seen, snext, sbuf, sstate, spos, nrestart, nsr>>
TermFn == [i \in 1..N |-> IF 3 * i <= N THEN 1 ELSE 2]
Init == XInit /\ nrestart = 0 /\ nsr = 0
K == UNCHANGED <<nrestart, nsr>>
MBuffer(s)          == Buffer(s) /\ K
MFlush(s, ok, cut)  == Len(rlog) + Len(sbuf[s]) <= MaxLog /\ Flush(s, ok, cut) /\ K
MSenderRestart(s, j) == nsr < MaxSenderRestart /\ SenderRestart(s, j) /\ nsr' = nsr + 1 /\ UNCHANGED nrestart
MRestart            == nrestart < MaxRestart /\ Recv(Restart) /\ nrestart' = nrestart + 1 /\ UNCHANGED nsr
Next ==
  \/ \E s \in Senders : MBuffer(s)
  \/ \E s \in Senders, ok \in BOOLEAN, cut \in 0..1 : MFlush(s, ok, cut)
  \/ \E s \in Senders, j \in 1..N : MSenderRestart(s, j)
  \/ (Recv(ApplyCheck) /\ K) \/ (Recv(ApplyEffect) /\ K) \/ (Recv(ApplySynced) /\ K)
  \/ (Recv(TakeSnapshot) /\ K)
  \/ MRestart
Spec == Init /\ [][Next]_mvars
=============================================================================
