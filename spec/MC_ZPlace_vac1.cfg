SPECIFICATION PSpec
CONSTANTS
  Nodes <- MCNodes
  DCOf <- MCDC
  Ps = {2, 3}
  Rs = {1, 2, 3}
  Algos = {"v1", "v2"}
  MaxEvents = 3
  Layout <- MCLayout
INVARIANTS NeverSpreadCase
