-------------------------------- MODULE ZLin --------------------------------
(* Linearizability of a history of value-returning writes against ONE abstract store     *)
(* (C04), with the two extra things a crashed data node needs (C06).                     *)
(*                                                                                        *)
(* Clients Invoke; a silent Linearize step applies the operation to the abstract store    *)
(* and fixes its result; ReturnOk requires that result; an operation that failed or was   *)
(* never answered (ReturnFail) may still take effect later, at most once, until a Settle  *)
(* barrier.  A history is accepted iff some interleaving of the silent steps consumes it: *)
(* every answered operation takes effect exactly once between its invocation and its      *)
(* answer, every other one at most once.                                                  *)
(*                                                                                        *)
(* Observe(st) is a read of every key after a barrier: it must equal the abstract store,  *)
(* which by construction contains every acknowledged operation (EveryAckedPresent).       *)
(*                                                                                        *)
(* Cut(D) is the loss of a suffix of the log when the only replica of a 1-replica group   *)
(* dies: the confirmed part (see below) must survive, of the rest a set D that is closed  *)
(* under "later on the same location" and "invoked after its answer" may be lost.          *)
(* An acknowledged operation A is *confirmed* once an operation that was invoked after    *)
(* A's answer has been answered too (then A's Ready has been persisted before the later   *)
(* one was published).  This is the documented "avoid" constraint of known finding        *)
(* c06-single-replica-ack-before-persist; with Weak = FALSE every answered operation is   *)
(* confirmed at once and Cut can only drop operations that were never answered.           *)
EXTENDS ZOps, FiniteSets, TLC

VARIABLES store,    \* the abstract store
          open,     \* id -> [op, done, res, inv] for invoked, not yet returned operations
          zomb,     \* id -> op: returned without an answer, not (yet) linearized
          base,     \* store made of the operations that can no longer be lost
          tail,     \* linearized operations that a dying 1-replica node may still lose, in the order
                    \* in which they were placed: [id, op, inv, ok]; store = Fold(base, ops of tail)
          weak      \* TRUE: 1-replica group of the unrepaired tree (answers confirmed later)

linVars == <<store, open, zomb, base, tail, weak>>

Without(f, x) == [y \in DOMAIN f \ {x} |-> f[y]]
With(f, x, v) == [y \in DOMAIN f \cup {x} |-> IF y = x THEN v ELSE f[y]]
Idx(t) == 1..Len(t)
OpsOf(t) == [i \in Idx(t) |-> t[i].op]
(* the subsequence of t at the indices in P / not in P, order kept *)
RECURSIVE Pick(_, _, _)
Pick(t, P, i) == IF i > Len(t) THEN <<>>
                 ELSE (IF i \in P THEN <<t[i]>> ELSE <<>>) \o Pick(t, P, i + 1)

LinInit(st, w) ==
  /\ store = st /\ open = <<>> /\ zomb = <<>> /\ base = st /\ tail = <<>> /\ weak = w

(* `now` is the position of the event in the history (its line number): real-time order *)
Invoke(id, op, now) ==
  /\ id \notin DOMAIN open /\ id \notin DOMAIN zomb
  /\ open' = With(open, id, [op |-> op, done |-> FALSE, res |-> 0, inv |-> now])
  /\ UNCHANGED <<store, zomb, base, tail, weak>>

Linearize(id) ==
  /\ id \in DOMAIN open /\ ~open[id].done
  /\ LET r == Apply(store, open[id].op) IN
       /\ store' = r.st
       /\ open' = [open EXCEPT ![id] = [@ EXCEPT !.done = TRUE, !.res = r.res]]
  /\ tail' = Append(tail, [id |-> id, op |-> open[id].op, inv |-> open[id].inv, ok |-> 0])
  /\ UNCHANGED <<zomb, base, weak>>

LinearizeZ(id) ==
  /\ id \in DOMAIN zomb
  /\ \A j \in DOMAIN zomb : zomb[j] = zomb[id] => j >= id   \* identical operations are interchangeable
  /\ store' = Apply(store, zomb[id]).st
  /\ zomb' = Without(zomb, id)
  /\ tail' = Append(tail, [id |-> id, op |-> zomb[id], inv |-> 0, ok |-> 0])
  /\ UNCHANGED <<open, base, weak>>

(* Operations on different locations commute, so what matters for a later loss is the order *)
(* per location.  When the operations at the indices S can no longer be lost, neither can    *)
(* the earlier operations on the same locations (the later ones saw their effect): all of    *)
(* them move from the tail into base.                                                        *)
Pinned(t, S) == {j \in Idx(t) : \E i \in S : j <= i /\ t[j].op.k = t[i].op.k}
Settled(t, S) ==
  LET P == Pinned(t, S) IN
    /\ base' = Fold(base, OpsOf(Pick(t, P, 1)))
    /\ tail' = Pick(t, Idx(t) \ P, 1)

(* An answer that the replica may have given from a look at its local store without going  *)
(* through the log (SETNX on an existing key answers 0, LPOP / RPOP on an empty list nil)    *)
(* says nothing about what has been persisted: it confirms no earlier answer.                *)
Confirms(op, res) == /\ ~(res = 0 /\ op.t \in {"setnx", "lpop", "rpop"})
                     /\ op.t \notin {"get", "hget", "llen"}      \* reads are local as well

(* weak: the answer to an operation that went through the log confirms every operation that *)
(* had been answered before this one was invoked (their Ready was persisted before this one  *)
(* was published).  Otherwise an answer makes its own operation durable at once.             *)
ReturnOk(id, res, now) ==
  /\ id \in DOMAIN open /\ open[id].done /\ open[id].res = res
  /\ LET t == [i \in Idx(tail) |-> IF tail[i].id = id THEN [tail[i] EXCEPT !.ok = now] ELSE tail[i]]
         S == IF weak
              THEN IF Confirms(open[id].op, res)
                   THEN {i \in Idx(t) : t[i].ok > 0 /\ t[i].ok < open[id].inv}
                   ELSE {}
              ELSE {i \in Idx(t) : t[i].ok > 0}
     IN Settled(t, S)
  /\ open' = Without(open, id)
  /\ UNCHANGED <<store, zomb, weak>>

ReturnFail(id) ==
  /\ id \in DOMAIN open
  /\ open' = Without(open, id)
  /\ zomb' = IF open[id].done THEN zomb ELSE With(zomb, id, open[id].op)
  /\ UNCHANGED <<store, base, tail, weak>>

(* a refusal that the server gives before it proposes anything ("no leader", "not ready for *)
(* write", "stopped"): the operation must not take effect, now or later                     *)
Refuse(id) ==
  /\ id \in DOMAIN open /\ ~open[id].done
  /\ open' = Without(open, id)
  /\ UNCHANGED <<store, zomb, base, tail, weak>>

(* The only replica died: a suffix of its log is lost.  The log order is only known per      *)
(* location (the values show it) and through real time, so a set D of tail operations may    *)
(* be lost iff with an operation it contains every later one on the same location, and      *)
(* every operation that was invoked after an answered member of D had been answered.        *)
(* Operations that were in flight may be in the surviving part of the WAL and take effect   *)
(* at the replay: they stay optional until the next Settle (doing less is never rejected).  *)
Losable(D) ==
  /\ \A i \in D : \A j \in Idx(tail) : (j > i /\ tail[j].op.k = tail[i].op.k) => j \in D
  /\ \A i \in D : \A j \in Idx(tail) : (tail[i].ok > 0 /\ tail[j].inv > tail[i].ok) => j \in D
Cut(D) ==
  /\ D \subseteq Idx(tail) /\ Losable(D)
  /\ tail' = Pick(tail, Idx(tail) \ D, 1)
  /\ store' = Fold(base, OpsOf(Pick(tail, Idx(tail) \ D, 1)))
  /\ open' = <<>>
  /\ zomb' = [id \in DOMAIN zomb \cup {x \in DOMAIN open : ~open[x].done} |->
                     IF id \in DOMAIN zomb THEN zomb[id] ELSE open[id].op]
  /\ UNCHANGED <<base, weak>>

(* EveryAckedPresent: a read of all keys after a barrier equals the abstract store *)
Observe(st) ==
  /\ Dump(store) = st
  /\ UNCHANGED linVars

(* settle barrier: all replicas up with equal applied index and nothing in flight:       *)
(* operations that were never answered can no longer take effect                          *)
Settle ==
  /\ open = <<>>
  /\ zomb' = <<>> /\ base' = store /\ tail' = <<>>
  /\ UNCHANGED <<store, open, weak>>
=============================================================================
