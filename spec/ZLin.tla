-------------------------------- MODULE ZLin --------------------------------
(* Linearizability of a history of value-returning writes against ONE abstract store     *)
(* (C04), with the two extra things a crashed data node needs (C06).                     *)
(*                                                                                        *)
(* Clients Invoke; a silent Linearize step applies the operation to the abstract store    *)
(* and fixes its result; ReturnOk requires that result; an operation that failed or was   *)
(* never answered (ReturnFail) may still take effect later, at most once, until a Settle  *)
(* barrier.  A history is accepted iff some interleaving of the silent steps consumes it: *)
(* every answered operation takes effect exactly once between its invocation and its      *)
(* answer, every other one at most once.                                                  *)
(*                                                                                        *)
(* Observe(st) is a read of every key after a barrier: it must equal the abstract store,  *)
(* which by construction contains every acknowledged operation (EveryAckedPresent).       *)
(*                                                                                        *)
(* Cut(j) is the loss of a suffix of the log when the only replica of a 1-replica group   *)
(* dies: the confirmed part (see below) must survive, of the rest any prefix may.         *)
(* An acknowledged operation A is *confirmed* once an operation that was invoked after    *)
(* A's answer has been answered too (then A's Ready has been persisted before the later   *)
(* one was published).  This is the documented "avoid" constraint of known finding        *)
(* c06-single-replica-ack-before-persist; with Weak = FALSE every answered operation is   *)
(* confirmed at once and Cut can only drop operations that were never answered.           *)
EXTENDS ZOps, FiniteSets, TLC

VARIABLES store,    \* the abstract store
          open,     \* id -> [op, done, res, pos, floor] for invoked, not yet returned operations
          zomb,     \* id -> op: returned without an answer, not (yet) linearized
          base,     \* store at the confirmed frontier
          tail,     \* op records linearized after the frontier, in order: store = Fold(base, tail)
          nlin,     \* number of linearized operations so far (absolute position counter)
          frontier, \* absolute position of base
          ackedPos, \* largest absolute position of an answered operation
          weak      \* TRUE: 1-replica group of the unrepaired tree (answers confirmed later)

linVars == <<store, open, zomb, base, tail, nlin, frontier, ackedPos, weak>>

MaxI(a, b) == IF a > b THEN a ELSE b
MinI(a, b) == IF a < b THEN a ELSE b
Without(f, x) == [y \in DOMAIN f \ {x} |-> f[y]]
With(f, x, v) == [y \in DOMAIN f \cup {x} |-> IF y = x THEN v ELSE f[y]]
Ops(t) == [i \in 1..Len(t) |-> t[i]]

LinInit(st, w) ==
  /\ store = st /\ open = <<>> /\ zomb = <<>> /\ base = st /\ tail = <<>>
  /\ nlin = 0 /\ frontier = 0 /\ ackedPos = 0 /\ weak = w

Invoke(id, op) ==
  /\ id \notin DOMAIN open /\ id \notin DOMAIN zomb
  /\ open' = With(open, id, [op |-> op, done |-> FALSE, res |-> 0, pos |-> 0, floor |-> ackedPos])
  /\ UNCHANGED <<store, zomb, base, tail, nlin, frontier, ackedPos, weak>>

Linearize(id) ==
  /\ id \in DOMAIN open /\ ~open[id].done
  /\ LET r == Apply(store, open[id].op) IN
       /\ store' = r.st
       /\ open' = [open EXCEPT ![id] = [@ EXCEPT !.done = TRUE, !.res = r.res, !.pos = nlin + 1]]
  /\ tail' = Append(tail, open[id].op)
  /\ nlin' = nlin + 1
  /\ UNCHANGED <<zomb, base, frontier, ackedPos, weak>>

LinearizeZ(id) ==
  /\ id \in DOMAIN zomb
  /\ store' = Apply(store, zomb[id]).st
  /\ zomb' = Without(zomb, id)
  /\ tail' = Append(tail, zomb[id])
  /\ nlin' = nlin + 1
  /\ UNCHANGED <<open, base, frontier, ackedPos, weak>>

(* moving the confirmed frontier to absolute position p folds tail[1 .. p-frontier] into base *)
Advance(p, ap) ==
  LET q == MaxI(frontier, MinI(p, nlin)) n == q - frontier IN
    /\ frontier' = q
    /\ base' = Fold(base, SubSeq(tail, 1, n))
    /\ tail' = SubSeq(tail, n + 1, Len(tail))
    /\ ackedPos' = ap

ReturnOk(id, res) ==
  /\ id \in DOMAIN open /\ open[id].done /\ open[id].res = res
  /\ LET ap == MaxI(ackedPos, open[id].pos) IN
       Advance(IF weak THEN open[id].floor ELSE ap, ap)
  /\ open' = Without(open, id)
  /\ UNCHANGED <<store, zomb, nlin, weak>>

ReturnFail(id) ==
  /\ id \in DOMAIN open
  /\ open' = Without(open, id)
  /\ zomb' = IF open[id].done THEN zomb ELSE With(zomb, id, open[id].op)
  /\ UNCHANGED <<store, base, tail, nlin, frontier, ackedPos, weak>>

(* the only replica died: a suffix of the unconfirmed tail is lost; nothing that was in   *)
(* flight can take effect afterwards                                                      *)
Cut(j) ==
  /\ j \in 0..Len(tail)
  /\ store' = Fold(base, SubSeq(tail, 1, j))
  /\ tail' = SubSeq(tail, 1, j)
  /\ nlin' = frontier + j
  /\ ackedPos' = MinI(ackedPos, frontier + j)
  /\ open' = <<>> /\ zomb' = <<>>
  /\ UNCHANGED <<base, frontier, weak>>

(* EveryAckedPresent: a read of all keys after a barrier equals the abstract store *)
Observe(st) ==
  /\ store = st
  /\ UNCHANGED linVars

(* settle barrier: all replicas up with equal applied index and nothing in flight:       *)
(* operations that were never answered can no longer take effect                          *)
Settle ==
  /\ open = <<>>
  /\ zomb' = <<>> /\ base' = store /\ tail' = <<>> /\ frontier' = nlin /\ ackedPos' = nlin
  /\ UNCHANGED <<store, open, nlin, weak>>
=============================================================================
