SPECIFICATION Spec
CONSTANTS
  Keys = {k1, k2}
  Vals = {0, 1, 2}
  PartialWrite = TRUE
  LeakyError = FALSE
  Panics = FALSE
INVARIANTS NoPanic ErrorChangesNothing NothingLeaks
