------------------------------ MODULE ZLinTrace ------------------------------
(* Trace validation for ZLin (C04): the history recorded by harness `clustersim` - parent  *)
(* order of invocations, answers, failures, per-replica reads after a settle barrier - is  *)
(* accepted iff some placement of the silent Linearize steps consumes every line.          *)
(*                                                                                         *)
(*   {"ev":"reset","weak":false,"st":{store}}   start of an epoch with its initial store   *)
(*   {"ev":"inv","id":7,"op":{"t":"incr","k":"s1","v":0}}                                  *)
(*   {"ev":"ok","id":7,"res":5} | {"ev":"fail","id":7,"why":"..."}                         *)
(*   {"ev":"refused","id":7,"why":"..."}        refused before anything was proposed       *)
(*   {"ev":"read","n":2,"st":{store}}           all keys read from replica n               *)
(*   {"ev":"settle"}                            end of the epoch's reads                   *)
(*   {"ev":"sent","n":2,"early":true,"newleader":false,"tvchanged":true,"count":1}         *)
(*                                              white-box: see TSent                       *)
(*   {"ev":"replayed","n":2,"wal_last":57,"raft_last":57}   white-box: see TReplayed       *)
(*   {"ev":"published","n":1,"pub":9,"saved":8}             white-box: see TPublished      *)
(*   {"ev":"appended","n":2,"ents_last":70,"raft_last":66,"snap":66}  white-box: TAppended *)
(*                                                                                         *)
(* Silent steps are taken just in time (only when the next line is an answer or a read that *)
(* needs it), which loses no linearization: a silent step commutes to the right over lines    *)
(* that do not look at the store.  The high-water mark of the line counter is kept with    *)
(* TLCSet (workers = 1); the run stops as soon as one behaviour has consumed every line.   *)
EXTENDS ZLin, Json, IOUtils

VARIABLES l,       \* next trace line
          reads    \* replica -> last store read from it (since the last settle)

Trace == ndJsonDeserialize(IOEnv.ZR_TRACE)
E == Trace[l]
tvars == <<store, open, zomb, base, tail, weak, l, reads>>

ASSUME TLCSet(1, 0)

IsEvent(x) == l <= Len(Trace) /\ E.ev = x
Consume == l' = l + 1

TInit == /\ l = 2 /\ reads = <<>>
         /\ Trace[1].ev = "reset"
         /\ LinInit(FromDump(Trace[1].st), Trace[1].weak)

TReset == /\ IsEvent("reset") /\ Consume /\ reads' = <<>>
          /\ store' = FromDump(E.st) /\ open' = <<>> /\ zomb' = <<>> /\ base' = FromDump(E.st) /\ tail' = <<>>
          /\ weak' = E.weak

TInv  == IsEvent("inv") /\ Invoke(E.id, E.op, l) /\ Consume /\ UNCHANGED reads
TOk   == IsEvent("ok") /\ ReturnOk(E.id, E.res, l) /\ Consume /\ UNCHANGED reads
TFail == IsEvent("fail") /\ ReturnFail(E.id) /\ Consume /\ UNCHANGED reads
TRefused == IsEvent("refused") /\ Refuse(E.id) /\ Consume /\ UNCHANGED reads
TRead == /\ IsEvent("read") /\ Observe(E.st) /\ Consume
         /\ reads' = With(reads, E.n, E.st)
TSettle == IsEvent("settle") /\ Settle /\ Consume /\ reads' = <<>>

(* just-in-time silent steps, per location: operations on different locations commute, so   *)
(* before an answer only operations on the answered operation's location are placed, before  *)
(* a read only operations on a location whose value still differs                            *)
Locs == {"s1", "s2", "h1f1", "h1f2", "l1", "p1"}
NeedLoc(k) == /\ l <= Len(Trace)
              /\ \/ E.ev = "ok" /\ E.id \in DOMAIN open /\ ~open[E.id].done /\ open[E.id].op.k = k
                 \/ E.ev = "read" /\ Dump(store)[k] # E.st[k]
TLin  == /\ \E id \in DOMAIN open : NeedLoc(open[id].op.k) /\ Linearize(id)
         /\ UNCHANGED <<l, reads>>
TLinZ == /\ \E id \in DOMAIN zomb : NeedLoc(zomb[id].k) /\ LinearizeZ(id)
         /\ UNCHANGED <<l, reads>>

(* White-box report of node/raft.go processReady (hooks verifReady / ready.sent.early): the  *)
(* messages of a Ready left before its hard state and entries were persisted.  The pipeline  *)
(* order of ZNode (Publish, WalSave, ..., RaftDone + Send, Advance) allows that only for the *)
(* Ready in which the replica became leader; a Ready that changes term or vote (a vote       *)
(* grant) must be in the WAL before any of its messages is sent.  (A Ready without term/vote *)
(* change has nothing a peer could rely on; sending it early is tolerated.)                  *)
TSent == /\ IsEvent("sent") /\ (E.early => (E.newleader \/ ~E.tvchanged))
         /\ Consume /\ UNCHANGED <<linVars, reads>>

(* White-box restart rule (hooks verifWalRead / verifReplayed in replayWAL / restartNode):    *)
(* after a restart raft's log holds every entry the WAL returned - entries above the         *)
(* persisted commit index included: another replica may have acknowledged them to the leader *)
(* on the strength of this copy.                                                             *)
TReplayed == /\ IsEvent("replayed") /\ E.raft_last >= E.wal_last
             /\ Consume /\ UNCHANGED <<linVars, reads>>

(* White-box publish rule (hooks verifReady / ready.published / persist.wal): no entry is    *)
(* handed to the apply loop unless this node has saved it to its WAL (in this Ready, before  *)
(* the publish, or in an earlier one).  The hooks only report Readys that published an index *)
(* above the largest saved one; every such report is a step the design does not have.        *)
(* (The publish side of TSent; a Ready that carries a snapshot is exempt by design.)         *)
TPublished == /\ IsEvent("published") /\ E.pub <= E.saved
              /\ Consume /\ UNCHANGED <<linVars, reads>>

(* White-box append rule (hooks verifStorage / storage.appended): when processReady is past  *)
(* raftStorage.Append - and, for a Ready that carries a snapshot AND entries, past            *)
(* ApplySnapshot - raft's log ends at or after the last new entry of that Ready (entries      *)
(* appended before the snapshot is applied would be wiped by it).  The hooks report a Ready   *)
(* whose log end is short, and (with raft_last = ents_last, as evidence that the case         *)
(* occurred) every Ready with snapshot and entries.                                           *)
TAppended == /\ IsEvent("appended") /\ E.raft_last >= E.ents_last
             /\ Consume /\ UNCHANGED <<linVars, reads>>

TNext == TSent \/ TReplayed \/ TPublished \/ TAppended \/ TReset \/ TInv \/ TOk \/ TFail \/ TRefused \/ TRead \/ TSettle \/ TLin \/ TLinZ
TSpec == TInit /\ [][TNext]_tvars

(* all replicas returned the same data after the barrier (independent of the silent steps) *)
AllReplicasEqual == \A i, j \in DOMAIN reads : reads[i] = reads[j]

Track == /\ TLCSet(1, IF l > TLCGet(1) THEN l ELSE TLCGet(1))
         /\ (l > Len(Trace) => TLCSet("exit", TRUE))
Accepted == /\ PrintT(<<"HIGHWATER", TLCGet(1), Len(Trace)>>)
            /\ TLCGet(1) = Len(Trace) + 1
=============================================================================
