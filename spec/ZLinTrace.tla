------------------------------ MODULE ZLinTrace ------------------------------
(* Trace validation for ZLin (C04): the history recorded by harness `clustersim` - parent  *)
(* order of invocations, answers, failures, per-replica reads after a settle barrier - is  *)
(* accepted iff some placement of the silent Linearize steps consumes every line.          *)
(*                                                                                         *)
(*   {"ev":"reset","weak":false,"st":{store}}   start of an epoch with its initial store   *)
(*   {"ev":"inv","id":7,"op":{"t":"incr","k":"s1","v":0}}                                  *)
(*   {"ev":"ok","id":7,"res":5} | {"ev":"fail","id":7}                                     *)
(*   {"ev":"read","n":2,"st":{store}}           all keys read from replica n               *)
(*   {"ev":"settle"}                            end of the epoch's reads                   *)
(*                                                                                         *)
(* Silent steps are taken just in time (only when the next line is an answer, a read or a  *)
(* crash), which loses no linearization: a silent step commutes to the right over lines    *)
(* that do not look at the store.  The high-water mark of the line counter is kept with    *)
(* TLCSet (workers = 1); the run stops as soon as one behaviour has consumed every line.   *)
EXTENDS ZLin, Json, IOUtils

VARIABLES l,       \* next trace line
          reads    \* replica -> last store read from it (since the last settle)

Trace == ndJsonDeserialize(IOEnv.ZR_TRACE)
E == Trace[l]
tvars == <<store, open, zomb, base, tail, nlin, frontier, ackedPos, weak, l, reads>>

ASSUME TLCSet(1, 0)

IsEvent(x) == l <= Len(Trace) /\ E.ev = x
Consume == l' = l + 1

TInit == /\ l = 2 /\ reads = <<>>
         /\ Trace[1].ev = "reset"
         /\ LinInit(Trace[1].st, Trace[1].weak)

TReset == /\ IsEvent("reset") /\ Consume /\ reads' = <<>>
          /\ store' = E.st /\ open' = <<>> /\ zomb' = <<>> /\ base' = E.st /\ tail' = <<>>
          /\ nlin' = 0 /\ frontier' = 0 /\ ackedPos' = 0 /\ weak' = E.weak

TInv  == IsEvent("inv") /\ Invoke(E.id, E.op) /\ Consume /\ UNCHANGED reads
TOk   == IsEvent("ok") /\ ReturnOk(E.id, E.res) /\ Consume /\ UNCHANGED reads
TFail == IsEvent("fail") /\ ReturnFail(E.id) /\ Consume /\ UNCHANGED reads
TRead == /\ IsEvent("read") /\ Observe(E.st) /\ Consume
         /\ reads' = With(reads, E.n, E.st)
TSettle == IsEvent("settle") /\ Settle /\ Consume /\ reads' = <<>>

(* just-in-time silent steps *)
NeedLin == /\ l <= Len(Trace)
           /\ \/ E.ev = "ok" /\ E.id \in DOMAIN open /\ ~open[E.id].done
              \/ E.ev = "read" /\ store # E.st
              \/ E.ev = "died"
TLin  == NeedLin /\ (\E id \in DOMAIN open : Linearize(id)) /\ UNCHANGED <<l, reads>>
TLinZ == NeedLin /\ (\E id \in DOMAIN zomb : LinearizeZ(id)) /\ UNCHANGED <<l, reads>>

TNext == TReset \/ TInv \/ TOk \/ TFail \/ TRead \/ TSettle \/ TLin \/ TLinZ
TSpec == TInit /\ [][TNext]_tvars

(* all replicas returned the same data after the barrier (independent of the silent steps) *)
AllReplicasEqual == \A i, j \in DOMAIN reads : reads[i] = reads[j]

Track == /\ TLCSet(1, IF l > TLCGet(1) THEN l ELSE TLCGet(1))
         /\ (l > Len(Trace) => TLCSet("exit", TRUE))
Accepted == /\ PrintT(<<"HIGHWATER", TLCGet(1), Len(Trace)>>)
            /\ TLCGet(1) = Len(Trace) + 1
=============================================================================
