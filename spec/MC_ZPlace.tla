----------------------------- MODULE MC_ZPlace ------------------------------
(* Bounded instance of the placement contract (C17, part A): is the contract   *)
(* satisfiable for every call a behaviour of node losses / additions can       *)
(* produce, and are its premises (data-centre spread, v1 leader balance,       *)
(* refusal) actually met by reachable calls (not vacuous)?                     *)
(* `Layout` is instantiated by an arbitrary-but-fixed choice among all layouts *)
(* that honour the contract (CHOOSE), or the marker "unsat" if there is none.  *)
EXTENDS ZPlace, TLC

MCNodes == {1, 2, 3, 4}
MCDC    == <<1, 2, 1, 2>>          \* two data centres, two nodes each

\* second instance (thorough tier): three data centres, two nodes each
MCNodes6 == {1, 2, 3, 4, 5, 6}
MCDC6    == <<1, 2, 3, 1, 2, 3>>

InjSeqs(S, k) == {s \in [1..k -> S] : \A i, j \in 1..k : i # j => s[i] # s[j]}
Candidates(c) == [1..c.P -> InjSeqs(c.live, c.R)]

MCLayout(c) ==
  IF MustRefuse(c) THEN [res |-> "refused", out |-> <<>>]
  ELSE IF \E o \in Candidates(c) : Holds(c, [res |-> "ok", out |-> o])
       THEN [res |-> "ok", out |-> CHOOSE o \in Candidates(c) : Holds(c, [res |-> "ok", out |-> o])]
       ELSE [res |-> "unsat", out |-> <<>>]

\* (A1) satisfiable: ContractHolds (a call without any valid layout yields "unsat", which
\*      violates the contract) and Deterministic, as invariants of MC_ZPlace.cfg.
\* (A2) not vacuous: each of the following must be REFUTED by TLC (MC_ZPlace_vac*.cfg).
NeverSpreadCase  == \A i \in DOMAIN hist :
                      ~(SpreadPremise(hist[i][1]) /\ hist[i][1].R >= 2 /\ hist[i][2].res = "ok")
NeverBalanceCase == \A i \in DOMAIN hist :
                      ~(BalancePremise(hist[i][1]) /\ Cardinality(hist[i][1].live) >= 2 /\ hist[i][2].res = "ok")
NeverRefused     == \A i \in DOMAIN hist : hist[i][2].res # "refused"
NeverIncremental == \A i \in DOMAIN hist : ~(hist[i][1].old # <<>> /\ hist[i][2].res = "ok")
=============================================================================
