---------------------------- MODULE ZPlaceTrace -----------------------------
(* Evaluates the placement contract of ZPlace on calls recorded from the REAL  *)
(* placement functions (harness placesim -> getRebalancedNamespacePartitions). *)
(*                                                                             *)
(* One line per call:                                                          *)
(*   [ev "place", algo, ns, P, R, n (universe size), live (sorted node         *)
(*    numbers), dc (data centre of node 1..n), old (previous layout, <<>> =    *)
(*    fresh), res/out (first call), res2/out2 (the same call again), resp/outp *)
(*    (the same call with the input map built in another order), msg]          *)
(* "reset" starts a new segment (one topology and its history of node losses / *)
(* additions); within a segment TLC keeps every (call -> result) seen, so      *)
(* Deterministic (same input => same output) is checked across the history as  *)
(* well as across the three executions of one call.                            *)
(* Every line that violates a clause prints <<"MISMATCH", line, clauses>>; the *)
(* trace is accepted iff all lines were consumed and nothing was printed.      *)
EXTENDS ZPlace, Json, IOUtils, TLC

VARIABLES l, seen
tvars == <<l, seen, live, old, conf, last, hist, pending, nev>>

Trace == ndJsonDeserialize(IOEnv.ZR_TRACE)
E == Trace[l]

NoLayout(c) == [res |-> "none", out |-> <<>>]     \* `Layout` is not used here: the trace supplies the results

CallOf(e) == [algo |-> e.algo, ns |-> e.ns, P |-> e.P, R |-> e.R, live |-> Range(e.live),
              dc |-> e.dc, old |-> e.old]
Res1(e) == [res |-> e.res,  out |-> e.out]
Res2(e) == [res |-> e.res2, out |-> e.out2]
Res3(e) == [res |-> e.resp, out |-> e.outp]

Key(e) == <<e.algo, e.ns, e.P, e.R, e.live, e.dc, e.old>>

Bad(e) ==
  Violated(CallOf(e), Res1(e))
  \cup (IF Res2(e) # Res1(e) THEN {"DeterministicRepeat"} ELSE {})
  \cup (IF Res3(e) # Res1(e) THEN {"DeterministicPermutedInput"} ELSE {})
  \cup (IF \E i \in DOMAIN seen : seen[i][1] = Key(e) /\ seen[i][2] # Res1(e)
        THEN {"DeterministicHistory"} ELSE {})

\* the behaviour variables of ZPlace are not used by the evaluation
Unused == <<live, old, conf, last, hist, pending, nev>>
TInit == /\ l = 1 /\ seen = <<>>
         /\ live = {} /\ old = <<>> /\ conf = 0 /\ last = 0 /\ hist = <<>> /\ pending = FALSE /\ nev = 0

TNext ==
  /\ l <= Len(Trace)
  /\ l' = l + 1
  /\ UNCHANGED Unused
  /\ IF E.ev = "reset" THEN seen' = <<>>
     ELSE /\ seen' = Append(seen, <<Key(E), Res1(E)>>)
          /\ LET b == Bad(E) IN b # {} => PrintT(<<"MISMATCH", l, b>>)

TSpec == TInit /\ [][TNext]_tvars

AllConsumed == TLCGet("stats").diameter - 1 = Len(Trace)
=============================================================================
