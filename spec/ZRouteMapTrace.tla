--------------------------- MODULE ZRouteMapTrace ---------------------------
(* Level exploration for the pure key -> partition mapping of property C15.    *)
(* harness `routesim -mode map` logs, for every key, the partition vectors     *)
(* over the partition numbers of line 1 (`mapreset`): `srv` (the server:       *)
(* GetPKAndHashSum + modulo), `srv2` (node.GetHashedPartitionID on the key the *)
(* server extracts) and `sdk` (the official client).  Per line TLC evaluates   *)
(*    server = sdk  /\  0 <= partition < P   for every P.                      *)
(* A failing line is printed as <<"MISMATCH", line, <<what, P>>>>.             *)
EXTENDS Integers, Sequences, Json, IOUtils, TLC

VARIABLES l

Trace == ndJsonDeserialize(IOEnv.ZR_TRACE)
E  == Trace[l]
Ps == Trace[1].ps

BadP ==
  {i \in 1..Len(Ps) : ~(E.srv[i] = E.sdk[i] /\ E.srv2[i] = E.sdk[i] /\ E.sdk[i] >= 0 /\ E.sdk[i] < Ps[i])}

Check ==
  IF E.ev = "mapreset" THEN TRUE
  ELSE IF E.err # "" THEN PrintT(<<"MISMATCH", l, <<"server-refuses-key", 0>>>>)
  ELSE IF BadP # {} THEN PrintT(<<"MISMATCH", l, <<"server-and-sdk-disagree-or-out-of-range", Ps[CHOOSE i \in BadP : TRUE]>>>>)
  ELSE TRUE

TInit == l = 1
TNext == l <= Len(Trace) /\ Check /\ l' = l + 1
TSpec == TInit /\ [][TNext]_l

AllConsumed == TLCGet("stats").diameter - 1 = Len(Trace)
=============================================================================
