--------------------------------- MODULE ZWal ---------------------------------
(* The write-ahead log of a raft replica (wal/wal.go) as a sequence of records *)
(* with hand-over and sync points, and what reopening it after a crash may     *)
(* return (property C05).                                                      *)
(*                                                                             *)
(* Written from the contract of the log (etcd WAL documentation wal/doc.go,    *)
(* the raft paper's "persist before answering" rule, the fork's documented     *)
(* `optimized_fsync` mode), not from the code:                                 *)
(*  - the log is an append-only sequence of records crc / meta / ent / st /    *)
(*    snap, split into segments; each segment starts with a header             *)
(*    crc, meta, st (the hard state at the time of the cut);                   *)
(*  - Save(hs, ents) appends the entries, then the hard state (if not empty);  *)
(*    when it returns, everything raft must have stable (entries, term, vote)  *)
(*    survives a crash of the process; it survives a power loss as well,       *)
(*    unless the log runs in optimized-fsync mode, where only a change of      *)
(*    term or vote is forced to the platter;                                   *)
(*  - reading the log back (Effect) keeps entries with index > snap.index, a   *)
(*    later record for an index replaces the earlier one and everything        *)
(*    behind it, the last hard state wins, all metadata records agree, and the *)
(*    snapshot marker one opens at must be there;                              *)
(*  - a crash leaves a prefix of the records (everything promised is in it);   *)
(*    the record after the prefix may be partly there: "short" (bytes missing  *)
(*    at its end, byte granularity) or "torn" (at least one whole 512-byte     *)
(*    sector of it never reached the disk and reads as zeros);                 *)
(*  - reopening (Open, ReadAll, on error Repair once and retry - what          *)
(*    node/raft.go openWAL does) answers with an error or with Effect of a     *)
(*    prefix that contains everything promised.                                *)
(*                                                                             *)
(* Records are [k, i, t, x]: ent (index, term, payload id), st (commit, term,  *)
(* vote), snap (index, term, 0), meta (0, 0, id), crc (0, 0, 0).               *)
EXTENDS Integers, Sequences, FiniteSets, SequencesExt

VARIABLES recs,     \* every record ever appended, in write order
          segs,     \* segments: sequence of [first |-> position in recs, idx |-> name index]
          handed,   \* mechanism: records given to the OS (flush or page writer)
          synced,   \* mechanism: records covered by a completed fdatasync
          pproc,    \* promise: records that must survive a crash of the process
          ppow,     \* promise: records that must survive a power loss
          enti,     \* index of the last entry / snapshot marker saved
          mode,     \* "none" | "append" | "closed" | "crashed" | "read"
          opt,      \* optimized-fsync mode
          locks,    \* [l |-> first segment still locked, p |-> number of purged (removed) segments]
          img,      \* the crash image being reopened
          snapq,    \* the snapshot the image is opened at
          res       \* what the reopen returned

wvars == <<recs, segs, handed, synced, pproc, ppow, enti, mode, opt, locks, img, snapq, res>>

-------------------------------------------------------------------------------
Rec(k, i, t, x) == [k |-> k, i |-> i, t |-> t, x |-> x]
CrcRec      == Rec("crc", 0, 0, 0)
MetaRec(m)  == Rec("meta", 0, 0, m)
EntRec(e)   == Rec("ent", e.i, e.t, e.x)
StRec(h)    == Rec("st", h.c, h.t, h.v)
SnapRec(s)  == Rec("snap", s.i, s.t, 0)

ZeroHS  == [t |-> 0, v |-> 0, c |-> 0]
Snap0   == [i |-> 0, t |-> 0]
NoImg   == [kind |-> "", n |-> 0, tail |-> "none", flip |-> 0]
Err(e)  == [err |-> e, meta |-> 0, hs |-> ZeroHS, ents |-> <<>>]
NoRes   == Err("-")

Pre(rs, p) == SubSeq(rs, 1, p)
Max2(a, b) == IF a > b THEN a ELSE b

-------------------------------------------------------------------------------
(* Effect: what reading a record sequence back at snapshot s returns.          *)
(* Defined once; the model's own reader, the properties and the trace          *)
(* specification all use it.                                                   *)
FoldInit == [err |-> "", meta |-> 0, hs |-> ZeroHS, ents |-> <<>>, match |-> FALSE]

FoldStep(s, acc, r) ==
  IF acc.err # "" THEN acc
  ELSE CASE r.k = "ent" ->
              IF r.i > s.i
              THEN LET up == r.i - s.i - 1 IN
                   IF up > Len(acc.ents)
                   THEN [acc EXCEPT !.err = "gap"]
                   ELSE [acc EXCEPT !.ents = Append(SubSeq(acc.ents, 1, up),
                                                    [i |-> r.i, t |-> r.t, x |-> r.x])]
              ELSE acc
         [] r.k = "st"   -> [acc EXCEPT !.hs = [t |-> r.t, v |-> r.x, c |-> r.i]]
         [] r.k = "meta" -> IF acc.meta # 0 /\ acc.meta # r.x
                            THEN [acc EXCEPT !.err = "metaconflict"]
                            ELSE [acc EXCEPT !.meta = r.x]
         [] r.k = "snap" -> IF r.i = s.i
                            THEN IF r.t # s.t THEN [acc EXCEPT !.err = "snapmismatch"]
                                 ELSE [acc EXCEPT !.match = TRUE]
                            ELSE acc
         [] OTHER        -> acc

EffectX(rs, s, needMarker) ==
  LET a == FoldLeft(LAMBDA acc, r : FoldStep(s, acc, r), FoldInit, rs)
  IN IF a.err # "" THEN Err(a.err)
     ELSE IF needMarker /\ ~a.match THEN Err("snapnotfound")
     ELSE [err |-> "", meta |-> a.meta, hs |-> a.hs, ents |-> a.ents]

\* the contract of Open/ReadAll: the marker one opens at must have been saved
Effect(rs, s) == EffectX(rs, s, TRUE)
\* C05 itself does not ask for that error: opening at a marker that is not in the log may
\* also answer with the effect relative to that index (the implementation does, in write
\* mode); the properties accept both
EffectLoose(rs, s) == EffectX(rs, s, FALSE)

LastState(rs) == FoldLeft(LAMBDA h, r : IF r.k = "st" THEN [t |-> r.t, v |-> r.x, c |-> r.i] ELSE h,
                          ZeroHS, rs)
Markers(rs)   == {[i |-> rs[j].i, t |-> rs[j].t] : j \in {q \in 1..Len(rs) : rs[q].k = "snap"}}
MaxMarker(rs) == LET m == Markers(rs) IN IF m = {} THEN 0 ELSE CHOOSE x \in {s.i : s \in m} : \A y \in {s.i : s \in m} : y <= x
MetaOf(rs)    == LET j == {q \in 1..Len(rs) : rs[q].k = "meta"} IN IF j = {} THEN 0 ELSE rs[CHOOSE q \in j : TRUE].x

(* ValidSnapshotEntries: the markers a restart may choose from - those whose   *)
(* index is covered by the commit index of the last hard state.                *)
ValidSnaps(rs) == {s \in Markers(rs) : s.i <= LastState(rs).c}

-------------------------------------------------------------------------------
(* What raft needs to be stable when Save returns.                             *)
TermVoteChanged(hs, last) == hs # ZeroHS /\ (hs.t # last.t \/ hs.v # last.v)
MustSync(hs, last, n)     == n # 0 \/ TermVoteChanged(hs, last)
\* the fdatasync decision of the two modes
MustFsync(o, hs, last, n) == MustSync(hs, last, n) /\ (~o \/ TermVoteChanged(hs, last))

SaveRecs(hs, ents) == [j \in 1..Len(ents) |-> EntRec(ents[j])] \o (IF hs # ZeroHS THEN <<StRec(hs)>> ELSE <<>>)
HeaderRecs(m, h)   == <<CrcRec, MetaRec(m)>> \o (IF h # ZeroHS THEN <<StRec(h)>> ELSE <<>>)

-------------------------------------------------------------------------------
\* every segment before the tail is completely covered by fdatasyncs (always so in the
\* normal mode; in optimized mode a roll leaves the old tail flushed only, and later
\* fdatasyncs reach the new file only)
Contiguous == synced >= segs[Len(segs)].first - 1

Create(o, m) ==
  /\ mode = "none"
  /\ recs' = <<CrcRec, MetaRec(m), SnapRec(Snap0)>>
  /\ segs' = <<[first |-> 1, idx |-> 0]>>
  /\ handed' = 3 /\ pproc' = 3
  /\ synced' = (IF o THEN 0 ELSE 3) /\ ppow' = (IF o THEN 0 ELSE 3)
  /\ enti' = 0 /\ mode' = "append" /\ opt' = o /\ locks' = [l |-> 1, p |-> 0]
  /\ UNCHANGED <<img, snapq, res>>

(* Save(hs, ents, cut): entries, then the state; `cut` says that the segment   *)
(* was full afterwards (a byte-level fact taken from the implementation), in   *)
(* which case a new segment with a crc/meta/state header is started.           *)
Save(hs, ents, cut) ==
  /\ mode = "append"
  /\ ~(hs = ZeroHS /\ ents = <<>>)
  /\ LET last == LastState(recs)
         n    == Len(ents)
         r1   == recs \o SaveRecs(hs, ents)
         e1   == IF n > 0 THEN ents[n].i ELSE enti
         r2   == IF cut THEN r1 \o HeaderRecs(MetaOf(recs), LastState(r1)) ELSE r1
         must == MustSync(hs, last, n)
         fs   == MustFsync(opt, hs, last, n)
     IN /\ recs' = r2
        /\ enti' = e1
        /\ segs' = (IF cut THEN Append(segs, [first |-> Len(r1) + 1, idx |-> e1 + 1]) ELSE segs)
        /\ handed' = (IF must \/ cut THEN Len(r2) ELSE handed)
        /\ synced' = (IF cut /\ ~opt THEN Len(r2)
                      ELSE IF fs /\ Contiguous THEN Len(r1) ELSE synced)
        /\ pproc'  = (IF must THEN Len(r1) ELSE pproc)
        /\ ppow'   = (IF fs /\ (~opt \/ Contiguous) THEN Len(r1) ELSE ppow)
  /\ UNCHANGED <<mode, opt, locks, img, snapq, res>>

SaveSnapshot(s) ==
  /\ mode = "append"
  /\ recs' = Append(recs, SnapRec(s))
  /\ enti' = Max2(enti, s.i)
  /\ handed' = Len(recs') /\ pproc' = Len(recs')
  /\ synced' = (IF opt THEN synced ELSE Len(recs'))
  /\ ppow'   = (IF opt THEN ppow ELSE Len(recs'))
  /\ UNCHANGED <<segs, mode, opt, locks, img, snapq, res>>

\* keeps the largest segment whose name index is below i, and everything after it
ReleaseLockTo(i) ==
  /\ mode = "append"
  /\ LET below == {k \in 1..Len(segs) : segs[k].idx < i}
         keep  == IF \E k \in 1..Len(segs) : segs[k].idx >= i
                  THEN (IF below = {} THEN 1 ELSE CHOOSE k \in below : \A j \in below : j <= k)
                  ELSE Len(segs)
     IN locks' = [locks EXCEPT !.l = Max2(@, keep)]
  /\ UNCHANGED <<recs, segs, handed, synced, pproc, ppow, enti, mode, opt, img, snapq, res>>

\* wal.Sync(): flush and fdatasync in both modes (the node calls it before it releases locks)
Sync ==
  /\ mode = "append"
  /\ handed' = Len(recs) /\ pproc' = Len(recs)
  /\ synced' = (IF Contiguous THEN Len(recs) ELSE synced)
  /\ ppow' = (IF ~opt \/ Contiguous THEN Len(recs) ELSE ppow)
  /\ UNCHANGED <<recs, segs, enti, mode, opt, locks, img, snapq, res>>

Close ==
  /\ mode = "append"
  /\ mode' = "closed"
  /\ handed' = Len(recs) /\ pproc' = Len(recs)
  /\ synced' = (IF Contiguous THEN Len(recs) ELSE synced)
  /\ ppow' = (IF ~opt \/ Contiguous THEN Len(recs) ELSE ppow)
  /\ UNCHANGED <<recs, segs, enti, opt, locks, img, snapq, res>>

\* the background purge (fileutil.PurgeFile): while more than `max` segment files exist, the
\* oldest one is removed - unless the log still holds its lock; k is how many it removed
MaxPurge(max) == LET a == locks.l - 1 - locks.p
                     b == Len(segs) - locks.p - max
                 IN IF a < b THEN Max2(a, 0) ELSE Max2(b, 0)
Purge(max, k) ==
  /\ mode = "append"
  /\ k \in 1..MaxPurge(max)
  /\ locks' = [locks EXCEPT !.p = @ + k]
  /\ UNCHANGED <<recs, segs, handed, synced, pproc, ppow, enti, mode, opt, img, snapq, res>>

\* a clean restart: Open at snapshot s + ReadAll of a closed log, then appending continues;
\* Open locks the segment the snapshot index selects and everything after it
SelectSeg(sg, si) == LET ok == {k \in 1..Len(sg) : sg[k].idx <= si}
                     IN IF ok = {} THEN 0 ELSE CHOOSE k \in ok : \A j \in ok : j <= k
Restart(s) ==
  /\ mode = "closed"
  /\ SelectSeg(segs, s.i) > locks.p
  /\ mode' = "append" /\ locks' = [locks EXCEPT !.l = SelectSeg(segs, s.i)]
  /\ UNCHANGED <<recs, segs, handed, synced, pproc, ppow, enti, opt, img, snapq, res>>

-------------------------------------------------------------------------------
(* Crash images.  kind "proc": the process dies, the OS keeps what it was      *)
(* handed.  kind "power": only what was synced is certain; any longer prefix   *)
(* may have made it, and the record after it may be short or torn.             *)
InLastSeg(p) == p >= segs[Len(segs)].first      \* record position p lies in the tail segment

CrashProc(n) ==
  /\ mode \in {"append", "closed"}
  /\ n \in handed..Len(recs)
  /\ img' = [kind |-> "proc", n |-> n, tail |-> "none", flip |-> 0]
  /\ mode' = "crashed"
  /\ UNCHANGED <<recs, segs, handed, synced, pproc, ppow, enti, opt, locks, snapq, res>>

CrashPower(n, tail) ==
  /\ mode \in {"append", "closed"}
  /\ n \in synced..Len(recs)
  /\ tail \in {"none", "short", "torn"}
  /\ (tail # "none" => n < Len(recs))
  /\ img' = [kind |-> "power", n |-> n, tail |-> tail, flip |-> 0]
  /\ mode' = "crashed"
  /\ UNCHANGED <<recs, segs, handed, synced, pproc, ppow, enti, opt, locks, snapq, res>>

\* one corrupted record r in the synced region of an otherwise complete log
Flip(r) ==
  /\ mode \in {"append", "closed"}
  /\ r \in 1..synced
  /\ img' = [kind |-> "flip", n |-> handed, tail |-> "none", flip |-> r]
  /\ mode' = "crashed"
  /\ UNCHANGED <<recs, segs, handed, synced, pproc, ppow, enti, opt, locks, snapq, res>>

-------------------------------------------------------------------------------
(* The reader as designed: select the segment by the snapshot index, read      *)
(* whole records from there while the CRC chain holds; a damaged record in the *)
(* tail segment that shows a zero sector is a torn write and is cut off by     *)
(* Repair; any other damage is reported.                                       *)
ReadFromX(rs, sg, n, s, needMarker) ==
  LET k == SelectSeg(sg, s.i)
  IN IF k = 0 \/ k <= locks.p THEN Err("filenotfound")    \* no such segment, or it was purged
     ELSE EffectX(SubSeq(rs, sg[k].first, n), s, needMarker)
ReadFrom(rs, sg, n, s)      == ReadFromX(rs, sg, n, s, TRUE)
ReadFromLoose(rs, sg, n, s) == ReadFromX(rs, sg, n, s, FALSE)

\* the set of answers the designed reader may give for an image; RF(n) is what reading
\* the first n records at s gives (ReadFrom, or a table of it)
ReadResultsBy(RF(_), rs, sg, im, s) ==
  LET k     == SelectSeg(sg, s.i)
      first == IF k = 0 THEN 1 ELSE sg[k].first
      lastf == sg[Len(sg)].first
  IN IF im.flip > 0
     THEN IF im.flip < first THEN {RF(im.n)}                        \* the damaged record is not read
          ELSE {Err("crc")} \cup (IF im.flip >= lastf THEN {RF(im.flip - 1)} ELSE {})
     ELSE IF im.n + 1 < lastf /\ im.n < Len(rs)
          THEN {Err("crc")}                     \* records missing inside a segment that is not the tail
     ELSE CASE im.tail = "none"  -> {RF(im.n)}
            [] im.tail = "torn"  -> {RF(im.n)}                      \* ErrUnexpectedEOF, Repair, retry
            [] im.tail = "short" -> {RF(im.n), Err("crc")}

ReadResults(rs, sg, im, s) == ReadResultsBy(LAMBDA n : ReadFrom(rs, sg, n, s), rs, sg, im, s)

Reopen(s) ==
  /\ mode = "crashed"
  /\ res' \in ReadResults(recs, segs, img, s)
  /\ snapq' = s
  /\ mode' = "read"
  /\ UNCHANGED <<recs, segs, handed, synced, pproc, ppow, enti, opt, locks, img>>

-------------------------------------------------------------------------------
(* Properties.                                                                 *)
\* the prefixes a reopen of image im may legitimately stand for
\* pw: in the normal mode the promise ppow; in optimized mode the contiguous prefix covered
\* by issued fdatasyncs (the model's `synced`, the implementation's report in a trace)
Floor(im, pp, pw) == IF im.kind = "proc" THEN pp ELSE pw
PowFloor == IF opt THEN synced ELSE ppow
Allowed(rs, im, pp, pw) ==
  (Floor(im, pp, pw)..Len(rs)) \cup (IF im.flip > 0 THEN {im.flip - 1, im.flip} ELSE {})

\* the answer is an error, or what reading a legitimate prefix at s gives
ResultAllowed(rs, sg, im, pp, pw, s, r) ==
  r.err # "" \/ \E p \in Allowed(rs, im, pp, pw) : r = ReadFromLoose(rs, sg, p, s)

\* an image that is a clean cut at a record boundary, or whose damaged record shows a
\* zero sector, is the repairable kind: the reopen has to come back with the records in it
MustSucceed(sg, im) == im.flip = 0 /\ im.tail \in {"none", "torn"} /\ im.n >= sg[Len(sg)].first - 1
SucceedsIfRepairable(rs, sg, im, s, r) ==
  MustSucceed(sg, im) => (r.err = "" \/ ReadFrom(rs, sg, im.n, s).err # "")

\* everything returned was written: each entry and the state are records of the log,
\* and the entries are consecutive from the snapshot index on
NothingInvented(rs, s, r) ==
  r.err = "" =>
     /\ \A j \in 1..Len(r.ents) : \E q \in 1..Len(rs) : rs[q] = EntRec(r.ents[j])
     /\ r.hs = ZeroHS \/ \E q \in 1..Len(rs) : rs[q] = StRec(r.hs)
     /\ \A j \in 1..Len(r.ents) : r.ents[j].i = s.i + j

SyncPolicy == /\ synced <= handed /\ handed <= Len(recs)
              /\ pproc <= handed /\ ppow <= synced

ReopenIsDurablePrefix ==
  mode = "read" => ResultAllowed(recs, segs, img, pproc, PowFloor, snapq, res)

NoCorruptDataReturned ==
  mode = "read" => NothingInvented(recs, snapq, res)

RepairThenOpenSucceedsWithPrefix ==
  mode = "read" => SucceedsIfRepairable(recs, segs, img, snapq, res)

(* The same three statements for all images of a state at once (the bounded    *)
(* instances check this form: it does not store one state per image).          *)
Images ==
     {[kind |-> "proc", n |-> n, tail |-> "none", flip |-> 0] : n \in handed..Len(recs)}
  \cup {[kind |-> "power", n |-> n, tail |-> tl, flip |-> 0] :
           n \in synced..Len(recs), tl \in {"none"}}
  \cup {[kind |-> "power", n |-> n, tail |-> tl, flip |-> 0] :
           n \in synced..(Len(recs) - 1), tl \in {"short", "torn"}}
  \cup {[kind |-> "flip", n |-> handed, tail |-> "none", flip |-> r] : r \in 1..synced}

SnapChoices == Markers(recs) \cup {[i |-> 1, t |-> 99]}

EveryImageReopensWell ==
  mode \in {"append", "closed"} =>
    \A s \in SnapChoices :
      LET T  == [p \in 0..Len(recs) |-> ReadFrom(recs, segs, p, s)]
          TL == [p \in 0..Len(recs) |-> ReadFromLoose(recs, segs, p, s)] IN
      \A im \in Images : \A r \in ReadResultsBy(LAMBDA n : T[n], recs, segs, im, s)
                                  \cup ReadResultsBy(LAMBDA n : TL[n], recs, segs, im, s) :
         /\ r.err # "" \/ \E p \in Allowed(recs, im, pproc, PowFloor) : r = TL[p]
         /\ MustSucceed(segs, im) => (r.err = "" \/ T[im.n].err # "")
         /\ NothingInvented(recs, s, r)

\* what is still on disk: the records from the first segment that was not purged
FirstRec == IF segs = <<>> THEN 1 ELSE segs[locks.p + 1].first
OnDisk(rs, p) == SubSeq(rs, FirstRec, p)
Newest(V) == CHOOSE s \in V : \A x \in V : x.i <= s.i

\* the prefix that survives any crash the mode gives guarantees for
CrashFloor == IF opt THEN pproc ELSE ppow

\* Purge and lock release never take away what a restart needs: whatever prefix survives a
\* crash (process crash in both modes, power loss in the normal mode), ValidSnapshotEntries
\* over the files that are left offers at least one marker, and the segment the newest of
\* them selects - the one the node opens at - is still there
PurgeKeepsWhatRestartNeeds ==
  (mode \in {"append", "closed"} /\ locks.p > 0) =>
    \A n \in CrashFloor..Len(recs) :
       LET V == ValidSnaps(OnDisk(recs, n))
       IN /\ V # {}
          /\ SelectSeg(segs, Newest(V).i) > locks.p
          /\ ReadFrom(recs, segs, n, Newest(V)).err = ""

(* The snapshotter next to the log (snap/snapshotter.go, node/raft.go startRaft):          *)
(* SaveSnap writes the snapshot file <term>-<index>.snap first and the marker into the    *)
(* log second; a restart asks ValidSnapshotEntries for the markers and loads the newest   *)
(* file that is intact on disk AND marked valid in the log (LoadNewestAvailable), then    *)
(* opens the log at it.  A file is [i, t, ok, x]: index, term, intact on disk, content id. *)
NoSnapFile == [i |-> -1, t |-> -1]
SnapCands(F, V) == {f \in F : f.ok /\ [i |-> f.i, t |-> f.t] \in V}
NewestFile(C) == CHOOSE f \in C : \A g \in C : g.t < f.t \/ (g.t = f.t /\ g.i <= f.i)
PickSnap(F, V) == IF SnapCands(F, V) = {} THEN NoSnapFile
                  ELSE [i |-> NewestFile(SnapCands(F, V)).i, t |-> NewestFile(SnapCands(F, V)).t]

\* every marker has its file (the file is written first); after a crash any subset of the
\* files may be broken or gone, and a file whose marker never reached the log may exist.
\* Whatever survives, the restart picks a snapshot the log knows and can be opened at - or
\* none, and then the log still opens at its beginning (unless purge took that away, which
\* PurgeKeepsWhatRestartNeeds covers for the intact newest file)
SnapshotPickIsSound ==
  mode \in {"append", "closed"} =>
    \A n \in CrashFloor..Len(recs) :
      LET V  == ValidSnaps(OnDisk(recs, n))
          MF == {[i |-> m.i, t |-> m.t, ok |-> TRUE, x |-> 0] : m \in Markers(recs) \ {Snap0}}
          orphan == [i |-> enti + 1, t |-> 9, ok |-> TRUE, x |-> 0]     \* newer than anything marked
      IN \A S \in SUBSET MF :
           LET p == PickSnap(S \cup {orphan}, V)
           IN /\ p # [i |-> orphan.i, t |-> orphan.t]
              /\ p # NoSnapFile => /\ p \in V
                                   /\ ReadFrom(recs, segs, n, p).err \notin {"snapnotfound", "snapmismatch"}
                                   \* (an older snapshot may sit behind a jump of the log: loud "gap")
                                   /\ (locks.p = 0 => ReadFrom(recs, segs, n, p).err \in {"", "gap"})
              /\ (p = NoSnapFile /\ locks.p = 0) => ReadFrom(recs, segs, n, Snap0).err \in {"", "gap"}

\* reading from the segment the snapshot index selects gives what reading the whole log
\* gives - except that stale entries of older segments (cut off by a rewrite at or below
\* the snapshot index, which the index filter does not see) are not resurrected
SegmentTransparent ==
  mode \in {"append", "closed"} =>
    \A s \in Markers(recs) : \A n \in pproc..Len(recs) :
       LET a == ReadFrom(recs, segs, n, s) b == Effect(Pre(recs, n), s)
           t == EffectLoose(Pre(recs, n), Snap0)      \* the log itself (no index filter)
       IN a = b \/ a.err = "filenotfound"
          \/ (/\ a.err = "" /\ b.err = "" /\ a.ents = <<>> /\ a = [b EXCEPT !.ents = <<>>]
              \* ... and what the whole-log reading has on top are stale entries only
              /\ (t.err = "" => \A j \in 1..Len(b.ents) : \A q \in 1..Len(t.ents) : b.ents[j] # t.ents[q]))

\* a marker ValidSnapshotEntries offers can be opened: it is in the log and unambiguous
ValidSnapshotsAreCommitted ==
  mode \in {"append", "closed"} =>
    \A n \in pproc..Len(recs) : \A s \in ValidSnaps(Pre(recs, n)) :
       /\ s.i <= LastState(Pre(recs, n)).c
       /\ ReadFrom(recs, segs, n, s).err \notin {"snapnotfound", "snapmismatch"}
       /\ (locks.p = 0 => ReadFrom(recs, segs, n, s).err # "filenotfound")
=============================================================================
