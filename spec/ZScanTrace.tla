----------------------------- MODULE ZScanTrace -----------------------------
(* Trace validation for ZScan: replays iterations recorded from the real scan  *)
(* commands (harness scansim: node-level SCAN/ADVSCAN/HSCAN/SSCAN/ZSCAN        *)
(* handlers on a real store) page by page.                                     *)
(*                                                                             *)
(* Events (one JSON object per line):                                          *)
(*   reset                                   new world, a new segment starts   *)
(*   begin  pop cur cnt rev m pn             an iteration starts on a space    *)
(*            whose population is `pop`; m = positions matching MATCH; pn =    *)
(*            the pattern contains a 0x00 byte, which the glob library cannot  *)
(*            express: such an iteration may be REFUSED (first page = an error *)
(*            reply without elements) or answered with exactly the subset m -  *)
(*            never with anything else                                         *)
(*   write  op ("add" | "rem") p             a write to the scanned space      *)
(*            between two pages (writes to other spaces are not logged: the    *)
(*            specification's pages do not depend on them - NothingForeign)    *)
(*   page   els next err                     one scan command and its reply;   *)
(*            names that are not pool elements of the scanned space are -1     *)
(*   end    capped                           the driver stopped feeding the    *)
(*            cursor back (capped = it gave up after NPos+3 pages)             *)
(* The first disagreement inside a segment is printed as                       *)
(* <<"MISMATCH", line, expected>> and the rest of the segment is skipped.      *)
EXTENDS ZScan, Json, IOUtils, TLC

VARIABLES l, bad,
          pn,       \* the running iteration's pattern contains 0x00
          refused   \* the running iteration was refused with an error reply

Trace == ndJsonDeserialize(IOEnv.ZR_TRACE)
E == Trace[l]

tvars == <<pop, foreign, it, l, bad, pn, refused>>

TInit == pop = {} /\ foreign = {} /\ it = NoIter /\ l = 1 /\ bad = FALSE /\ pn = FALSE /\ refused = FALSE


\* what the specification would have answered (reference page), for the report
Expected ==
  CASE E.ev = "page" ->
         LET els == RefPage(pop, foreign, it.m, it.cur, it.cnt, it.rev)
         IN <<"page", els, RefNext(els, it.cnt), "cursor", it.cur, "pop", pop>>
    [] E.ev = "end"  -> <<"end", "seen", it.seen, "pages", it.pages, "done", it.done,
                          "thr", it.thr, "ever", it.ever>>
    [] OTHER         -> <<E.ev>>

Mismatch == /\ bad' = TRUE
            /\ PrintT(<<"MISMATCH", l, Expected>>)
            /\ UNCHANGED <<pop, foreign, it, pn, refused>>

Keep == UNCHANGED <<pop, foreign, it, bad, pn, refused>>

TNext ==
  /\ l <= Len(Trace)
  /\ l' = l + 1
  /\ IF E.ev = "reset" THEN pop' = {} /\ foreign' = {} /\ it' = NoIter /\ bad' = FALSE
                             /\ pn' = FALSE /\ refused' = FALSE
     ELSE IF bad THEN Keep
     ELSE CASE E.ev = "begin" ->
                 /\ pop' = ToSet(E.pop)
                 /\ it' = NewIter(ToSet(E.pop), E.cur, E.cnt, E.rev, ToSet(E.m))
                 /\ pn' = E.pn /\ refused' = FALSE
                 /\ UNCHANGED <<foreign, bad>>
            [] E.ev = "write" ->
                 IF E.op = "add" /\ E.p \notin pop
                 THEN Add(E.p) /\ UNCHANGED <<bad, pn, refused>>
                 ELSE IF E.op = "rem" /\ E.p \in pop
                 THEN Rem(E.p) /\ UNCHANGED <<bad, pn, refused>>
                 ELSE Mismatch
            [] E.ev = "page" ->
                 IF /\ it.active /\ ~it.done /\ ~refused /\ E.err = ""
                    /\ PageOK(pop, foreign, it.m, it.cur, it.cnt, it.rev, E.els, E.next)
                 THEN /\ it' = AfterPage(it, E.els, E.next)
                      /\ UNCHANGED <<pop, foreign, bad, pn, refused>>
                 ELSE IF /\ it.active /\ pn /\ it.pages = 0 /\ ~refused
                         /\ E.err # "" /\ E.els = <<>> /\ E.next = 0
                 THEN refused' = TRUE /\ UNCHANGED <<pop, foreign, it, bad, pn>>
                 ELSE Mismatch
            [] E.ev = "end" ->
                 \* iteration-level properties on the reconstructed state
                 IF /\ it.active /\ ~E.capped
                    /\ \/ refused /\ it.pages = 0
                       \/ ~refused /\ it.done /\ IterOK
                 THEN it' = NoIter /\ pn' = FALSE /\ refused' = FALSE /\ UNCHANGED <<pop, foreign, bad>>
                 ELSE Mismatch
            [] OTHER -> Mismatch

TSpec == TInit /\ [][TNext]_tvars

AllConsumed == TLCGet("stats").diameter - 1 = Len(Trace)
=============================================================================
