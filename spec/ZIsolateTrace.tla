---------------------------- MODULE ZIsolateTrace ----------------------------
(* Trace validation for ZIsolate: every command the driver (harness isosim)     *)
(* applied to the real state machine, with its reply and the FULL dump of every *)
(* (type, table, key) tuple read back from the real store afterwards.           *)
(*                                                                              *)
(* Events:  reset                                                               *)
(*          cmd  op u a b r rl d     op on tuple u (deltable: a = table; keys:  *)
(*               u = first tuple of the scanned (type, table)); r = integer     *)
(*               reply, rl = list reply (keys), d = dump: d[x] = enumeration of *)
(*               tuple x as a sequence of <<sub, value>> pairs                  *)
(*               multi-key commands: ks = slots (kv tuples, or <= 0 = an invalid  *)
(*               name), vs = values (mset); delrange: a = table, ks = <<lo, hi>>  *)
(*               limit probes: op = "limit", a = key length, b = sub-key length, *)
(*               rl = <<value length, length of table:key>>, r = -998 / 0        *)
(* The first disagreement of a segment is printed as                            *)
(* <<"MISMATCH", line, expected reply, set of <<tuple, expected dump>> that     *)
(* differ>> and the rest of the segment is skipped.                             *)
EXTENDS ZIsolate, Json, IOUtils, TLC

VARIABLES l, bad

Trace == ndJsonDeserialize(IOEnv.ZR_TRACE)
E == Trace[l]

tvars == <<st, ttl, l, bad>>

TInit == st = EmptyStore /\ ttl = {} /\ l = 1 /\ bad = FALSE

Valid ==
  \/ E.op \in {"deltable", "runexpiry"}
  \/ E.op = "limit" /\ Len(E.rl) = 2
  \/ E.op = "keys" /\ E.u \in Tups
  \/ E.op \in {"mget", "mexists", "mdel"} /\ \A i \in 1..Len(E.ks) : E.ks[i] <= 0 \/ (E.ks[i] \in Tups /\ TyOf(E.ks[i]) = 1)
  \/ E.op = "mset" /\ Len(E.vs) = Len(E.ks) /\ \A i \in 1..Len(E.ks) : E.ks[i] \in Tups /\ TyOf(E.ks[i]) = 1
  \/ E.op = "delrange" /\ Len(E.ks) = 2
  \/ E.u \in Tups /\ E.op \in OpsOf(TyOf(E.u))

\* a whole-table delete that was refused (reply -998) must change nothing
Refused == E.op = "deltable" /\ E.r = -998
ExpSt  == IF Refused THEN st
          ELSE IF E.op \in {"mget", "mexists"} THEN st
          ELSE IF E.op = "mdel" THEN MDelAfter(st, E.ks)
          ELSE IF E.op = "mset" THEN MSetAfter(st, E.ks, E.vs)
          ELSE IF E.op = "delrange" THEN (IF E.r = -998 THEN st ELSE DelRangeAfter(st, E.a, E.ks[1], E.ks[2]))
          ELSE After(st, E.op, E.u, E.a, E.b)
ExpR   == IF Refused THEN -998
          ELSE IF E.op = "mexists" THEN MExists(st, E.ks)
          ELSE IF E.op = "mdel" THEN MDelReply(st, E.ks)
          ELSE IF E.op \in {"mget", "mset"} THEN 0
          ELSE IF E.op = "delrange" THEN (IF E.r = -998 THEN -998 ELSE 0)
          ELSE IF E.op = "limit" THEN LimitReply(E.a, E.rl[2], E.b, E.rl[1], E.r)   \* a = key, b = sub-key, rl = <<value, table:key>> lengths
          ELSE IF E.op = "pfadd" \/ (E.op = "del" /\ E.u \in Tups /\ TyOf(E.u) = 8)
               THEN E.r   \* replies of PFADD, and of DEL on a HyperLogLog key (write cache, recorded under C07), are not modelled
          ELSE ReplyOf(st, E.op, E.u, E.a, E.b)
ExpRl  == IF E.op = "keys" THEN KeysOf(st, TyOf(E.u), TabOf(E.u))
          ELSE IF E.op = "limit" THEN E.rl
          ELSE IF E.op = "mget" THEN [i \in 1..Len(E.ks) |-> IF E.ks[i] > 0 THEN SlotVal(st, E.ks[i]) ELSE -998]
          ELSE IF E.op = "zrangebylex" THEN LexMembers(st[E.u], E.a, E.b) ELSE <<>>
RlOK   == IF E.op = "mget" THEN MGetOK(st, E.ks, E.rl) ELSE E.rl = ExpRl
Diff   == IF Len(E.d) = NTup THEN {x \in Tups : Dump(ExpSt, x) # E.d[x]} ELSE {}

Mismatch == /\ bad' = TRUE
            /\ PrintT(<<"MISMATCH", l, IF Valid THEN <<ExpR, ExpRl, {<<x, Dump(ExpSt, x)>> : x \in Diff}>>
                                        ELSE <<"invalid event">> >>)
            /\ UNCHANGED <<st, ttl>>

TNext ==
  /\ l <= Len(Trace)
  /\ l' = l + 1
  /\ IF E.ev = "reset" THEN st' = EmptyStore /\ ttl' = {} /\ bad' = FALSE
     ELSE IF bad THEN UNCHANGED <<st, ttl, bad>>
     ELSE IF /\ E.ev = "cmd" /\ Valid
             /\ Len(E.d) = NTup
             /\ E.r = ExpR /\ RlOK /\ Diff = {}
          THEN (IF Refused THEN UNCHANGED <<st, ttl>>
                ELSE IF E.op \in MultiOps THEN st' = ExpSt /\ UNCHANGED ttl
                ELSE Do(E.op, E.u, E.a, E.b)) /\ UNCHANGED bad
          ELSE Mismatch

TSpec == TInit /\ [][TNext]_tvars

AllConsumed == TLCGet("stats").diameter - 1 = Len(Trace)
=============================================================================
