-------------------------------- MODULE ZIndex --------------------------------
(* Secondary hash indexes of ZanRedisDB (HSET index on one field of the hashes   *)
(* of one table; doc/user-guide.md "索引": search by field value returns the     *)
(* primary keys) - the C12 view of them: an index of table T, built on existing  *)
(* data or maintained by later writes, answers a search with exactly the primary *)
(* keys OF TABLE T whose indexed field has the value - never with keys of a      *)
(* table whose name merely starts with T's name (tab / tabx / tab_2).            *)
(*                                                                               *)
(* Tables, primary keys and field values are positions of small pools (value 0 = *)
(* the hash has no such field).                                                  *)
EXTENDS Integers, Sequences, FiniteSets, SequencesExt

CONSTANTS NT, NK

VARIABLES val,      \* val[t][k]: value of the indexed field of hash k in table t (0 = none)
          idx       \* idx[t] \in {"none", "ready"}

xvars == <<val, idx>>

Tabs == 1..NT
Keys == 1..NK

XInit == val = [t \in Tabs |-> [k \in Keys |-> 0]] /\ idx = [t \in Tabs |-> "none"]

\* HSET t:k f v (v > 0), HDEL t:k f / HCLEAR t:k (v = 0)
Write(t, k, v) == val' = [val EXCEPT ![t][k] = v] /\ UNCHANGED idx
\* index DDL: added + built on the existing data + switched to ready / deleted + cleaned
MakeReady(t)   == idx' = [idx EXCEPT ![t] = "ready"] /\ UNCHANGED val
Drop(t)        == idx' = [idx EXCEPT ![t] = "none"] /\ UNCHANGED val

\* A search condition on the indexed field: lower bound lo and upper bound hi are value positions
\* (0 = that side is unbounded), il / ih say whether the bound itself is included:
\*   f = v: (v, TRUE, v, TRUE)   f < v: (0, _, v, FALSE)   f <= v   f > v   f >= v   lo <(=) f <(=) hi
\* Field values are positions of an ordered pool (the driver instantiates it with strings or with
\* 64-bit integers incl. the smallest and the largest one; bounds are always stored values).
Sat(x, lo, il, hi, ih) ==
  /\ x # 0
  /\ (lo = 0 \/ (IF il THEN x >= lo ELSE x > lo))
  /\ (hi = 0 \/ (IF ih THEN x <= hi ELSE x < hi))

\* what the search answers: the primary keys whose field satisfies the condition, in index order
\* (by value, then by key)
Search(t, lo, il, hi, ih) ==
  SetToSortSeq({k \in Keys : Sat(val[t][k], lo, il, hi, ih)},
               LAMBDA a, b : val[t][a] < val[t][b] \/ (val[t][a] = val[t][b] /\ a < b))
=============================================================================
