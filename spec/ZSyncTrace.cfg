SPECIFICATION TSpec
CONSTANTS
  N <- TraceN
  Term <- TraceTerm
  RecvFilter = TRUE
  ApplyFilter = "le"
  SyncedAfter = TRUE
  SnapHasSynced = TRUE
  Pipelined = FALSE
INVARIANTS RemoteExactlyOnce SyncedAfterEffect
POSTCONDITION AllConsumed
CHECK_DEADLOCK FALSE
