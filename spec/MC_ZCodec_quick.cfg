SPECIFICATION Spec
CONSTANTS
  Mutant = "none"
  MaxWire = 1
  Terms = {1, 2}
  Indexes = {0, 1}
  MaxEnts = 2
  Sizes = {1, 2}
  Commits = {0, 1}
  Lazy = TRUE
  Damage = TRUE
  MaxSent = 0
VIEW View
INVARIANTS Lossless StepFaithful InSync CtxAgree ErrorAfterDamage
