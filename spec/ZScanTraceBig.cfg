SPECIFICATION TSpec
CONSTANTS
  NPos = 5203
  Mut = "none"
POSTCONDITION AllConsumed
CHECK_DEADLOCK FALSE
