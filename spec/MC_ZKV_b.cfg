SPECIFICATION SpecB
CONSTANTS
  NKeys = 2
  Mut = "none"
  Policy = "wc"
  Subs = {1, 2}
  VIds = {2}
  Times = {0, 1, 2, 3}
  Durs = {1, 2}
  RNow = 2
  MaxLen = 2
  MaxNum = 2
  FullKeys = {1}
  Dup = FALSE
  TCmds <- CmdsB
INVARIANTS TypeOK ReadsChangeNothing CountsAgree ExpiredIsDead OverwriteClearsExpiry ModifyKeepsExpiry NewGenerationIsEmpty TTLIsRemaining LocalDeletion
CHECK_DEADLOCK FALSE
