----------------------------- MODULE MC_ZCodec ------------------------------
(* Bounded instances of ZCodec.                                                *)
(*  MC_ZCodec.cfg        proof instance: every encoding the contract allows    *)
(*                       (Lazy = TRUE: a full frame may replace a continuation),*)
(*                       pipe depth 2, truncation and corruption.              *)
(*  MC_ZCodec_quick.cfg  the same with indexes 0..1 (quick tier).                 *)
(*  MC_ZCodec_walk.cfg   the implementation's compacting writer only, pipe     *)
(*                       depth 1, no damage: its complete labelled state graph *)
(*                       is walked edge by edge on the real codec (codecsim).  *)
(*  MC_ZCodec_mut_*.cfg  one guard removed each; TLC must refute them.         *)
(*  MC_ZCodec_hist.cfg   no VIEW, histories bounded: cross-check of the VIEW.  *)
(*                                                                             *)
(* The histories sent/recvd are hidden by VIEW; what is still pending is part  *)
(* of the view, so StepFaithful (a function of the view) is checked in every   *)
(* distinct state and Lossless follows by induction over Decode steps.         *)
EXTENDS ZCodec

CONSTANTS MaxWire,      \* frames in flight
          Terms, Indexes, MaxEnts, Sizes, Commits,
          Lazy,         \* TRUE: also explore the less compact correct encodings
          Damage,       \* TRUE: Truncate / Corrupt enabled
          MaxSent       \* bound on the history (only without VIEW; 0 = unbounded)

\* one stream from node 1 to node 2 shared by several raft groups
G(n, g, r, nm) == [node |-> n, gid |-> g, rep |-> r, name |-> nm]
Pairs == << <<G(1, 7, 1, "ns-0"), G(2, 7, 2, "ns-0")>>,    \* partition 0
            <<G(1, 8, 1, "ns-1"), G(2, 8, 2, "ns-1")>>,    \* partition 1: same replica ids, other group
            <<G(1, 7, 1, "ns-0"), G(2, 7, 5, "ns-0")>>,    \* partition 0 after node 2's replica was re-added
            <<G(1, 7, 9, "ns-0"), G(2, 7, 2, "ns-0")>> >>  \* partition 0 after node 1's replica was re-added

K == [compact |-> TRUE, local |-> 2, remote |-> 1]

MkMsg(g, t, lt, i, n, sz, c) ==
  [type |-> "MsgApp", from |-> Pairs[g][1].rep, to |-> Pairs[g][2].rep, term |-> t,
   logterm |-> lt, index |-> i, commit |-> c,
   ents |-> [j \in 1..n |-> [index |-> i + j, term |-> t, d |-> sz]],
   fg |-> Pairs[g][1], tg |-> Pairs[g][2], rest |-> NoRest]

Room == Len(wire) < MaxWire /\ (MaxSent = 0 \/ Len(sent) < MaxSent)

Encode(g, t, lt, i, n, sz, c) ==
  /\ Room /\ lt <= t /\ (n = 0 => sz = 1)
  /\ Send(MkMsg(g, t, lt, i, n, sz, c))

\* a correct but less compact writer: full frame where a continuation would do
EncodeFull(g, t, lt, i, n, sz, c) ==
  /\ Lazy /\ Room /\ lt <= t /\ (n = 0 => sz = 1)
  /\ LET m == MkMsg(g, t, lt, i, n, sz, c) IN
       EncodeFrame(enc, cfg, m).k = "cont" /\ SendFrame(m, FullFrame(m))

EncodeHB == Room /\ Send(HBMsg)

DoTruncate(k) == Damage /\ Truncate(k)
DoCorrupt(k)  == Damage /\ Corrupt(k)

Init == CInit(K)

Next == \/ \E g \in 1..Len(Pairs), t \in Terms, lt \in Terms, i \in Indexes,
              n \in 0..MaxEnts, sz \in Sizes, c \in Commits :
              Encode(g, t, lt, i, n, sz, c) \/ EncodeFull(g, t, lt, i, n, sz, c)
        \/ EncodeHB
        \/ Decode
        \/ \E k \in 0..MaxWire : DoTruncate(k)
        \/ \E k \in 1..MaxWire : DoCorrupt(k)

Spec == Init /\ [][Next]_cvars

View == <<cfg, enc, dec, wire, damaged, closed, Pending,
          IF damaged THEN whole - Len(recvd) ELSE 0>>
=============================================================================
