------------------------------- MODULE ZEngine -------------------------------
(* The key-value contract every storage engine of ZanRedisDB has to implement  *)
(* (engine/kv.go KVEngine, engine/writebatch.go WriteBatch, engine/iterator.go *)
(* range iterators).  It is the sorted-map reference of property C20: the data *)
(* mapping (rockredis) is written against exactly these operations.            *)
(*                                                                             *)
(* Keys are positions 1..NPos of an ordered pool of byte strings; the Go       *)
(* driver instantiates the pool order-consistently (empty key, shared          *)
(* prefixes, 0x00/0xff bytes).  0 stands for "no bound" (nil).                 *)
(* Values are naturals: 0 is the empty byte string, v > 0 is the 8-byte        *)
(* little-endian counter encoding of v, which is what the uint64-add merge     *)
(* operator works on.  Absent is -1 in read results.                           *)
EXTENDS Integers, Sequences, FiniteSets, SequencesExt

CONSTANTS NPos          \* number of key positions

VARIABLES data,         \* committed content: [subset of 1..NPos -> Nat]
          batch         \* the open write batch: sequence of operations

evars == <<data, batch>>

Pos    == 1..NPos
Empty  == [k \in {} |-> 0]

Op(o, k, v) == [op |-> o, k |-> k, v |-> v]

-------------------------------------------------------------------------------
(* Effect of one batch operation on a map; a batch is applied in order, so a   *)
(* later operation sees the effect of an earlier one of the same batch         *)
(* (RocksDB WriteBatch semantics: Put k; DeleteRange [k, ..) deletes k).       *)
ApplyOp(d, o) ==
  CASE o.op = "put"      -> [x \in DOMAIN d \cup {o.k} |-> IF x = o.k THEN o.v ELSE d[x]]
    [] o.op = "del"      -> [x \in DOMAIN d \ {o.k} |-> d[x]]
    [] o.op = "delrange" -> [x \in {y \in DOMAIN d : ~(y >= o.k /\ y < o.v)} |-> d[x]]
    [] o.op = "merge"    -> [x \in DOMAIN d \cup {o.k} |->
                               IF x = o.k THEN (IF o.k \in DOMAIN d THEN d[o.k] ELSE 0) + o.v
                               ELSE d[x]]

ApplyBatch(d, b) == FoldLeft(LAMBDA acc, o : ApplyOp(acc, o), d, b)

-------------------------------------------------------------------------------
(* Write-side actions.  Nothing becomes visible before Commit; Clear drops the *)
(* batch without any effect.                                                   *)
BPut(k, v)        == batch' = Append(batch, Op("put", k, v)) /\ UNCHANGED data
BDel(k)           == batch' = Append(batch, Op("del", k, 0)) /\ UNCHANGED data
BDelRange(lo, hi) == batch' = Append(batch, Op("delrange", lo, hi)) /\ UNCHANGED data
BMerge(k, d)      == batch' = Append(batch, Op("merge", k, d)) /\ UNCHANGED data
Commit            == data' = ApplyBatch(data, batch) /\ batch' = <<>>
Clear             == batch' = <<>> /\ UNCHANGED data
\* maintenance (manual compaction of a range or of everything, memtable flush, size and
\* key-count estimates) is logically invisible: neither the content nor the open batch changes
Maint             == UNCHANGED <<data, batch>>

-------------------------------------------------------------------------------
(* Read side: pure functions of the committed content.                         *)
Get(d, k)   == IF k \in DOMAIN d THEN d[k] ELSE -1
Exist(d, k) == k \in DOMAIN d
MultiGet(d, ks) == [i \in 1..Len(ks) |-> Get(d, ks[i])]

\* range types as in common: 0 closed, 1 left open, 16 right open, 17 open
LOpen(rt) == rt \in {1, 17}
ROpen(rt) == rt \in {16, 17}
InRange(k, mn, mx, rt) ==
  /\ (mn = 0 \/ (IF LOpen(rt) THEN k > mn ELSE k >= mn))
  /\ (mx = 0 \/ (IF ROpen(rt) THEN k < mx ELSE k <= mx))

Drop(s, n) == IF n >= Len(s) THEN <<>> ELSE SubSeq(s, n + 1, Len(s))
Take(s, n) == IF n >= Len(s) THEN s ELSE SubSeq(s, 1, n)

\* the exact sequence of (key, value) pairs a range(-limit) iterator yields
IterRes(d, mn, mx, rt, rev, off, cnt) ==
  LET S   == {k \in DOMAIN d : InRange(k, mn, mx, rt)}
      srt == IF rev THEN SetToSortSeq(S, LAMBDA a, b : a > b)
                    ELSE SetToSortSeq(S, LAMBDA a, b : a < b)
      cut == IF off < 0 THEN <<>> ELSE Drop(srt, off)
      lim == IF cnt < 0 THEN cut ELSE Take(cut, cnt)
  IN [i \in 1..Len(lim) |-> <<lim[i], d[lim[i]]>>]

-------------------------------------------------------------------------------
(* Model-level sanity theorems (checked by MC_ZEngine).                        *)
TypeOK == /\ DOMAIN data \subseteq Pos
          /\ \A k \in DOMAIN data : data[k] \in Nat

\* an uncommitted batch is invisible: every read equals the read on `data`
\* (trivially true here by construction; the trace spec is what binds it).
\* a full forward scan and a full reverse scan enumerate the same pairs
ScanSymmetric ==
  LET f == IterRes(data, 0, 0, 0, FALSE, 0, -1)
      r == IterRes(data, 0, 0, 0, TRUE, 0, -1)
  IN /\ Len(f) = Cardinality(DOMAIN data)
     /\ Len(f) = Len(r)
     /\ \A i \in 1..Len(f) : f[i] = r[Len(f) + 1 - i]

\* offset/count paging concatenates to the full result
PagingComplete ==
  \A rev \in BOOLEAN :
    LET full == IterRes(data, 0, 0, 0, rev, 0, -1)
    IN \A n \in 1..2 :
         IterRes(data, 0, 0, 0, rev, 0, n) \o IterRes(data, 0, 0, 0, rev, n, -1) = full
=============================================================================
