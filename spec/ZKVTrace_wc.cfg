SPECIFICATION TSpec
CONSTANTS
  NKeys = 4
  Mut = "none"
  Policy = "wc"
POSTCONDITION AllConsumed
CHECK_DEADLOCK FALSE
