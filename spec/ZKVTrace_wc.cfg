SPECIFICATION TSpec
CONSTANTS
  NKeys = 4
  Policy = "wc"
POSTCONDITION AllConsumed
CHECK_DEADLOCK FALSE
