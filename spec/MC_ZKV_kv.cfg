SPECIFICATION SpecKV
CONSTANTS
  NKeys = 2
  Mut = "none"
  Policy = "wc"
  Subs = {1, 2}
  VIds = {2, 5}
  Times = {0, 1, 2, 3}
  Durs = {1, 2}
  RNow = 2
  MaxLen = 2
  MaxNum = 3
  FullKeys = {1}
  Dup = FALSE
  TCmds <- CmdsKV
INVARIANTS TypeOK ReadsChangeNothing CountsAgree ExpiredIsDead OverwriteClearsExpiry ModifyKeepsExpiry NewGenerationIsEmpty TTLIsRemaining LocalDeletion
CHECK_DEADLOCK FALSE
