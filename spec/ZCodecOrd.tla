------------------------------- MODULE ZCodecOrd -------------------------------
(* The order-preserving composite-key codec of ZanRedisDB (rockredis/           *)
(* memcmp_codec.go, bytes.go, number.go) and the key encoders built on it and   *)
(* on length-prefixed segments (t_table.go, t_collections.go, t_*.go) - property*)
(* C12, part ii.  Pure operators; the trace module evaluates them on every      *)
(* enumerated case.                                                             *)
(*                                                                              *)
(* An abstract tuple is a sequence of components; a component is a sequence of  *)
(* integers whose first element is the kind:                                    *)
(*   <<0>>            nil                                                       *)
(*   <<1, b1, .., bn>> the byte string b1..bn                                   *)
(*   <<3, r>>         the integer with rank r in the driver's ascending pool    *)
(*   <<5, r>>         the float with rank r (-0 and +0 share a rank)            *)
(* The kinds are ordered like the codec's type flags (nil < bytes < int <       *)
(* float).  An encoding is a sequence of byte values 0..255.                    *)
EXTENDS Integers, Sequences, FiniteSets

Min2(a, b) == IF a < b THEN a ELSE b

\* three-way lexicographic comparison of integer sequences (memcmp + shorter first)
CmpSeq(a, b) ==
  LET n == Min2(Len(a), Len(b))
      d == {i \in 1..n : a[i] # b[i]}
  IN IF d = {}
     THEN (IF Len(a) < Len(b) THEN -1 ELSE IF Len(a) > Len(b) THEN 1 ELSE 0)
     ELSE LET i == CHOOSE i \in d : \A j \in d : i <= j
          IN IF a[i] < b[i] THEN -1 ELSE 1

\* the order the codec promises on tuples: component by component; bytes bytewise with a
\* proper prefix first; numbers numerically; a tuple that is a proper prefix of another first
TupleOrder(x, y) ==
  LET n == Min2(Len(x), Len(y))
      d == {i \in 1..n : CmpSeq(x[i], y[i]) # 0}
  IN IF d = {}
     THEN (IF Len(x) < Len(y) THEN -1 ELSE IF Len(x) > Len(y) THEN 1 ELSE 0)
     ELSE LET i == CHOOSE i \in d : \A j \in d : i <= j
          IN CmpSeq(x[i], y[i])

IsBytes(s) == \A i \in 1..Len(s) : s[i] \in 0..255

\* dec(enc(x)) = x
RoundTrip(x, dec, derr) == derr = "" /\ dec = x

\* cmp(enc a, enc b) = TupleOrder(a, b); equal tuples have equal encodings and vice versa
\* (injectivity)
OrderPreserved(xa, ea, xb, eb) == CmpSeq(ea, eb) = TupleOrder(xa, xb)

\* range containment: a key lies in a [start, stop) (or closed [start, stop]) range iff the
\* range is one of those it belongs to (its collection, its table)
InRange(r, e) ==
  /\ CmpSeq(r.start, e) <= 0
  /\ IF r.closed THEN CmpSeq(e, r.stop) <= 0 ELSE CmpSeq(e, r.stop) < 0
Contained(ranges, own, e) ==
  \A r \in ranges : (r.id \in own) <=> InRange(r, e)
=============================================================================
