------------------------------ MODULE ZPersist ------------------------------
(* What one Ready does to the two places a data node keeps its raft log in:    *)
(* the raft storage the raft state machine reads (memory) and the WAL +        *)
(* snapshot files a restart rebuilds that storage from (node/raft.go           *)
(* processReady / persistRaftState, startRaft / replayWAL).  One operator per  *)
(* place (`MemEffect`, `WalEffect`), the restart image (`Image`) and the       *)
(* Ready shapes raft can hand out at a state (`Feasible`).  Order that matters *)
(* for a Ready with Snapshot AND Entries: the snapshot is applied first, then  *)
(* the entries are appended - the entries after the snapshot index survive.    *)
EXTENDS Naturals, Sequences

VARIABLES snapi, snapt,   \* raft storage: snapshot index / term ...
          ments,          \* ... and the terms of the entries snapi+1 .. snapi+Len(ments)
          recs,           \* WAL: entry records <<index, term>> in the order they were saved
          wsnaps,         \* WAL: snapshot markers in the order they were saved
          whs,            \* WAL: last hard state saved
          com, cur        \* raft's own commit index and term (what shapes a Ready can have)

pvars == <<snapi, snapt, ments, recs, wsnaps, whs, com, cur>>

HS0 == [t |-> 0, v |-> 0, c |-> 0]

PInit == /\ snapi = 0 /\ snapt = 0 /\ ments = <<>> /\ recs = <<>> /\ wsnaps = <<>> /\ whs = HS0
         /\ com = 0 /\ cur = 0

Last(si, es) == si + Len(es)

\* r: [si, st (0, 0 = no snapshot), first, terms (entries first .. first+Len-1), hs (BOOLEAN), hst, hsv, hsc]
HasSnap(r) == r.si > 0

\* the raft storage after the snapshot of r (a snapshot that is not newer is refused)
AfterSnap(r) == IF HasSnap(r) /\ r.si > snapi THEN [si |-> r.si, st |-> r.st, es |-> <<>>]
                ELSE [si |-> snapi, st |-> snapt, es |-> ments]

\* raft.MemoryStorage.Append: the new entries replace everything from their first index on
AppendTo(m, first, terms) ==
  IF Len(terms) = 0 THEN m
  ELSE [m EXCEPT !.es = SubSeq(m.es, 1, first - m.si - 1) \o terms]

MemEffect(r) == AppendTo(AfterSnap(r), r.first, r.terms)

\* a Ready raft can hand out here
Feasible(r) ==
  LET m == AfterSnap(r)
      n == Len(r.terms)
      l2 == IF n = 0 THEN Last(m.si, m.es) ELSE r.first + n - 1
  IN /\ HasSnap(r) => /\ r.si > com                    \* raft restores only above its commit index
                      /\ r.hs /\ r.hsc >= r.si         \* ... and then the commit index is the snapshot's at least
     /\ n > 0 => /\ r.first <= Last(m.si, m.es) + 1    \* no hole
                 /\ r.first > (IF HasSnap(r) THEN r.si ELSE com)  \* committed entries are never replaced
                 /\ \A j \in 1..n : r.terms[j] >= cur
                 /\ \A j \in 1..(n - 1) : r.terms[j] <= r.terms[j + 1]
     /\ r.hs => /\ r.hst >= cur /\ r.hsc >= com /\ r.hsc <= l2
                /\ \A j \in 1..n : r.terms[j] <= r.hst
     /\ HasSnap(r) \/ n > 0 \/ r.hs

PersistReady(r) ==
  /\ Feasible(r)
  /\ LET m == MemEffect(r)
     IN snapi' = m.si /\ snapt' = m.st /\ ments' = m.es
  /\ wsnaps' = IF HasSnap(r) THEN Append(wsnaps, [i |-> r.si, t |-> r.st]) ELSE wsnaps
  /\ recs' = recs \o [j \in 1..Len(r.terms) |-> [i |-> r.first + j - 1, t |-> r.terms[j]]]
  /\ whs' = IF r.hs THEN [t |-> r.hst, v |-> r.hsv, c |-> r.hsc] ELSE whs
  /\ com' = IF r.hs THEN r.hsc ELSE com
  /\ cur' = IF r.hs THEN r.hst ELSE IF Len(r.terms) > 0 /\ r.terms[Len(r.terms)] > cur THEN r.terms[Len(r.terms)] ELSE cur

\* ---- restart image -----------------------------------------------------------
\* wal.ValidSnapshotEntries: markers at or below the commit index of the last hard state;
\* LoadNewestAvailable: the newest of them (every marker has its file here)
ValidIdx == {j \in 1..Len(wsnaps) : wsnaps[j].i <= whs.c}
Picked == IF ValidIdx = {} THEN [i |-> 0, t |-> 0]
          ELSE LET j == CHOOSE j \in ValidIdx : \A k \in ValidIdx : wsnaps[k].i <= wsnaps[j].i IN wsnaps[j]

\* wal.ReadAll from snapshot index s: a record above s replaces everything from its index on
RECURSIVE ReadFrom(_, _, _)
ReadFrom(s, k, acc) ==
  IF k > Len(recs) THEN acc
  ELSE IF recs[k].i <= s THEN ReadFrom(s, k + 1, acc)
       ELSE ReadFrom(s, k + 1, SubSeq(acc, 1, recs[k].i - s - 1) \o <<recs[k].t>>)

Image == LET p == Picked IN [si |-> p.i, st |-> p.t, es |-> ReadFrom(p.i, 1, <<>>), hs |-> whs]
=============================================================================
