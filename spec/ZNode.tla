------------------------------- MODULE ZNode -------------------------------
(* One data node's persist / apply / acknowledge / snapshot / purge / restart pipeline.   *)
(*                                                                                        *)
(* Shaped after node/raft.go (serveChannels, processReady, persistRaftState,              *)
(* beginSnapshot, purgeFile, startRaft, replayWAL), node/node.go (applyCommits, applyAll, *)
(* applyEntries, maybeTriggerSnapshot, ProposeInternal/queueRequest), pkg/wait,           *)
(* node/raft_storage.go (SaveSnap = snapshot file, then WAL marker), snap/snapshotter.go  *)
(* (LoadNewestAvailable), wal.ValidSnapshotEntries (marker index <= durable commit),      *)
(* rockredis.go (Backup, purgeOldCheckpoint, Restore) and pkg/fileutil/purge.go.          *)
(*                                                                                        *)
(* Three interleaved processes, as in the code:                                           *)
(*   raft goroutine   TakeReady, Publish, WalSave, StorageAppend, RaftDone, Advance       *)
(*   apply goroutine  TakeBatch, ApplyEntry, Trigger, WaitDone, MaybeSnapshot(Checkpoint) *)
(*   snapshot goroutine (async part of beginSnapshot)                                     *)
(*                    CkptDone, CreateSnap, SaveSnapFile, WalSnapMarker, WalSync,         *)
(*                    Release, UpdateState, Compact                                       *)
(* plus PurgeWal / PurgeSnap / PurgeCkpt, Crash between any two steps, and Restart        *)
(* (RestartLoad: newest snapshot file that the WAL records and whose index <= durable     *)
(* commit, restore its checkpoint or clean the store; RestartReplay: WAL tail into raft). *)
(*                                                                                        *)
(* Ordering of publish and persist.  Until commit 8d8be68 processReady published the      *)
(* committed entries of a Ready to the apply loop BEFORE persistRaftState; in a 1-replica *)
(* group an entry is appended and committed in the same Ready, so a client was answered   *)
(* before the WAL write.  SafePublish = FALSE is that old order; it is kept as the SPEC    *)
(* MUTANT that documents why the guard is needed: MC_ZNode_single_acked.cfg refutes       *)
(* AckedDurable with it (Propose, TakeReady, Publish, TakeBatch, ApplyEntry, Trigger,     *)
(* Crash, RestartLoad, RestartReplay), and that counterexample is what stage isolate-s2   *)
(* of C06 replays on the real code with the hold-mode hooks.  SafePublish = TRUE is the    *)
(* FAITHFUL model of the code since 8d8be68 (a Ready whose committed entries are still    *)
(* unstable is persisted before it is published): MC_ZNode_single_safe.cfg,               *)
(* MC_ZNode_leader.cfg and MC_ZNode_follower.cfg use it and satisfy every property.       *)
(*                                                                                        *)
(* Crash model: process kill.  What a step wrote is on disk when the step is over.        *)
(*                                                                                        *)
(* Operations are abstract: op id i appends i to the store, so the store is the sequence  *)
(* of applied ids and "fold of a log prefix" is the prefix itself.  The value model       *)
(* (ZOps) enters only in the trace specifications.                                        *)
(*                                                                                        *)
(* Views (constant Role): "single" = 1-replica group (commit is local); "leader" /        *)
(* "follower" = one replica of a 3-replica group, the other two are environment: glog is  *)
(* the group-committed log.  A leader that crashed comes back as a follower whose         *)
(* persisted, uncommitted suffix is either adopted by the group (EnvAdopt) or truncated   *)
(* and replaced by the new leader's entries (TakeReady of a follower whose log differs    *)
(* from glog; WalSave then overwrites the WAL from there).  With Install = TRUE a         *)
(* follower may be sent a snapshot instead of entries: TakeReadySnap, InstPublish,        *)
(* InstPrepare (fetch the checkpoint), InstSnapFile, InstSnapMarker, InstWalSave,         *)
(* InstSyncDone1, InstRelease, InstRestore(Begin), with Crash between any two             *)
(* (MC_ZNode_install.cfg; property InstalledDurable).  Two switches separate the design   *)
(* from what the code does today: AtomicRestore (FALSE = files copied in place:           *)
(* MC_ZNode_install_torn.cfg refutes PurgeKeepsRestorable / Recoverable - known finding   *)
(* c06-torn-restore-blocks-engine-open) and InstLatestAfterSave (FALSE = the store's      *)
(* latest-snapshot index, which the checkpoint purge trusts, moves before the hard state  *)
(* is in the WAL: that is the code's order; it is safe as long as no checkpoint purge of  *)
(* a local backup falls between SaveSnap and wal.Save, which PurgePromptly = TRUE states  *)
(* (see the constant): MC_ZNode_install_code.cfg = the code's order + PurgePromptly holds  *)
(* every property; MC_ZNode_install_slowpurge.cfg drops the assumption and is refuted).   *)
(* Deliberate deviations: one snapshot goroutine at a time; at most one install; an       *)
(* install Ready carries no entries.                                                      *)
EXTENDS Integers, Sequences, FiniteSets, TLC

CONSTANTS MaxOps,      \* number of client operations
          MaxSnaps,    \* snapshots taken at most
          MaxCrashes,
          SnapEvery,   \* snapshot when appliedi - snapi >= SnapEvery
          KeepSnap,    \* snapshot files kept by the purge (code: at least 2)
          KeepCkpt,    \* checkpoints kept (KeepBackup)
          ChanCap,     \* commitC capacity
          MaxTimeouts, \* client-side timeouts explored
          Role,        \* "single" | "leader" | "follower"
          Persistent,  \* TRUE: the engine's own files survive a crash (pebble); FALSE: mem
          SafePublish, \* TRUE: the code since 8d8be68 - hand out only entries already in the WAL;
                       \* FALSE: the old order (spec mutant, refuted by AckedDurable)
          Install,     \* TRUE: a follower may be sent a snapshot instead of entries (install path)
          AtomicRestore, \* TRUE: restoring a checkpoint into the engine directory is atomic (the design);
                       \* FALSE: the code - files are copied in place, a crash in between leaves a torn
                       \* directory that the next start cannot open (known finding
                       \* c06-torn-restore-blocks-engine-open: refuted by Recoverable)
          InstLatestAfterSave, \* install: TRUE = the store learns the new "latest snapshot index" (which the
                       \* checkpoint purge trusts) only when the hard state that makes the snapshot usable is
                       \* in the WAL (the design); FALSE = the code's order in persistRaftState
                       \* (UpdateSnapshotState between SaveSnap and wal.Save): MC_ZNode_install_code.cfg
                       \* refutes PurgeKeepsRestorable with it (suspicion, not replayed on real code)
          PurgePromptly, \* TRUE: the checkpoint purge that follows a local backup has run before a later
                       \* install can finish fetching its checkpoint.  Mechanism in the code: rockredis
                       \* checkpointDirLock - backupLoop holds it while it writes the checkpoint, the apply
                       \* goroutine starts that backup BEFORE it can turn to the install, PrepareSnapshot's
                       \* IsLocalBackupOK needs the read lock and so waits for the whole backup, and the purge
                       \* is the next statement of backupLoop (it re-takes the lock as soon as that short
                       \* reader is gone), long before the install's peer check, file copy and two fsyncs are
                       \* over.  Observed on real code (crashsim -kind instpurge): backup done 35.389, purge at
                       \* once with the old latest index, install transfer done 35.390.  A scheduling
                       \* assumption, not a guarantee: with FALSE (MC_ZNode_install_slowpurge.cfg) and the
                       \* code's order InstLatestAfterSave = FALSE TLC refutes PurgeKeepsRestorable.
          Mutant       \* "" = the design; otherwise one guard is removed (self-test)

VARIABLES
  nextId, pend, acked, ackOk, ackCnt, failed,          \* clients and the waiter table
  propQ, rlog, commit, handed, rdy, rseq, pcR, role,   \* raft goroutine (volatile)
  glog,                                                \* group-committed log (environment)
  chan, pcA, cur, applied, snapi, store, lastIdx,      \* commitC and the apply goroutine
  pcS, sIdx, sImg, latestSnap, released, nsnaps, purgeCk, \* snapshot goroutine
  walEnts, walCommit, walSnaps, walLow, snapFiles, ckpt, torn,  \* durable
  instApplied, ninst,                                   \* install path: snapshot the store was restored from; count
  up, crashes, restarts, failedRestart                 \* life cycle

vars == <<nextId, pend, acked, ackOk, ackCnt, failed, propQ, rlog, commit, handed, rdy, rseq,
          pcR, role, glog, chan, pcA, cur, applied, snapi, store, lastIdx, pcS, sIdx, sImg,
          latestSnap, released, nsnaps, purgeCk, walEnts, walCommit, walSnaps, walLow,
          snapFiles, ckpt, torn, instApplied, ninst, up, crashes, restarts, failedRestart>>

clientVars == <<nextId, pend, acked, ackOk, ackCnt, failed>>
raftVars   == <<propQ, rlog, commit, handed, rdy, rseq, pcR, role, ninst>>
applyVars  == <<chan, pcA, cur, applied, snapi, store, lastIdx, instApplied>>
snapVars   == <<pcS, sIdx, sImg, latestSnap, released, nsnaps, purgeCk>>
durVars    == <<walEnts, walCommit, walSnaps, walLow, snapFiles, ckpt, torn>>
lifeVars   == <<up, crashes, restarts, failedRestart>>

Range(s) == {s[i] : i \in 1..Len(s)}
Min(a, b) == IF a < b THEN a ELSE b
Max(a, b) == IF a > b THEN a ELSE b
MaxOf(S) == CHOOSE x \in S : \A y \in S : y <= x
MinOf(S) == CHOOSE x \in S : \A y \in S : y >= x
NoRdy == [to |-> 0, lo |-> 1, hi |-> 0, c |-> 0, r |-> 0, snap |-> 0]
NoBatch == [lo |-> 1, hi |-> 0, done |-> FALSE, r |-> 0, i |-> 1, snap |-> 0, prep |-> FALSE, done1 |-> FALSE]
IsPrefix(a, b) == Len(a) <= Len(b) /\ SubSeq(b, 1, Len(a)) = a
(* length of the common prefix of two sequences *)
CP(a, b) == LET n == Min(Len(a), Len(b))
                S == {i \in 0..n : SubSeq(a, 1, i) = SubSeq(b, 1, i)}
            IN MaxOf(S)
Single == Role = "single"

Init ==
  /\ nextId = 1 /\ pend = {} /\ acked = <<>> /\ ackOk = TRUE /\ failed = {}
  /\ ackCnt = [i \in 1..MaxOps |-> 0]
  /\ propQ = <<>> /\ rlog = <<>> /\ commit = 0 /\ handed = 0 /\ rdy = NoRdy /\ rseq = 0
  /\ pcR = "idle" /\ role = Role /\ glog = <<>>
  /\ chan = <<>> /\ pcA = "idle" /\ cur = NoBatch /\ applied = 0 /\ snapi = 0 /\ store = <<>>
  /\ lastIdx = 0
  /\ pcS = "idle" /\ sIdx = 0 /\ sImg = <<>> /\ latestSnap = 0 /\ released = 0 /\ nsnaps = 0
  /\ purgeCk = FALSE
  /\ walEnts = <<>> /\ walCommit = 0 /\ walSnaps = {} /\ walLow = 1 /\ snapFiles = {}
  /\ ckpt = <<>>     \* a function from snapshot index to store image; <<>> = empty function
  /\ torn = FALSE /\ instApplied = 0 /\ ninst = 0
  /\ up = TRUE /\ crashes = 0 /\ restarts = 0 /\ failedRestart = FALSE

----------------------------------------------------------------------------
(* Clients: ProposeInternal registers the waiter, then proposes (only enqueues). *)
Propose ==
  /\ up /\ nextId <= MaxOps
  /\ pend' = pend \cup {nextId}
  /\ nextId' = nextId + 1
  /\ IF role = "follower"
     THEN \* forwarded to the leader; the group commits it (durable on the other two)
          /\ glog' = Append(glog, nextId) /\ UNCHANGED propQ
     ELSE /\ propQ' = Append(propQ, nextId) /\ UNCHANGED glog
  /\ UNCHANGED <<acked, ackOk, ackCnt, failed, rlog, commit, handed, rdy, rseq, pcR, role, ninst>>
  /\ UNCHANGED <<applyVars, snapVars, durVars, lifeVars>>

(* after a leader crash the group goes on without this node: entries of its log that were  *)
(* persisted but not yet group-committed are committed by the new leader (truncation of    *)
(* such a suffix is not modelled, see the header)                                          *)
EnvAdopt ==
  /\ up /\ role = "follower" /\ pcR = "idle" /\ Len(rlog) > Len(glog) /\ IsPrefix(glog, rlog)
  /\ glog' = rlog
  /\ UNCHANGED <<clientVars, raftVars, applyVars, snapVars, durVars, lifeVars>>

(* queueRequest: context deadline -> w.Trigger(id, err): the waiter goes away unanswered *)
Timeout(id) ==
  /\ up /\ id \in pend /\ Cardinality(failed) < MaxTimeouts
  /\ pend' = pend \ {id} /\ failed' = failed \cup {id}
  /\ UNCHANGED <<nextId, acked, ackOk, ackCnt>>
  /\ UNCHANGED <<raftVars, glog, applyVars, snapVars, durVars, lifeVars>>

----------------------------------------------------------------------------
(* raft goroutine *)

(* StepNode: drains the proposal queue into the (unstable) log, moves the commit index,  *)
(* hands out the next committed entries if the apply channel has room.                   *)
TakeReady ==
  /\ up /\ pcR = "idle"
  /\ \E recv \in BOOLEAN, k \in 0..MaxOps :
       LET rl == IF role = "follower"
                 THEN \* an append from the (new) leader: missing entries arrive; where the local log
                      \* differs from the group's (an uncommitted suffix of a deposed leader) it is
                      \* truncated and replaced
                      IF recv /\ ((~IsPrefix(rlog, glog) /\ ~IsPrefix(glog, rlog)) \/ (Len(glog) > Len(rlog) /\ IsPrefix(rlog, glog)))
                      THEN glog ELSE rlog
                 ELSE rlog \o propQ
           cmax == CASE role = "single"   -> Len(rl)
                     [] role = "leader"   -> Len(walEnts)       \* persisted and sent earlier
                     [] role = "follower" -> CP(rl, glog)
           c == IF role = "single" THEN cmax ELSE Max(commit, Min(k, cmax))
           lim == IF SafePublish THEN Min(c, CP(walEnts, rl)) ELSE c
           hi == IF Len(chan) < ChanCap THEN lim ELSE handed
       IN /\ (role = "single" => k = 0 /\ recv)
          /\ (role = "leader" => recv)
          /\ (role # "single" => k >= commit /\ k <= cmax)
          /\ ~IsPrefix(rl, walEnts) \/ hi > handed \/ c > walCommit   \* hasUpdate
          /\ rlog' = rl /\ commit' = c /\ propQ' = <<>>
          /\ rseq' = rseq + 1
          /\ rdy' = [to |-> Len(rl), lo |-> handed + 1, hi |-> hi, c |-> c, r |-> rseq + 1, snap |-> 0]
          /\ pcR' = IF hi > handed THEN "pub" ELSE "save"
          /\ glog' = IF role = "leader" /\ c > Len(glog) THEN SubSeq(rl, 1, c) ELSE glog
  /\ UNCHANGED <<handed, role, ninst, clientVars, applyVars, snapVars, durVars, lifeVars>>

(* processReady: publishEntries(rd.CommittedEntries, ...) -> commitC *)
Publish ==
  /\ up /\ pcR = "pub"
  /\ chan' = Append(chan, [NoBatch EXCEPT !.lo = rdy.lo, !.hi = rdy.hi, !.r = rdy.r, !.i = rdy.lo])
  /\ pcR' = "save"
  /\ UNCHANGED <<propQ, rlog, commit, handed, rdy, rseq, role, ninst, glog, clientVars,
                 pcA, cur, applied, snapi, store, lastIdx, instApplied, snapVars, durVars, lifeVars>>

(* persistRaftState: wal.Save(hardstate, entries) *)
WalSave ==
  /\ up /\ pcR = "save"
  /\ LET new == SubSeq(rlog, 1, rdy.to) IN
       walEnts' = IF IsPrefix(new, walEnts) THEN walEnts     \* nothing new
                  ELSE new     \* appended; or, where it differs, overwritten from there (WAL read rule)
  /\ walCommit' = rdy.c
  /\ pcR' = "append"
  /\ UNCHANGED <<propQ, rlog, commit, handed, rdy, rseq, role, ninst, glog, clientVars, applyVars,
                 snapVars, walSnaps, walLow, snapFiles, ckpt, torn, lifeVars>>

(* raftStorage.Append(rd.Entries): memory only *)
StorageAppend ==
  /\ up /\ pcR = "append" /\ pcR' = "done"
  /\ UNCHANGED <<propQ, rlog, commit, handed, rdy, rseq, role, ninst, glog, clientVars, applyVars,
                 snapVars, durVars, lifeVars>>

(* raftDone <- struct{}{} : the batch published by this Ready may now trigger a snapshot *)
RaftDone ==
  /\ up /\ pcR = "done" /\ pcR' = "adv"
  /\ chan' = [j \in 1..Len(chan) |-> IF chan[j].r = rdy.r THEN [chan[j] EXCEPT !.done = TRUE] ELSE chan[j]]
  /\ cur' = IF cur.r = rdy.r /\ rdy.r > 0 THEN [cur EXCEPT !.done = TRUE] ELSE cur
  /\ UNCHANGED <<propQ, rlog, commit, handed, rdy, rseq, role, ninst, glog, clientVars,
                 pcA, applied, snapi, store, lastIdx, instApplied, snapVars, durVars, lifeVars>>

Advance ==
  /\ up /\ pcR = "adv" /\ pcR' = "idle"
  /\ handed' = Max(handed, Max(rdy.hi, rdy.snap))
  /\ rdy' = NoRdy
  /\ UNCHANGED <<propQ, rlog, commit, rseq, role, ninst, glog, clientVars, applyVars, snapVars,
                 durVars, lifeVars>>

----------------------------------------------------------------------------
(* apply goroutine *)

TakeBatch ==
  /\ up /\ pcA = "idle" /\ chan # <<>>
  /\ cur' = Head(chan) /\ chan' = Tail(chan)
  /\ pcA' = IF Head(chan).snap > 0 THEN "iprep" ELSE "apply"
  /\ UNCHANGED <<applied, snapi, store, lastIdx, instApplied, clientVars, raftVars, glog, snapVars,
                 durVars, lifeVars>>

(* applyEntries: entries at or below appliedi are skipped; the others applied in order *)
ApplyEntry ==
  /\ up /\ pcA = "apply" /\ cur.i <= cur.hi
  /\ IF cur.i <= applied
     THEN /\ cur' = [cur EXCEPT !.i = @ + 1] /\ UNCHANGED <<store, applied, pcA>>
     ELSE /\ store' = Append(store, rlog[cur.i])
          /\ applied' = cur.i
          /\ pcA' = "trig" /\ UNCHANGED cur
  /\ UNCHANGED <<chan, snapi, lastIdx, instApplied, clientVars, raftVars, glog, snapVars, durVars, lifeVars>>

(* w.Trigger(reqID, result) from ApplyRaftRequest / CommitBatch: answers the waiter of    *)
(* exactly the id that was just applied, if it is still registered, and removes it.       *)
TrigId == IF Mutant = "WrongId" /\ rlog[applied] + 1 \in pend THEN rlog[applied] + 1 ELSE rlog[applied]
Trigger ==
  /\ up /\ pcA = "trig"
  /\ LET id == TrigId IN
       IF id \in pend
       THEN /\ acked' = Append(acked, id)
            /\ ackCnt' = [ackCnt EXCEPT ![id] = @ + 1]
            /\ ackOk' = (ackOk /\ id = rlog[applied] /\ id \in Range(store))
            /\ pend' = IF Mutant = "DoubleTrigger" THEN pend ELSE pend \ {id}
       ELSE UNCHANGED <<acked, ackCnt, ackOk, pend>>
  /\ cur' = [cur EXCEPT !.i = @ + 1]
  /\ pcA' = "apply"
  /\ UNCHANGED <<nextId, failed, chan, applied, snapi, store, lastIdx, instApplied, raftVars, glog, snapVars,
                 durVars, lifeVars>>

(* self-test mutant: answer as soon as the entry is handed to the apply loop *)
EarlyTrigger ==
  /\ Mutant = "AckBeforeApply"
  /\ up /\ pcA = "apply" /\ cur.i <= cur.hi /\ cur.i > applied /\ rlog[cur.i] \in pend
  /\ LET id == rlog[cur.i] IN
       /\ acked' = Append(acked, id)
       /\ ackCnt' = [ackCnt EXCEPT ![id] = @ + 1]
       /\ ackOk' = (ackOk /\ id \in Range(store))
       /\ pend' = pend \ {id}
  /\ UNCHANGED <<nextId, failed, applyVars, raftVars, glog, snapVars, durVars, lifeVars>>

BatchApplied ==
  /\ up /\ pcA = "apply" /\ cur.i > cur.hi
  /\ pcA' = "wait"
  /\ UNCHANGED <<chan, cur, applied, snapi, store, lastIdx, instApplied, clientVars, raftVars, glog,
                 snapVars, durVars, lifeVars>>

(* applyCommits: <-ent.raftDone, then maybeTriggerSnapshot: beginSnapshot's synchronous    *)
(* part (GetSnapshot = Backup + WaitReady) fixes the image at (appliedt, appliedi).       *)
WaitDoneAndMaybeSnapshot ==
  /\ up /\ pcA = "wait" /\ cur.done
  /\ pcA' = "idle" /\ cur' = NoBatch
  /\ IF /\ applied - snapi >= SnapEvery /\ applied > lastIdx
        /\ pcS = "idle" /\ nsnaps < MaxSnaps
     THEN /\ pcS' = "copy" /\ sIdx' = applied /\ sImg' = store /\ snapi' = applied
          /\ nsnaps' = nsnaps + 1
     ELSE UNCHANGED <<pcS, sIdx, sImg, snapi, nsnaps>>
  /\ UNCHANGED <<chan, applied, store, lastIdx, instApplied, latestSnap, released, purgeCk, clientVars,
                 raftVars, glog, durVars, lifeVars>>

----------------------------------------------------------------------------
(* snapshot goroutine: the go func() of beginSnapshot *)
SnapStep(from, to) == up /\ pcS = from /\ pcS' = to

CkptDone ==      \* sn.GetData(): the checkpoint directory is complete; backupLoop then purges
  /\ SnapStep("copy", "create")
  /\ ckpt' = [x \in DOMAIN ckpt \cup {sIdx} |-> IF x = sIdx THEN sImg ELSE ckpt[x]]
  /\ purgeCk' = TRUE
  /\ UNCHANGED <<sIdx, sImg, latestSnap, released, nsnaps, walEnts, walCommit, walSnaps,
                 walLow, snapFiles, torn, clientVars, raftVars, glog, applyVars, lifeVars>>

CreateSnap ==    \* raftStorage.CreateSnapshot (memory)
  /\ SnapStep("create", "file")
  /\ UNCHANGED <<sIdx, sImg, latestSnap, released, nsnaps, purgeCk, durVars, clientVars,
                 raftVars, glog, applyVars, lifeVars>>

(* raftPersistStorage.SaveSnap: the snapshot file first, then the WAL marker *)
SaveSnapFile ==
  /\ IF Mutant = "MarkerBeforeFile" THEN SnapStep("marker2", "sync") ELSE SnapStep("file", "marker")
  /\ snapFiles' = snapFiles \cup {sIdx}
  /\ UNCHANGED <<sIdx, sImg, latestSnap, released, nsnaps, purgeCk, walEnts, walCommit,
                 walSnaps, walLow, ckpt, torn, clientVars, raftVars, glog, applyVars, lifeVars>>

WalSnapMarker ==
  /\ IF Mutant = "MarkerBeforeFile" THEN SnapStep("file", "marker2") ELSE SnapStep("marker", "sync")
  /\ walSnaps' = walSnaps \cup {sIdx}
  /\ UNCHANGED <<sIdx, sImg, latestSnap, released, nsnaps, purgeCk, walEnts, walCommit,
                 walLow, snapFiles, ckpt, torn, clientVars, raftVars, glog, applyVars, lifeVars>>

WalSync ==       \* persistStorage.Sync(): nothing to do under the process-kill model
  /\ SnapStep("sync", "release")
  /\ UNCHANGED <<sIdx, sImg, latestSnap, released, nsnaps, purgeCk, durVars, clientVars,
                 raftVars, glog, applyVars, lifeVars>>

Release ==       \* persistStorage.Release(snap): WAL files below the snapshot are unlocked
  /\ IF Mutant = "ReleaseBeforeMarker" THEN up /\ pcS = "file" /\ released < sIdx /\ pcS' = pcS
                                       ELSE SnapStep("release", "state")
  /\ released' = sIdx
  /\ UNCHANGED <<sIdx, sImg, latestSnap, nsnaps, purgeCk, durVars, clientVars,
                 raftVars, glog, applyVars, lifeVars>>

UpdateState ==   \* ds.UpdateSnapshotState -> store.SetLatestSnapIndex
  /\ SnapStep("state", "compact")
  /\ latestSnap' = sIdx
  /\ UNCHANGED <<sIdx, sImg, released, nsnaps, purgeCk, durVars, clientVars,
                 raftVars, glog, applyVars, lifeVars>>

Compact ==       \* raftStorage.Compact (memory log)
  /\ SnapStep("compact", "idle")
  /\ UNCHANGED <<sIdx, sImg, latestSnap, released, nsnaps, purgeCk, durVars, clientVars,
                 raftVars, glog, applyVars, lifeVars>>

----------------------------------------------------------------------------
(* install path of a follower: the leader sends a snapshot instead of entries (the follower  *)
(* is behind the leader's compaction point).  node/raft.go processReady with a non-empty     *)
(* rd.Snapshot and node/node.go applySnapshot:                                              *)
(*   raft:  publish (snapshot) ... wait for the transfer result                             *)
(*   apply: PrepareSnapshot = fetch the leader's checkpoint (apply.snapshot.prepared)       *)
(*   raft:  SaveSnap = snapshot file, WAL marker (snap.file / persist.snap); wal.Save       *)
(*          (persist.wal); Sync; raftDone; raftStorage.ApplySnapshot; Release               *)
(*          (snap.install.released); raftDone; Advance                                      *)
(*   apply: after the first raftDone RestoreFromSnapshot (apply.snapshot.restored), then    *)
(*          the second raftDone as for any batch.                                           *)
InstStep(from, to) == up /\ pcR = from /\ pcR' = to

TakeReadySnap ==
  /\ Install /\ up /\ role = "follower" /\ pcR = "idle" /\ ninst < 1 /\ Len(chan) < ChanCap
  /\ \E si \in (commit + 1)..Len(glog) :
       /\ rlog' = SubSeq(glog, 1, si)      \* raft restores only forward: si > commit
       /\ commit' = si
       /\ rseq' = rseq + 1
       /\ rdy' = [to |-> si, lo |-> handed + 1, hi |-> handed, c |-> si, r |-> rseq + 1, snap |-> si]
  /\ ninst' = ninst + 1 /\ pcR' = "ipub"
  /\ UNCHANGED <<propQ, handed, role, glog, clientVars, applyVars, snapVars, durVars, lifeVars>>

InstPublish ==
  /\ InstStep("ipub", "iwait")
  /\ chan' = Append(chan, [NoBatch EXCEPT !.lo = rdy.lo, !.hi = rdy.hi, !.r = rdy.r, !.i = rdy.lo, !.snap = rdy.snap])
  /\ UNCHANGED <<propQ, rlog, commit, handed, rdy, rseq, role, ninst, glog, clientVars,
                 pcA, cur, applied, snapi, store, lastIdx, instApplied, snapVars, durVars, lifeVars>>

(* apply goroutine: the checkpoint of the leader's snapshot is copied into the local backup dir *)
InstPrepare ==
  /\ up /\ pcA = "iprep"
  /\ pcS # "copy"                 \* checkpointDirLock: IsLocalBackupOK waits for a running local backup
  /\ (PurgePromptly => ~purgeCk)  \* ... and that backup's purge has run as well (scheduling assumption)
  /\ ckpt' = [x \in DOMAIN ckpt \cup {cur.snap} |-> IF x = cur.snap THEN SubSeq(glog, 1, cur.snap) ELSE ckpt[x]]
  /\ cur' = [cur EXCEPT !.prep = TRUE]
  /\ pcA' = IF Mutant = "RestoreBeforePersist" THEN "irestore" ELSE "iwait1"
  /\ UNCHANGED <<chan, applied, snapi, store, lastIdx, instApplied, clientVars, raftVars, glog, snapVars,
                 walEnts, walCommit, walSnaps, walLow, snapFiles, torn, lifeVars>>

InstSnapFile ==      \* after applySnapshotTransferResult
  /\ InstStep("iwait", "imark") /\ cur.snap = rdy.snap /\ cur.prep
  /\ snapFiles' = snapFiles \cup {rdy.snap}
  /\ UNCHANGED <<propQ, rlog, commit, handed, rdy, rseq, role, ninst, glog, clientVars, applyVars, snapVars,
                 walEnts, walCommit, walSnaps, walLow, ckpt, torn, lifeVars>>

InstSnapMarker ==    \* WAL.SaveSnapshot + UpdateSnapshotState
  /\ InstStep("imark", "isave")
  /\ walSnaps' = walSnaps \cup {rdy.snap}
  /\ latestSnap' = IF InstLatestAfterSave THEN latestSnap ELSE rdy.snap
  /\ UNCHANGED <<propQ, rlog, commit, handed, rdy, rseq, role, ninst, glog, clientVars, applyVars,
                 pcS, sIdx, sImg, released, nsnaps, purgeCk,
                 walEnts, walCommit, walLow, snapFiles, ckpt, torn, lifeVars>>

InstWalSave ==       \* wal.Save(hard state with commit = snapshot index); what lies below it is history
  /\ InstStep("isave", "isync")
  /\ walEnts' = SubSeq(rlog, 1, rdy.to) /\ walCommit' = rdy.c /\ walLow' = Max(walLow, rdy.snap + 1)
  /\ latestSnap' = rdy.snap
  /\ UNCHANGED <<propQ, rlog, commit, handed, rdy, rseq, role, ninst, glog, clientVars, applyVars,
                 pcS, sIdx, sImg, released, nsnaps, purgeCk,
                 walSnaps, snapFiles, ckpt, torn, lifeVars>>

InstSyncDone1 ==     \* persistStorage.Sync(); raftDone <- : the apply loop may restore now
  /\ InstStep("isync", "irel")
  /\ cur' = IF cur.snap = rdy.snap THEN [cur EXCEPT !.done1 = TRUE] ELSE cur
  /\ UNCHANGED <<propQ, rlog, commit, handed, rdy, rseq, role, ninst, glog, clientVars,
                 chan, pcA, applied, snapi, store, lastIdx, instApplied, snapVars, durVars, lifeVars>>

InstRelease ==       \* raftStorage.ApplySnapshot (memory) + persistStorage.Release
  /\ InstStep("irel", "done")
  /\ released' = Max(released, rdy.snap)
  /\ UNCHANGED <<propQ, rlog, commit, handed, rdy, rseq, role, ninst, glog, clientVars, applyVars,
                 pcS, sIdx, sImg, latestSnap, nsnaps, purgeCk, durVars, lifeVars>>

(* apply goroutine: RestoreFromSnapshot copies the checkpoint into the engine directory.  *)
(* In the code that is not atomic (AtomicRestore = FALSE): a crash in between leaves a     *)
(* torn directory.                                                                         *)
InstRestoreBegin ==
  /\ ~AtomicRestore /\ up /\ ~torn
  /\ ((pcA = "iwait1" /\ cur.done1) \/ pcA = "irestore")
  /\ torn' = TRUE /\ pcA' = "irestore2"
  /\ UNCHANGED <<chan, cur, applied, snapi, store, lastIdx, instApplied, clientVars, raftVars, glog, snapVars,
                 walEnts, walCommit, walSnaps, walLow, snapFiles, ckpt, lifeVars>>
InstRestore ==
  /\ up
  /\ IF AtomicRestore THEN ((pcA = "iwait1" /\ cur.done1) \/ pcA = "irestore") ELSE pcA = "irestore2"
  /\ cur.snap \in DOMAIN ckpt
  /\ store' = ckpt[cur.snap] /\ applied' = cur.snap /\ snapi' = cur.snap /\ instApplied' = cur.snap
  /\ torn' = FALSE
  /\ pcA' = "apply"
  /\ UNCHANGED <<chan, cur, lastIdx, clientVars, raftVars, glog, snapVars,
                 walEnts, walCommit, walSnaps, walLow, snapFiles, ckpt, lifeVars>>

----------------------------------------------------------------------------
(* purges *)

(* fileutil.PurgeFile on the WAL directory: removes unlocked (released) segments; modelled *)
(* at the finest granularity: everything below the released index may go, and with it the *)
(* snapshot markers that lie below it.                                                     *)
PurgeWal ==
  /\ up /\ walLow < released
  /\ walLow' = released
  /\ walSnaps' = {m \in walSnaps : m >= released}
  /\ UNCHANGED <<walEnts, walCommit, snapFiles, ckpt, torn, clientVars, raftVars, glog, applyVars,
                 snapVars, lifeVars>>

(* fileutil.PurgeFile on the snapshot directory: keeps the KeepSnap newest file names *)
PurgeSnap ==
  /\ up /\ Cardinality(snapFiles) > KeepSnap
  /\ snapFiles' = snapFiles \ {MinOf(snapFiles)}
  /\ UNCHANGED <<walEnts, walCommit, walSnaps, walLow, ckpt, torn, clientVars, raftVars, glog,
                 applyVars, snapVars, lifeVars>>

(* rockredis purgeOldCheckpoint(keepNum, dir, latestSnapIndex), run by backupLoop after a  *)
(* backup and by Restore: the oldest checkpoint goes only if the one keepNum places later  *)
(* is still below the latest snapshot index recorded by raft.                              *)
SortedCk == LET S == DOMAIN ckpt
                F[T \in SUBSET S] == IF T = {} THEN <<>> ELSE <<MinOf(T)>> \o F[T \ {MinOf(T)}]
            IN F[S]
PurgeCkpt ==
  /\ up /\ purgeCk
  /\ purgeCk' = FALSE
  /\ LET L == SortedCk IN
       IF /\ Len(L) > KeepCkpt
          /\ (Mutant = "PurgeCkptIgnoresLatest" \/ L[1 + KeepCkpt] < latestSnap)
       THEN ckpt' = [x \in DOMAIN ckpt \ {L[1]} |-> ckpt[x]]
       ELSE UNCHANGED ckpt
  /\ UNCHANGED <<walEnts, walCommit, walSnaps, walLow, snapFiles, torn, clientVars, raftVars, glog,
                 applyVars, pcS, sIdx, sImg, latestSnap, released, nsnaps, lifeVars>>

----------------------------------------------------------------------------
(* crash and restart *)

Crash ==
  /\ up /\ crashes < MaxCrashes
  /\ up' = FALSE /\ crashes' = crashes + 1
  /\ failed' = failed \cup pend /\ pend' = {}
  /\ propQ' = <<>> /\ rlog' = <<>> /\ commit' = 0 /\ handed' = 0 /\ rdy' = NoRdy
  /\ pcR' = "down" /\ pcA' = "down" /\ pcS' = "down"
  /\ chan' = <<>> /\ cur' = NoBatch /\ applied' = 0 /\ snapi' = 0 /\ lastIdx' = 0
  /\ store' = IF Persistent THEN store ELSE <<>>
  /\ instApplied' = 0
  /\ sIdx' = 0 /\ sImg' = <<>> /\ latestSnap' = 0 /\ released' = 0 /\ purgeCk' = FALSE
  /\ role' = IF role = "leader" THEN "follower" ELSE role
  /\ UNCHANGED <<nextId, acked, ackOk, ackCnt, rseq, ninst, glog, nsnaps, durVars, restarts, failedRestart>>

(* startRaft: ValidSnapshotEntries + LoadNewestAvailable *)
ValidSnaps == {s \in snapFiles : s \in walSnaps /\ s <= walCommit}
ChosenSnap == IF ValidSnaps = {} THEN 0 ELSE MaxOf(ValidSnaps)
(* what a restart needs: the chosen snapshot's checkpoint, and every WAL entry after it *)
CanRestart == LET s == ChosenSnap IN
                /\ (s > 0 => s \in DOMAIN ckpt)
                /\ walLow <= s + 1
                /\ ~torn        \* NewKVStore opens the engine directory before startRaft restores anything

RestartLoad ==
  /\ ~up /\ pcR = "down" /\ ~failedRestart
  /\ LET s == ChosenSnap IN
       IF ~CanRestart
       THEN /\ failedRestart' = TRUE
            /\ UNCHANGED <<store, applied, snapi, latestSnap, released, pcR, purgeCk>>
       ELSE /\ store' = IF Mutant = "SkipRestore" /\ Persistent THEN store
                        ELSE IF s = 0 THEN <<>> ELSE ckpt[s]
            /\ applied' = s /\ snapi' = s /\ latestSnap' = s /\ released' = s
            /\ purgeCk' = (s > 0)
            /\ pcR' = "replay"
            /\ UNCHANGED failedRestart
  /\ UNCHANGED <<clientVars, propQ, rlog, commit, handed, rdy, rseq, role, ninst, glog, chan, pcA, cur,
                 lastIdx, instApplied, pcS, sIdx, sImg, nsnaps, durVars, up, crashes, restarts>>

(* replayWAL: hard state and entries into raft storage; raft's applied cursor = snapshot *)
ReplayFrom == IF Mutant = "ReplaySkipsOne" THEN applied + 1 ELSE applied
RestartReplay ==
  /\ ~up /\ pcR = "replay"
  /\ rlog' = walEnts /\ commit' = walCommit /\ handed' = Min(ReplayFrom, Len(walEnts))
  /\ lastIdx' = Len(walEnts)
  /\ up' = TRUE /\ restarts' = restarts + 1
  /\ pcR' = "idle" /\ pcA' = "idle" /\ pcS' = "idle"
  /\ UNCHANGED <<clientVars, propQ, rdy, rseq, role, ninst, glog, chan, cur, applied, snapi, store, instApplied,
                 sIdx, sImg, latestSnap, released, nsnaps, purgeCk, durVars, crashes, failedRestart>>

----------------------------------------------------------------------------
Next ==
  \/ Propose \/ (\E id \in 1..MaxOps : Timeout(id)) \/ EnvAdopt
  \/ TakeReady \/ Publish \/ WalSave \/ StorageAppend \/ RaftDone \/ Advance
  \/ TakeBatch \/ ApplyEntry \/ Trigger \/ EarlyTrigger \/ BatchApplied \/ WaitDoneAndMaybeSnapshot
  \/ CkptDone \/ CreateSnap \/ SaveSnapFile \/ WalSnapMarker \/ WalSync \/ Release
  \/ UpdateState \/ Compact
  \/ PurgeWal \/ PurgeSnap \/ PurgeCkpt
  \/ TakeReadySnap \/ InstPublish \/ InstPrepare \/ InstSnapFile \/ InstSnapMarker \/ InstWalSave
  \/ InstSyncDone1 \/ InstRelease \/ InstRestoreBegin \/ InstRestore
  \/ Crash \/ RestartLoad \/ RestartReplay

Spec == Init /\ [][Next]_vars

----------------------------------------------------------------------------
(* Properties *)

(* a restart never needs manual repair *)
Recoverable == ~failedRestart
(* ... in every state, not only the ones a crash budget reaches *)
PurgeKeepsRestorable == CanRestart

(* the store is exactly the applied prefix of the log: nothing phantom, nothing twice,     *)
(* nothing skipped, in order                                                               *)
NoPhantom == up => store = SubSeq(rlog, 1, applied)

CaughtUp == /\ up /\ pcR = "idle" /\ pcA = "idle" /\ chan = <<>> /\ propQ = <<>>
            /\ applied = Len(rlog)
            /\ (role # "single" => IsPrefix(glog, rlog))
(* after restart and replay (and, in a 3-replica group, catching up with the group) every  *)
(* acknowledged operation is in the store                                                  *)
AckedDurable == (restarts > 0 /\ CaughtUp) => Range(acked) \subseteq Range(store)
(* in a 3-replica group an answer is only given for a group-committed entry *)
AckedCommitted == (Role # "single") => Range(acked) \subseteq Range(glog)

(* a follower serves the data of an installed snapshot only when that snapshot's file, WAL   *)
(* marker and commit index are durable (it "never serves data beyond its durable commit")    *)
InstalledDurable == (up /\ instApplied > 0) =>
                      /\ (instApplied \in snapFiles \/ Cardinality(snapFiles) >= KeepSnap)
                      /\ (instApplied \in walSnaps \/ walLow > instApplied)
                      /\ walCommit >= instApplied

(* the pending/acked table: a waiter is triggered at most once, only by the apply of its   *)
(* own id, and only after that apply                                                       *)
TriggerOnce == \A i \in 1..MaxOps : ackCnt[i] <= 1
TriggerOwnAfterApply == ackOk
NeverBoth == Range(acked) \cap failed = {}

(* exploration bound *)
Bound == Len(chan) <= ChanCap
=============================================================================
