SPECIFICATION Spec
CONSTANTS
  Keys = {k1, k2}
  Times = {10, 11, 13}
  WallTimes = {0}
  N = 3
  Runs = 1
  MaxBatchCmds = 2
  Cmds = {"set", "setex", "del", "incr"}
  CutBeforeDup = TRUE
  FlushBeforeNonBatchable = TRUE
  UseLogTime = TRUE
  AbortDropsBatch = TRUE
  SnapshotOnlyAtCut = TRUE
INVARIANTS RepliesAgree StateAgrees DumpAgrees WriteOnce
