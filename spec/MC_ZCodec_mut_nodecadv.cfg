SPECIFICATION Spec
CONSTANTS
  Mutant = "nodecadv"
  MaxWire = 1
  Terms = {1, 2}
  Indexes = {0, 1, 2}
  MaxEnts = 2
  Sizes = {1, 2}
  Commits = {0, 1}
  Lazy = FALSE
  Damage = FALSE
  MaxSent = 0
VIEW View
INVARIANTS Lossless StepFaithful InSync CtxAgree ErrorAfterDamage
