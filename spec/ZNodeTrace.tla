------------------------------ MODULE ZNodeTrace ------------------------------
(* Trace validation for C06: the black-box trace of a crashed and restarted data node,     *)
(* recorded by harness `crashsim`:                                                         *)
(*                                                                                         *)
(*   reset(weak) inv(id, op) ok(id, res) fail(id)        as in ZLinTrace                   *)
(*   {"ev":"died","n":1,"point":"persist.wal","k":1,"mode":"crash","solo":true}            *)
(*   {"ev":"restarted","n":1,"ok":true}                                                    *)
(*   {"ev":"read","n":1,"st":{store}}                    the dump after a write barrier    *)
(*   {"ev":"settle"}                                                                       *)
(*                                                                                         *)
(* It checks the observable contract that MC_ZNode establishes for the pipeline model      *)
(* ZNode (Recoverable, AckedDurable, NoPhantom): the pipeline steps themselves cannot be   *)
(* seen from outside, so the trace is validated against their consequence -                *)
(*   restarted(failed) is never a step (Recoverable);                                      *)
(*   the dump equals the fold of a log that contains every acknowledged operation, in an   *)
(*   order compatible with the answers, plus some of the unanswered ones, and nothing else *)
(*   (AckedDurable, NoPhantom);                                                            *)
(*   when the only replica dies (solo) an unconfirmed suffix of that log may be lost       *)
(*   (ZLin!Cut); in a 3-replica group the death of one replica loses nothing.              *)
EXTENDS ZLinTrace

TDied == /\ IsEvent("died") /\ Consume /\ UNCHANGED reads
         /\ IF E.solo THEN \E D \in SUBSET Idx(tail) : Cut(D)
                      ELSE UNCHANGED linVars

TRestarted == /\ IsEvent("restarted") /\ E.ok      \* Recoverable: a failed restart is no step
              /\ Consume /\ UNCHANGED <<linVars, reads>>

NNext == TNext \/ TDied \/ TRestarted
NSpec == TInit /\ [][NNext]_tvars
=============================================================================
