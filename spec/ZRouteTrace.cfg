SPECIFICATION TSpec
CONSTANTS
  P <- TraceP
  Hosted <- TraceHosted
  Keys <- TraceKeys
  Vals <- TraceVals
  NsOf <- TraceNs
  Refused <- TraceRefused
  RouteMulti = "perkey"
  OwnerShift = 0
  RejectUnhosted = TRUE
INVARIANTS MergedEqualsSingleStore OnlyOwnerExecutes ServerAgrees
POSTCONDITION AllConsumed
CHECK_DEADLOCK FALSE
