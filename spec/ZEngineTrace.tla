---------------------------- MODULE ZEngineTrace ----------------------------
(* Trace validation for ZEngine: replays an ndjson trace recorded from a real  *)
(* engine (harness engsim) through the ZEngine actions and compares every      *)
(* read result with the specification's read functions.                        *)
(*                                                                             *)
(* A trace file is a concatenation of independent segments, each starting      *)
(* with a "reset" event.  The first disagreement inside a segment is printed   *)
(* as <<"MISMATCH", line, expected>> and the rest of that segment is skipped   *)
(* (after a deviation model and engine drift apart, so nothing after it can be *)
(* judged); validation then continues with the next segment.  The trace is     *)
(* accepted iff every line was consumed and no mismatch was printed            *)
(* (bin/check reads TLC's output; ZR_TRACE names the file).                    *)
EXTENDS ZEngine, Json, IOUtils, TLC

VARIABLES l,      \* next trace line
          bad     \* a mismatch was seen in the current segment

Trace == ndJsonDeserialize(IOEnv.ZR_TRACE)
E == Trace[l]

tvars == <<data, batch, l, bad>>

TInit == data = Empty /\ batch = <<>> /\ l = 1 /\ bad = FALSE

IsRead(ev) == ev \in {"get", "exist", "mget", "iter"}

Expected ==
  CASE E.ev = "get"    -> Get(data, E.k)
    [] E.ev = "exist"  -> Exist(data, E.k)
    [] E.ev = "mget"   -> MultiGet(data, E.ks)
    [] E.ev = "iter"   -> IterRes(data, E.mn, E.mx, E.rt, E.rev, E.off, E.cnt)
    [] E.ev = "commit" -> ""
    [] OTHER           -> 0

Observed == IF E.ev = "commit" THEN E.err ELSE E.res

Mismatch == /\ bad' = TRUE
            /\ PrintT(<<"MISMATCH", l, Expected>>)
            /\ UNCHANGED <<data, batch>>

TNext ==
  /\ l <= Len(Trace)
  /\ l' = l + 1
  /\ IF E.ev = "reset" THEN data' = Empty /\ batch' = <<>> /\ bad' = FALSE
     ELSE IF bad THEN UNCHANGED <<data, batch, bad>>
     ELSE IF IsRead(E.ev) THEN
            IF E.err = "" /\ Observed = Expected
            THEN UNCHANGED <<data, batch, bad>>
            ELSE Mismatch
     ELSE CASE E.ev = "bput"      -> BPut(E.k, E.v) /\ UNCHANGED bad
            [] E.ev = "bdel"      -> BDel(E.k) /\ UNCHANGED bad
            [] E.ev = "bdelrange" -> BDelRange(E.lo, E.hi) /\ UNCHANGED bad
            [] E.ev = "bmerge"    -> BMerge(E.k, E.d) /\ UNCHANGED bad
            [] E.ev = "clear"     -> Clear /\ UNCHANGED bad
            [] E.ev = "maint"     -> Maint /\ UNCHANGED bad
            [] E.ev = "commit"    -> IF E.err = "" THEN Commit /\ UNCHANGED bad ELSE Mismatch
            [] OTHER              -> Mismatch

TSpec == TInit /\ [][TNext]_tvars

\* every line consumed: one state per line plus the initial state
AllConsumed == TLCGet("stats").diameter - 1 = Len(Trace)
=============================================================================
