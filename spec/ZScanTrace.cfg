SPECIFICATION TSpec
CONSTANTS
  NPos = 6
  Mut = "none"
POSTCONDITION AllConsumed
CHECK_DEADLOCK FALSE
