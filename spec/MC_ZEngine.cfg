SPECIFICATION Spec
CONSTANTS
  NPos = 7
  Storable = {2, 4, 6}
  PutVals = {0, 1}
  MergeDeltas = {1}
  MaxVal = 2
  MaxBatch = 2
  Indep = FALSE
INVARIANTS TypeOK ScanSymmetric PagingComplete
