------------------------------ MODULE MC_ZSync ------------------------------
(* Bounded instance of ZSync for exhaustive checking and for generating        *)
(* delivery schedules (-simulate) that harness `syncsim` executes on a real    *)
(* receiver.                                                                   *)
EXTENDS ZSync, TLC

CONSTANTS MaxInstall,  \* bound on remote snapshots announced
          MaxLog,      \* bound on the receiver's raft log
          MaxRestart   \* bound on restarts

VARIABLE nrestart

mvars == <<rlog, applied, effects, synced, pc, snap, handed, replayTo, seen, nrestart>>

\* terms of the source log: a leader change after the first third
TermFn == [i \in 1..N |-> IF 3 * i <= N THEN 1 ELSE 2]

Init == SInit /\ nrestart = 0

MRecvEntry(i, ok) == Len(rlog) < MaxLog /\ RecvEntry(i, ok) /\ UNCHANGED nrestart
MCancelPrefix(i) == CancelPrefix(i) /\ UNCHANGED nrestart
MInstallRemoteSnap(i) == /\ Len(rlog) < MaxLog
                         /\ Cardinality({k \in DOMAIN rlog : rlog[k] < 0}) < MaxInstall
                         /\ InstallRemoteSnap(i) /\ UNCHANGED nrestart
MApplySnapEntry == ApplySnapEntry /\ UNCHANGED nrestart
MApplyCheck   == ApplyCheck /\ UNCHANGED nrestart
MApplyEffect  == ApplyEffect /\ UNCHANGED nrestart
MApplySynced  == ApplySynced /\ UNCHANGED nrestart
MObserve      == Observe /\ UNCHANGED nrestart
MTakeSnapshot == TakeSnapshot /\ UNCHANGED nrestart
MRestart      == nrestart < MaxRestart /\ Restart /\ nrestart' = nrestart + 1

Next ==
  \/ \E i \in 1..N, ok \in BOOLEAN : MRecvEntry(i, ok)
  \/ \E i \in 1..N : MCancelPrefix(i)
  \/ \E i \in 1..N : MInstallRemoteSnap(i)
  \/ MApplySnapEntry
  \/ MApplyCheck
  \/ MApplyEffect
  \/ MApplySynced
  \/ MObserve
  \/ MTakeSnapshot
  \/ MRestart

Spec == Init /\ [][Next]_mvars
=============================================================================
