SPECIFICATION TSpec
CONSTANTS
  Server <- TServer
  InitVoterSeq <- TVoters
  PreVote <- TPreVote
  CheckQuorum <- TCQ
  Mut = ""
  Collapsed = FALSE
CONSTRAINT HW
INVARIANTS ElectionSafety LearnerNeverCampaignsOrVotes VoteOncePerTerm LogMatching CommittedNeverTruncated StateMachineSafety LeaderCompleteness DurableCommit RestartSound
POSTCONDITION Accepted
CHECK_DEADLOCK FALSE
