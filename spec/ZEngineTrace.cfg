SPECIFICATION TSpec
CONSTANTS NPos = 7
POSTCONDITION AllConsumed
CHECK_DEADLOCK FALSE
