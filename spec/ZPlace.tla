------------------------------- MODULE ZPlace -------------------------------
(* Placement contract of the placement driver (property C17).                  *)
(*                                                                             *)
(* This is a *contract* specification: it does not describe an algorithm.      *)
(* `Layout` is ANY function from a placement call to a result that satisfies   *)
(* the clauses below; the two real algorithms (ring "v1", incremental "v2")    *)
(* are bound to it by ZPlaceTrace, which evaluates the same clauses on every   *)
(* recorded (input, old layout, output) of the real functions.                 *)
(*                                                                             *)
(* A call is a record                                                          *)
(*   [algo : "v1"|"v2", ns : name, P : partitions, R : replicas,               *)
(*    live : set of live data nodes, dc : node -> data centre,                 *)
(*    old  : previous layout (<<>> = fresh layout)]                            *)
(* a result is [res : "ok"|"refused", out : <<p_1, ..., p_P>>], p_i a sequence *)
(* of nodes whose first element is the preferred leader.                       *)
(*                                                                             *)
(* Sources: doc/design.md (rack awareness: "the replicas of every partition    *)
(* are spread over different dc"), the comment block of                        *)
(* getRebalancedNamespacePartitions (ring with equal leaders / followers) and  *)
(* the statement of C17.  The data-centre premise is read in its weakest sound *)
(* sense: *fresh* layout (no previous layout given), every data centre that    *)
(* has a live node has the *same* number of live nodes, and there are at least *)
(* R such data centres.                                                        *)
EXTENDS Integers, Sequences, FiniteSets

CONSTANT Layout(_)      \* the placement function under contract

Range(s) == {s[i] : i \in DOMAIN s}

\* ------------------------------------------------------------------ clauses
MustRefuse(c) == Cardinality(c.live) < c.R

ExactlyR(c, out) == /\ Len(out) = c.P
                    /\ \A p \in DOMAIN out : Len(out[p]) = c.R

DistinctLiveNodes(c, out) ==
  \A p \in DOMAIN out : /\ Range(out[p]) \subseteq c.live
                        /\ Cardinality(Range(out[p])) = Len(out[p])

DCs(c)         == {c.dc[n] : n \in c.live}
NodesIn(c, d)  == {n \in c.live : c.dc[n] = d}
EvenlySpread(c) == \A d1, d2 \in DCs(c) : Cardinality(NodesIn(c, d1)) = Cardinality(NodesIn(c, d2))
Fresh(c)       == c.old = <<>>
\* dc[n] >= 1: node n carries the data-centre tag number dc[n]; dc[n] <= 0: it carries no usable
\* tag (absent, empty, not a string).  The data-centre guarantee is only read for node sets in
\* which every live node is tagged (weakest sound sense); all other clauses hold for any mix.
AllTagged(c) == \A n \in c.live : c.dc[n] >= 1
SpreadPremise(c) == Fresh(c) /\ AllTagged(c) /\ EvenlySpread(c) /\ Cardinality(DCs(c)) >= c.R
DCSpread(c, out) ==
  \A p \in DOMAIN out : \A i, j \in DOMAIN out[p] : i # j => c.dc[out[p][i]] # c.dc[out[p][j]]

BalancePremise(c) == c.algo = "v1" /\ c.live # {} /\ c.P % Cardinality(c.live) = 0
Leads(out, n)  == Cardinality({p \in DOMAIN out : out[p][1] = n})
LeaderBalanceV1(c, out) == \A n \in c.live : Leads(out, n) = c.P \div Cardinality(c.live)

\* names of the clauses a result violates ({} = the result honours the contract)
Violated(c, r) ==
  IF r.res \notin {"ok", "refused"} THEN {"NoPanicNoOtherError"}
  ELSE IF MustRefuse(c) THEN (IF r.res = "refused" THEN {} ELSE {"RefuseWhenTooFewNodes"})
  ELSE IF r.res # "ok" THEN {"LayoutWhenEnoughNodes"}
  ELSE IF ~ExactlyR(c, r.out) THEN {"ExactlyR"}
  ELSE IF ~DistinctLiveNodes(c, r.out) THEN {"DistinctLiveNodes"}
  ELSE (IF SpreadPremise(c) /\ ~DCSpread(c, r.out) THEN {"DCSpread"} ELSE {})
       \cup (IF BalancePremise(c) /\ ~LeaderBalanceV1(c, r.out) THEN {"LeaderBalanceV1"} ELSE {})

Holds(c, r) == Violated(c, r) = {}

\* --------------------------------------------------------------- behaviours
(* A behaviour: node up/down events, each followed by a re-layout.  The         *)
(* incremental algorithm is handed the previous layout; `hist` remembers every *)
(* (call, result) so that Deterministic can be stated: the same call always    *)
(* gets the same result.                                                       *)
CONSTANTS Nodes,        \* universe of data nodes
          DCOf,         \* Nodes -> data centre
          Ps, Rs, Algos, \* partition counts / replication factors / algorithms tried
          MaxEvents

VARIABLES live, old, conf, last, hist, pending, nev
pvars == <<live, old, conf, last, hist, pending, nev>>

Call == [algo |-> conf.algo, ns |-> "ns", P |-> conf.P, R |-> conf.R, live |-> live,
         dc |-> DCOf, old |-> old]

PInit == /\ live = Nodes
         /\ old = <<>>
         /\ conf \in [algo : Algos, P : Ps, R : Rs]
         /\ last = [res |-> "none", out |-> <<>>]
         /\ hist = <<>>
         /\ pending = TRUE
         /\ nev = 0

Place == /\ pending
         /\ LET c == Call
                r == Layout(c)
            IN /\ last' = r
               /\ hist' = Append(hist, <<c, r>>)
               /\ old' = IF r.res = "ok" /\ c.algo = "v2" THEN r.out ELSE old
         /\ pending' = FALSE
         /\ UNCHANGED <<live, conf, nev>>

NodeDown(n) == /\ ~pending /\ nev < MaxEvents /\ n \in live
               /\ live' = live \ {n} /\ pending' = TRUE /\ nev' = nev + 1
               /\ UNCHANGED <<old, conf, last, hist>>

NodeUp(n) == /\ ~pending /\ nev < MaxEvents /\ n \in Nodes \ live
             /\ live' = live \cup {n} /\ pending' = TRUE /\ nev' = nev + 1
             /\ UNCHANGED <<old, conf, last, hist>>

PNext == Place \/ \E n \in Nodes : NodeDown(n) \/ NodeUp(n)

PSpec == PInit /\ [][PNext]_pvars

\* every result handed out honours the contract for the call that produced it
ContractHolds == \A i \in DOMAIN hist : Holds(hist[i][1], hist[i][2])
\* same input => same output
Deterministic == \A i, j \in DOMAIN hist : hist[i][1] = hist[j][1] => hist[i][2] = hist[j][2]
=============================================================================
