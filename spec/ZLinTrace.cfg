SPECIFICATION TSpec
CONSTRAINT Track
INVARIANT AllReplicasEqual
POSTCONDITION Accepted
CHECK_DEADLOCK FALSE
