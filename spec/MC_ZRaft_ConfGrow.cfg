SPECIFICATION MCSpec
CONSTANTS
  Server = {1, 2, 3}
  InitVoterSeq <- Seq1
  PreVote = FALSE
  CheckQuorum = TRUE
  Mut = ""
  LazyApply = FALSE
  Collapsed = FALSE
  MaxAppEnts = 8
  MaxTerm = 3
  MaxLog = 4
  MaxElect = 3
  MaxMsgs = 4
  MaxDup = 0
  MaxCrash = 0
  MaxProp = 0
  MaxReads = 0
  MaxConf = 2
  ConfOps <- OpsGrow2
  FCrash = FALSE
  FSnap = TRUE
  FTransfer = FALSE
  FHeartbeat = FALSE
  FResend = FALSE
  FPartial = FALSE
CONSTRAINT Bound
VIEW view
INVARIANTS ElectionSafety LearnerNeverCampaignsOrVotes VoteOncePerTerm LogMatching CommittedNeverTruncated StateMachineSafety LeaderCompleteness RestartSound ReadStateSafety
CHECK_DEADLOCK FALSE
