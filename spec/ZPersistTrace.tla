---------------------------- MODULE ZPersistTrace ----------------------------
(* Trace validation for ZPersist (deterministic family): every line           *)
(* `ready` is a Ready the driver persistsim handed to the real processReady   *)
(* of a raftNode over a real WAL directory / snapshotter / raft storage, with *)
(* the raft storage read back after the call; every line `image` is what a    *)
(* reopen of the directory (the restart half of startRaft) read back.  A line *)
(* is accepted if the Ready is a shape of the model and the implementation's  *)
(* state equals the model's.  Segments start with "reset"; after the first    *)
(* mismatch the rest of the segment is skipped.                               *)
EXTENDS ZPersist, Json, IOUtils, TLC

VARIABLES l, bad

Trace == ndJsonDeserialize(IOEnv.ZR_TRACE)
E == Trace[l]

tvars == <<pvars, l, bad>>

Blank == /\ snapi' = 0 /\ snapt' = 0 /\ ments' = <<>> /\ recs' = <<>> /\ wsnaps' = <<>> /\ whs' = HS0
         /\ com' = 0 /\ cur' = 0

TInit == PInit /\ l = 1 /\ bad = FALSE

R == [si |-> E.si, st |-> E.st, first |-> E.first, terms |-> E.terms,
      hs |-> E.hs, hst |-> E.hst, hsv |-> E.hsv, hsc |-> E.hsc]

\* the raft storage of the implementation equals (si, st, es); in a life that did not start from
\* a WAL its own hard state stays empty (processReady never sets it, raft keeps its own)
MemIs(m, si, st, es, hs) ==
  /\ m.snapi = si /\ m.snapt = st
  /\ m.first = si + 1 /\ m.last = si + Len(es)
  /\ m.terms = es
  /\ m.hst = hs.t /\ m.hsv = hs.v /\ m.hsc = hs.c

\* (a Go panic of processReady is no outcome the design has for a shape of the model)
ReadyOK == /\ E.panic = "" /\ PersistReady(R)
           /\ \/ MemIs(E.mem, snapi', snapt', ments', HS0)
              \/ MemIs(E.mem, snapi', snapt', ments', whs')    \* (etcd's raftexample order would be fine too)

ImageOK == LET im == Image IN E.err = "" /\ MemIs(E.mem, im.si, im.st, im.es, im.hs)

Mismatch(exp) == /\ bad' = TRUE
                 /\ PrintT(<<"MISMATCH", l, exp>>)
                 /\ UNCHANGED pvars

Exp == IF ~Feasible(R) THEN <<"ready", FALSE>>
       ELSE LET m == MemEffect(R) IN <<"ready", TRUE, m.si, m.st, m.es, E.panic # "">>   \* (short: TLC wraps long tuples)

TNext ==
  /\ l <= Len(Trace)
  /\ l' = l + 1
  /\ IF E.ev = "reset" THEN Blank /\ bad' = FALSE
     ELSE IF bad THEN UNCHANGED <<pvars, bad>>
     ELSE CASE E.ev = "ready" -> IF ENABLED ReadyOK THEN ReadyOK /\ UNCHANGED bad ELSE Mismatch(Exp)
            [] E.ev = "image" -> IF ImageOK THEN UNCHANGED <<pvars, bad>>
                                 ELSE Mismatch(<<"image", Image.si, Image.st, Image.es, Image.hs>>)
            [] OTHER          -> Mismatch(<<"no such action">>)

TSpec == TInit /\ [][TNext]_tvars

AllConsumed == TLCGet("stats").diameter - 1 = Len(Trace)
=============================================================================
