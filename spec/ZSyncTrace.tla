----------------------------- MODULE ZSyncTrace -----------------------------
(* Trace validation for ZSync (property C19): an ndjson trace recorded by      *)
(* harness `syncsim` from a real receiver is checked against the               *)
(* specification's batch semantics.                                            *)
(*                                                                             *)
(* Line 1 (`source`) describes the source log (kind, term, payload size of     *)
(* every entry); it instantiates the constants N and Term.  A `reset` starts a *)
(* fresh receiver.  After every `deliver` the driver has waited for the        *)
(* receiver's apply loop, so the `obs` line that follows shows a quiescent     *)
(* receiver:                                                                   *)
(*   - a delivery that was answered without error leaves the synced position   *)
(*     exactly at RunBatch(synced, batch) (both duplicate filters applied to   *)
(*     every entry in turn); one that was answered with an error at one of the *)
(*     positions Prefixes(synced, batch) (the sender will retry);              *)
(*   - the synced position never decreases, also not across `restart`          *)
(*     (SyncedMonotone, SyncedSurvivesRestart) and `snap`;                     *)
(*   - the data are the fold of source entries 1..synced, each counted once    *)
(*     (RemoteExactlyOnce): the counter, the list and the appended string.     *)
(* `sample` lines come from a poller that reads the synced position first and  *)
(* the data afterwards, at any time: the data must already contain everything  *)
(* up to that position (SyncedAfterEffect) and never more than everything      *)
(* handed over so far; the sampled position never decreases between restarts.  *)
(*                                                                             *)
(* The first disagreement of a segment is printed as                           *)
(* <<"MISMATCH", line, <<what, expected>>>> (expected values kept short: TLC   *)
(* wraps long tuples over several lines); the rest of the segment is           *)
(* skipped.  Accepted iff every line is consumed and no MISMATCH is printed.   *)
EXTENDS ZSync, Json, IOUtils, TLC, SequencesExt

VARIABLES l,        \* next trace line
          bad,      \* a mismatch was seen in the current segment
          allowed,  \* synced positions the next observation may show
          sampled   \* last synced position the poller saw (since the last restart)

Trace == ndJsonDeserialize(IOEnv.ZR_TRACE)
E == Trace[l]
Src == Trace[1]

TraceN == Src.n
TraceTerm == [i \in 1..Src.n |-> Src.terms[i]]

tvars == <<rlog, applied, effects, synced, pc, snap, handed, replayTo, seen, l, bad, allowed, sampled>>

Upto(k) == [j \in 1..k |-> j]

\* the fold of the source log prefix 1..k, every entry once
IsKind(i, kd)  == Src.kinds[i] = kd
CntUpTo(k)     == Cardinality({i \in 1..k : IsKind(i, "incr")})
AppendsUpTo(k) == SetToSortSeq({i \in 1..k : IsKind(i, "append")}, LAMBDA a, b : a < b)
PushesUpTo(k)  == SetToSortSeq({i \in 1..k : IsKind(i, "lpush")}, LAMBDA a, b : a > b)   \* LPUSH: newest first
RECURSIVE SumSizes(_)
SumSizes(S) == IF S = {} THEN 0 ELSE LET i == CHOOSE x \in S : TRUE IN Src.sizes[i] + SumSizes(S \ {i})
StrLenUpTo(k)  == SumSizes({i \in 1..k : IsKind(i, "append")})
\* SET entries (batchable writes): a key holds the value of the last SET up to k (0: none);
\* "fail" entries (a write that is refused when it is applied) have no effect at all
MaxIn(S)       == CHOOSE x \in S : \A y \in S : y <= x
KvUpTo(k, key) == LET S == {i \in 1..k : IsKind(i, "set") /\ Src.keys[i] = key}
                  IN IF S = {} THEN 0 ELSE MaxIn(S)
KvAll(k)       == <<KvUpTo(k, 1), KvUpTo(k, 2), KvUpTo(k, 3)>>

Fresh ==
  /\ rlog' = <<>> /\ applied' = 0 /\ effects' = <<>> /\ synced' = 0 /\ pc' = "idle"
  /\ snap' = NoSnap /\ handed' = 0 /\ replayTo' = 0 /\ seen' = 0
  /\ bad' = FALSE /\ allowed' = {0} /\ sampled' = 0

Mismatch(what, exp) ==
  /\ bad' = TRUE
  /\ PrintT(<<"MISMATCH", l, <<what, exp>>>>)
  /\ UNCHANGED <<svars, allowed, sampled>>

Skip == UNCHANGED <<svars, bad, allowed, sampled>>

MaxOf(S) == CHOOSE x \in S : \A y \in S : y <= x
MinOf(S) == CHOOSE x \in S : \A y \in S : y >= x
BatchSeq == [k \in 1..Len(E.batch) |-> E.batch[k]]

\* gap-free: every entry is at most one above everything handed over / synced before it
RECURSIVE GapFreeFrom(_, _, _)
GapFreeFrom(b, k, mx) ==
  IF k > Len(b) THEN TRUE
  ELSE /\ b[k] >= 1 /\ b[k] <= N /\ b[k] <= mx + 1
       /\ GapFreeFrom(b, k + 1, IF b[k] > mx THEN b[k] ELSE mx)
GapFree(b, start) == GapFreeFrom(b, 1, start)

\* the batch is on its way: its effects may become visible from now on
TSend ==
  LET b == BatchSeq
  IN IF ~GapFree(b, synced) THEN Mismatch("driver-delivered-a-gap", synced)
     ELSE /\ handed' = MaxOf({handed} \cup {b[k] : k \in 1..Len(b)})
          /\ UNCHANGED <<rlog, applied, effects, synced, pc, snap, replayTo, seen, bad, allowed, sampled>>

\* ApplyRaftReqs has answered
TDeliver ==
  LET b == BatchSeq
  IN /\ allowed' = IF E.code = 0 THEN {RunBatch(synced, b)} ELSE Prefixes(synced, b)
     /\ UNCHANGED <<svars, bad, sampled>>

TObs ==
  IF E.err # "" THEN Mismatch("receiver-not-readable", 0)
  ELSE IF E.si < synced THEN Mismatch("synced-moved-backwards", synced)
  ELSE IF E.si \notin allowed THEN Mismatch("synced-position", <<MinOf(allowed), MaxOf(allowed)>>)
  ELSE IF E.st # TermOf(E.si) THEN Mismatch("synced-term", TermOf(E.si))
  ELSE IF E.cnt # CntUpTo(E.si) THEN Mismatch("counter-not-once-per-entry", CntUpTo(E.si))
  ELSE IF E.lst # PushesUpTo(E.si) THEN Mismatch("list-not-once-per-entry", Len(PushesUpTo(E.si)))
  ELSE IF E.strids # AppendsUpTo(E.si) \/ E.strlen # StrLenUpTo(E.si)
       THEN Mismatch("string-not-once-per-entry", <<Len(AppendsUpTo(E.si)), StrLenUpTo(E.si)>>)
  ELSE IF <<E.kv[1], E.kv[2], E.kv[3]>> # KvAll(E.si) THEN Mismatch("kv-not-the-last-set", KvAll(E.si))
  ELSE /\ synced'  = E.si
       /\ effects' = Upto(E.si)
       /\ seen'    = E.si
       /\ allowed' = {E.si}
       /\ UNCHANGED <<rlog, applied, pc, snap, handed, replayTo, bad, sampled>>

\* read the position first, the data afterwards; the data only grow
TSample ==
  IF E.si < sampled THEN Mismatch("sampled-synced-moved-backwards", sampled)
  ELSE IF E.cnt < CntUpTo(E.si) \/ E.llen < Len(PushesUpTo(E.si)) \/ E.strlen < StrLenUpTo(E.si)
       THEN Mismatch("synced-ahead-of-effect", <<CntUpTo(E.si), Len(PushesUpTo(E.si)), StrLenUpTo(E.si)>>)
  ELSE IF E.cnt > CntUpTo(handed) \/ E.llen > Len(PushesUpTo(handed)) \/ E.strlen > StrLenUpTo(handed)
       THEN Mismatch("more-effects-than-entries-handed-over", <<CntUpTo(handed), Len(PushesUpTo(handed)), StrLenUpTo(handed)>>)
  ELSE sampled' = E.si /\ UNCHANGED <<svars, bad, allowed>>

\* the receiver was stopped and started again (restore newest snapshot, replay)
TRestart == sampled' = 0 /\ UNCHANGED <<svars, bad, allowed>>

TNext ==
  /\ l <= Len(Trace)
  /\ l' = l + 1
  /\ IF E.ev = "reset" THEN Fresh
     ELSE IF E.ev = "source" THEN Skip
     ELSE IF bad THEN Skip
     ELSE CASE E.ev = "send"    -> TSend
            [] E.ev = "deliver" -> TDeliver
            [] E.ev = "obs"     -> TObs
            [] E.ev = "sample"  -> TSample
            [] E.ev = "restart" -> TRestart
            [] E.ev = "snap"    -> Skip
            [] E.ev = "snapfail" -> Skip      \* a snapshot apply that failed: nothing may change
            [] E.ev = "snapsend" -> /\ handed' = IF E.i > handed THEN E.i ELSE handed
                                    /\ UNCHANGED <<rlog, applied, effects, synced, pc, snap, replayTo, seen, bad, allowed, sampled>>
            \* a remote snapshot was announced and applied: the position is the snapshot's (if it was
            \* ahead; both calls answered without error), otherwise nothing may have changed
            [] E.ev = "snapok"  -> /\ allowed' = IF E.c1 = 0 /\ E.c2 = 0 /\ E.i > synced THEN {E.i}
                                                  ELSE IF E.i > synced THEN {synced, E.i} ELSE {synced}
                                   /\ UNCHANGED <<svars, bad, sampled>>
            [] E.ev = "abort"   -> bad' = TRUE /\ UNCHANGED <<svars, allowed, sampled>>   \* environmental: rest not judged
            [] OTHER            -> Mismatch("no-such-action", E.ev)

TInit == SInit /\ l = 1 /\ bad = FALSE /\ allowed = {0} /\ sampled = 0
TSpec == TInit /\ [][TNext]_tvars

AllConsumed == TLCGet("stats").diameter - 1 = Len(Trace)
=============================================================================
