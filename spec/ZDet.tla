--------------------------------- MODULE ZDet ---------------------------------
(* Property C07: applying the same committed log always yields the same data   *)
(* and the same replies, whatever the execution conditions are.                *)
(*                                                                             *)
(* The design-level mechanism (node/state_machine.go ApplyRaftRequest,         *)
(* kvbatchOperator, node/node.go applyEntries, rockredis Begin/Commit/Abort    *)
(* BatchWrite) is modelled on an abstract deterministic key-value machine:     *)
(*   - a committed log of entries [c, k, t]: command kind, key, log time;      *)
(*   - one RUN applies the log to a fresh store under an execution condition   *)
(*     that is left to TLC: where apply groups end (Cut), when checkpoints are *)
(*     taken (TakeSnap), where the process restarts from the last checkpoint   *)
(*     and replays the tail (Restart), how the wall clock moves (Tick);        *)
(*   - batchable commands (set, setex, del on one key, hmset) are collected in *)
(*     the store's shared write batch and their replies are held back until    *)
(*     the batch commits; the batch is cut BEFORE a command on a key that is   *)
(*     already in the batch, before a non-batchable command, when it is full,  *)
(*     and at the end of the apply group; handlers read COMMITTED data only.   *)
(* ReplayEquivalence: every reply that is ever handed out and every committed  *)
(* store equals what the plain one-entry-at-a-time application of the log      *)
(* gives (Ref), and `reply`/`dump` are write-once across runs.                 *)
(*                                                                             *)
(* The switches CutBeforeDup .. SnapshotOnlyAtCut are TRUE in the design; each *)
(* FALSE is a spec mutant TLC has to refute (MC_ZDet_*.cfg).                   *)
EXTENDS Integers, Sequences, FiniteSets, TLC

CONSTANTS Keys,              \* abstract keys
          Times,             \* log times (a few instants)
          WallTimes,         \* values the wall clock can take ({0} when it must not matter)
          N,                 \* length of the log
          Runs,              \* number of runs of the same log
          MaxBatchCmds,      \* maxDBBatchCmdNum
          Cmds,              \* command kinds present in logs
          CutBeforeDup,      \* batch is cut before a repeated key
          FlushBeforeNonBatchable, \* pending batch commits before a non-batchable command runs
          UseLogTime,        \* handlers take the log time, never the wall clock
          AbortDropsBatch,   \* an apply-time error of a batched command aborts the whole batch
          SnapshotOnlyAtCut  \* checkpoints are cut only between apply groups

VARIABLES log,      \* the committed log (chosen once, never changes)
          store,    \* committed data of the current run
          wb,       \* the store's shared write batch: sequence of <<key, record>>
          batching, \* kvbatchOperator.batching / RockDB.isBatching
          dup,      \* dupCheckMap
          pend,     \* replies held back until the batch commits: sequence of <<idx, r>>
          pos,      \* next log index to apply
          wall,     \* the replica's wall clock
          snap,     \* last checkpoint: [st, pos]
          run,      \* number of the current run
          restarts, \* restarts in the current run
          reply,    \* observation: idx -> reply, write-once across runs      (trace: event reply)
          dump,     \* observation: key -> record at the end of a run, ditto  (trace: event dump)
          conflict  \* a second observation differed from the first

dvars == <<log, store, wb, batching, dup, pend, pos, wall, snap, run, restarts, reply, dump, conflict>>

-------------------------------------------------------------------------------
(* Write-once observation maps (shared with ZDetTrace).                        *)
Consistent(m, k, v) == k \notin DOMAIN m \/ m[k] = v
Put(m, k, v)        == [x \in DOMAIN m \cup {k} |-> IF x = k THEN v ELSE m[x]]
EmptyMap            == [x \in {} |-> 0]

-------------------------------------------------------------------------------
(* The abstract deterministic machine.  A record is [v, exp]; v = -1: absent.  *)
Nil        == [v |-> -1, exp |-> 0]
EmptyStore == [k \in Keys |-> Nil]
Alive(rec, t) == rec.v # -1 /\ (rec.exp = 0 \/ t < rec.exp)
Err == -7

Batchable(c) == c \in {"set", "setex", "del", "bad"}

\* Exec: reply and the records written, as a function of the data read, the entry, its
\* position and the clock value the handler uses.
Exec(st, e, i, clock) ==
  LET old == st[e.k] IN
  CASE e.c = "set"   -> [r |-> 1, w |-> <<<<e.k, [v |-> i, exp |-> 0]>>>>]
    [] e.c = "setex" -> [r |-> 1, w |-> <<<<e.k, [v |-> i, exp |-> clock + 2]>>>>]
    [] e.c = "del"   -> [r |-> IF Alive(old, clock) THEN 1 ELSE 0, w |-> <<<<e.k, Nil>>>>]
    [] e.c = "incr"  -> LET nv == IF Alive(old, clock) THEN old.v + 1 ELSE 1
                        IN [r |-> nv, w |-> <<<<e.k, [v |-> nv, exp |-> IF Alive(old, clock) THEN old.exp ELSE 0]>>>>]
    [] e.c = "bad"   -> [r |-> Err, w |-> <<>>]     \* fails at apply time, writes nothing

ApplyW(st, w) == IF w = <<>> THEN st ELSE [st EXCEPT ![w[1][1]] = w[1][2]]   \* one write per command
RECURSIVE ApplyWB(_, _)
ApplyWB(st, b) == IF b = <<>> THEN st ELSE ApplyWB([st EXCEPT ![b[1][1]] = b[1][2]], Tail(b))

\* the reference: one entry at a time, every entry committed at once, log time
RefSt[i \in 0..N] == IF i = 0 THEN EmptyStore
                     ELSE ApplyW(RefSt[i - 1], Exec(RefSt[i - 1], log[i], i, log[i].t).w)
RefReply(i) == Exec(RefSt[i - 1], log[i], i, log[i].t).r

Clock(e) == IF UseLogTime THEN e.t ELSE wall

-------------------------------------------------------------------------------
Trigger(m, c, idx, r) == <<Put(m, idx, r), c \/ ~Consistent(m, idx, r)>>

RECURSIVE TriggerAll(_, _, _)
TriggerAll(m, c, ps) == IF ps = <<>> THEN <<m, c>>
                        ELSE LET x == Trigger(m, c, ps[1][1], ps[1][2])
                             IN TriggerAll(x[1], x[2], Tail(ps))

\* CommitBatch: write the batch, hand out the held-back replies
Committed == [st |-> ApplyWB(store, wb), tr |-> TriggerAll(reply, conflict, pend)]

(* Apply the next entry (the body of the loop in ApplyRaftRequest).            *)
Apply ==
  /\ run <= Runs /\ pos <= N
  /\ LET e == log[pos] IN
     IF Batchable(e.c) /\ (CutBeforeDup => e.k \notin dup) /\ Len(pend) < MaxBatchCmds
     THEN \* joins (or opens) the batch; reads committed data; reply held back
          LET x == Exec(store, e, pos, Clock(e)) IN
          IF x.r = Err
          THEN \* handler error: the waiter gets the error; AbortBatchForError
               IF AbortDropsBatch
               THEN LET ps == [j \in 1..Len(pend) |-> <<pend[j][1], Err>>]
                        t  == TriggerAll(reply, conflict, Append(ps, <<pos, Err>>))
                    IN /\ wb' = <<>> /\ batching' = FALSE /\ dup' = {} /\ pend' = <<>>
                       /\ reply' = t[1] /\ conflict' = t[2] /\ UNCHANGED store
               ELSE LET t == Trigger(reply, conflict, pos, Err)
                    IN /\ reply' = t[1] /\ conflict' = t[2]
                       /\ batching' = TRUE /\ dup' = dup \cup {e.k}
                       /\ UNCHANGED <<wb, pend, store>>
          ELSE /\ wb' = wb \o x.w /\ batching' = TRUE /\ dup' = dup \cup {e.k}
               /\ pend' = Append(pend, <<pos, x.r>>)
               /\ UNCHANGED <<store, reply, conflict>>
     ELSE \* not batchable now: commit what is pending, then run alone and commit at once
          LET base == IF FlushBeforeNonBatchable THEN Committed.st ELSE store
              x    == Exec(base, e, pos, Clock(e))
              t0   == IF FlushBeforeNonBatchable THEN Committed.tr ELSE <<reply, conflict>>
              t    == Trigger(t0[1], t0[2], pos, x.r)
          IN /\ reply' = t[1] /\ conflict' = t[2]
             /\ IF FlushBeforeNonBatchable
                THEN /\ store' = ApplyW(base, x.w) /\ wb' = <<>> /\ batching' = FALSE
                     /\ dup' = {} /\ pend' = <<>>
                ELSE \* mutant: the command's writes join the pending batch unseen
                     /\ wb' = wb \o x.w /\ UNCHANGED <<store, batching, dup, pend>>
  /\ pos' = pos + 1
  /\ UNCHANGED <<log, wall, snap, run, restarts, dump>>

(* End of an apply group (applyEntries: batch.CommitBatch()).                  *)
Cut ==
  /\ run <= Runs /\ batching
  /\ store' = Committed.st /\ reply' = Committed.tr[1] /\ conflict' = Committed.tr[2]
  /\ wb' = <<>> /\ batching' = FALSE /\ dup' = {} /\ pend' = <<>>
  /\ UNCHANGED <<log, pos, wall, snap, run, restarts, dump>>

Tick(t) == /\ run <= Runs /\ wall' = t /\ wall # t
           /\ UNCHANGED <<log, store, wb, batching, dup, pend, pos, snap, run, restarts, reply, dump, conflict>>

(* A checkpoint records the committed data and the applied index.              *)
TakeSnap ==
  /\ run <= Runs
  /\ (SnapshotOnlyAtCut => ~batching)
  /\ snap # [st |-> store, pos |-> pos]
  /\ snap' = [st |-> store, pos |-> pos]
  /\ UNCHANGED <<log, store, wb, batching, dup, pend, pos, wall, run, restarts, reply, dump, conflict>>

(* Crash at any point (also in the middle of a batch) and restart from the     *)
(* last checkpoint; the tail of the log is applied again (isReplaying).        *)
Restart ==
  /\ run <= Runs /\ restarts < 1
  /\ store' = snap.st /\ pos' = snap.pos
  /\ wb' = <<>> /\ batching' = FALSE /\ dup' = {} /\ pend' = <<>>
  /\ restarts' = restarts + 1
  /\ UNCHANGED <<log, wall, snap, run, reply, dump, conflict>>

(* End of a run: the whole log is applied and committed; the data is dumped.   *)
RECURSIVE DumpAll(_, _, _)
DumpAll(m, c, ks) == IF ks = {} THEN <<m, c>>
                     ELSE LET k == CHOOSE x \in ks : TRUE
                              x == Trigger(m, c, k, store[k])
                          IN DumpAll(x[1], x[2], ks \ {k})

EndRun ==
  /\ pos = N + 1 /\ ~batching
  /\ run <= Runs
  /\ LET d == DumpAll(dump, conflict, Keys) IN dump' = d[1] /\ conflict' = d[2]
  /\ run' = run + 1
  /\ store' = EmptyStore /\ pos' = 1 /\ restarts' = 0
  /\ snap' = [st |-> EmptyStore, pos |-> 1]
  /\ UNCHANGED <<log, wb, batching, dup, pend, wall, reply>>

-------------------------------------------------------------------------------
(* ReplayEquivalence and its parts.                                            *)
RepliesAgree == \A i \in DOMAIN reply : reply[i] = RefReply(i)
\* the committed data is always the reference state of the committed prefix
StateAgrees  == run <= Runs => store = RefSt[IF pend = <<>> THEN pos - 1 ELSE pend[1][1] - 1]
DumpAgrees   == \A k \in DOMAIN dump : dump[k] = RefSt[N][k]
WriteOnce    == ~conflict
ReplayEquivalence == RepliesAgree /\ StateAgrees /\ DumpAgrees /\ WriteOnce
=============================================================================
