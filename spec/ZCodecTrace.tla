---------------------------- MODULE ZCodecTrace -----------------------------
(* Trace validation for ZCodec: replays an ndjson trace recorded from the real *)
(* stream codecs (harness codecsim) through the ZCodec actions.                *)
(*                                                                             *)
(* A trace is a concatenation of independent segments, each starting with a    *)
(* "reset" event that names the stream kind and its two ends.  Events:         *)
(*   enc     a message was written: all its fields, the frame kind the real    *)
(*           encoder chose (first byte written) and the number of bytes        *)
(*   dec     the real decoder returned a message (all fields) or an error      *)
(*   late    digest of an earlier decoded message, taken at the end of the     *)
(*           segment (a later decode must not change an earlier message)       *)
(*   trunc   the recorded byte stream cut at k, decoded by a fresh decoder     *)
(*   corrupt one byte of the recorded stream changed, decoded likewise         *)
(*   report  transfer status (codecsim -report): reports to the sender's raft   *)
(*           against what the receiver got, see ReportClass                    *)
(*   scenario / cut / deliver  stream level (codecsim -conn): a real           *)
(*           streamWriter and a real streamReader over several connections;    *)
(*           `cut` = the connection ends after k bytes (ZCodec Truncate),      *)
(*           `deliver` = raft.Process calls in their global order              *)
(* enc/dec are steps of ZCodec (SendFrame, Decode).  A continuation frame      *)
(* where IsContinue does not hold is a mismatch even if it would decode well;  *)
(* a full frame where a continuation would do is accepted.  The first          *)
(* enc/dec mismatch of a segment is printed as <<"MISMATCH", line, what>> and  *)
(* the rest of the segment is skipped; trunc/corrupt/late lines are            *)
(* independent evaluations against the segment's history: each failing one is  *)
(* printed and the segment goes on.                                            *)
EXTENDS ZCodec, Json, IOUtils, FiniteSets

VARIABLES l,       \* next trace line
          bad,     \* a mismatch was seen in the current segment
          sentd,   \* digests of the messages written in this segment
          ends,    \* byte offset of the end of each frame written
          gw,      \* stream-level scenario: digests of everything written, over all its connections
          gp       \* position in gw matched by the last `deliver` line

Trace == ndJsonDeserialize(IOEnv.ZR_TRACE)
E == Trace[l]

tvars == <<cvars, l, bad, sentd, ends, gw, gp>>

TInit == /\ CInit([compact |-> TRUE, local |-> 0, remote |-> 0])
         /\ l = 1 /\ bad = FALSE /\ sentd = <<>> /\ ends = <<>> /\ gw = <<>> /\ gp = 0

Mismatch(what) == /\ bad' = TRUE
                  /\ PrintT(<<"MISMATCH", l, what>>)
                  /\ gw' = <<>> /\ gp' = -1     \* the scenario's delivery log cannot be judged either
                  /\ UNCHANGED <<cvars, sentd, ends>>

\* independent evaluations do not end the segment
Note(what) == /\ PrintT(<<"MISMATCH", l, what>>)
              /\ UNCHANGED <<cvars, sentd, ends, bad, gw, gp>>

Same == UNCHANGED <<cvars, sentd, ends, bad, gw, gp>>

ObsFrame(m) == CASE E.kind = "hb"   -> HBFrame
                 [] E.kind = "cont" -> ContFrame(m)
                 [] E.kind = "full" -> FullFrame(m)
                 [] OTHER           -> BadFrame

DiffFields(a, b) == {f \in DOMAIN a : a[f] # b[f]}

IsPrefixOf(p, s) == Len(p) <= Len(s) /\ \A i \in 1..Len(p) : p[i] = s[i]
NoError(c)       == c \in {"none", "panic", "crash"}

\* ---- enc
OnEnc ==
  LET m == E.m
      f == ObsFrame(m) IN
  IF E.err = "" /\ f.k # "bad" /\ IsEncoding(enc, cfg, m, f)
  THEN /\ SendFrame(m, f)
       /\ sentd' = Append(sentd, E.dig)
       /\ ends' = Append(ends, (IF ends = <<>> THEN 0 ELSE ends[Len(ends)]) + E.nbytes)
       /\ gw' = (IF gp = -1 THEN gw ELSE Append(gw, E.dig))
       /\ UNCHANGED <<bad, gp>>
  ELSE Mismatch(<<"enc", IF E.err # "" THEN "encode-error"
                         ELSE IF E.kind = "cont" THEN "cont-not-allowed"
                         ELSE "wrong-frame-kind", E.kind>>)

\* ---- dec
OnDec ==
  IF wire = <<>> \/ closed
  THEN \* nothing left to read: the reader must see the end of the stream
       IF E.errclass = "eof" THEN Same
       ELSE Mismatch(<<"dec", "after-eos", E.errclass>>)
  ELSE LET r == DecodeFrame(dec, cfg, Head(wire)) IN
       IF r.err
       THEN IF ~NoError(E.errclass) THEN Decode /\ UNCHANGED <<sentd, ends, bad, gw, gp>>
            ELSE Mismatch(<<"dec", "error-expected", E.errclass>>)
       ELSE IF E.errclass # "none"
            THEN Mismatch(<<"dec", "error-on-intact-stream", E.errclass>>)
            ELSE IF E.m # r.msg THEN Mismatch(<<"dec", "fields-differ", DiffFields(r.msg, E.m)>>)
            ELSE IF E.dig # sentd[Len(recvd) + 1] THEN Mismatch(<<"dec", "digest-differs", {}>>)
            ELSE Decode /\ UNCHANGED <<sentd, ends, bad, gw, gp>>

\* ---- late digest
OnLate ==
  IF E.i <= Len(sentd) /\ E.dig = sentd[E.i] THEN Same
  ELSE Note(<<"late", "earlier-msg-changed", E.i>>)

\* ---- truncation at byte k
Whole(k)    == Cardinality({j \in 1..Len(ends) : ends[j] <= k})
Boundary(k) == k = 0 \/ \E j \in 1..Len(ends) : ends[j] = k
OnTrunc ==
  LET exp == SubSeq(sentd, 1, Whole(E.k)) IN
  IF E.got # exp THEN Note(<<"trunc", "wrong-messages", E.k>>)
  ELSE IF NoError(E.errclass) THEN Note(<<"trunc", "no-error", E.k>>)
  ELSE IF Boundary(E.k) /\ E.errclass # "eof" THEN Note(<<"trunc", "not-eof-at-boundary", E.k>>)
  ELSE Same

\* ---- one corrupted byte
\* damage that breaks the framing must be reported: an unknown frame type, a length prefix
\* that runs past the end of the stream.  Everything else the format cannot notice (it
\* carries no checksum); the result must still not be a different message.
MustDetect == \/ (E.field = "type" /\ E.new \notin {0, 1, 2})
              \/ (E.field \in {"entlen", "fulllen", "msglen"} /\ E.newlen > E.remain)
OnCorrupt ==
  LET pre      == SubSeq(sentd, 1, E.frame - 1)
      detected == E.got = pre /\ ~NoError(E.errclass)
      harmless == E.got = sentd /\ E.errclass = "eof" IN
  IF detected \/ (~MustDetect /\ harmless) THEN Same
  ELSE Note(<<"corrupt",
              IF E.errclass \in {"panic", "crash"} THEN E.errclass
              ELSE IF MustDetect THEN "undetected-framing-damage"
              ELSE "silent-different-message", E.field>>)

\* ---- stream-level scenarios (one real writer, one real reader, several connections)
\* the connection is cut after E.k bytes: the frames that end at or before k survive
OnCut ==
  IF ~damaged /\ Whole(E.k) >= Len(recvd)
  THEN Truncate(Whole(E.k) - Len(recvd)) /\ UNCHANGED <<sentd, ends, bad, gw, gp>>
  ELSE Mismatch(<<"cut", "not-applicable", E.k>>)

\* what the reader handed to raft, in the order of the Process calls over all connections of
\* the scenario: an order-preserving, duplicate-free subsequence of what was written
NextMatch == {j \in (gp + 1)..Len(gw) : gw[j] = E.dig}
OnDeliver ==
  IF gp = -1 THEN Same
  ELSE IF NextMatch # {}
  THEN /\ gp' = CHOOSE j \in NextMatch : \A i \in NextMatch : j <= i
       /\ UNCHANGED <<cvars, sentd, ends, bad, gw>>
  ELSE Note(<<"deliver", "duplicate-or-out-of-order", E.seq>>)

\* ---- transfer status: what the sender's raft is told against what the receiver got
\* (codecsim -report).  kind: "snap" (snapshotSender -> snapshotHandler), "pipe-snap" /
\* "pipe-app" (pipeline -> pipelineHandler with MsgSnap / MsgApp).  A transfer is delivered
\* when the receiver's raft got the message that was sent and (snapshot) the saver took the
\* whole body.  Success may be reported only for a delivered transfer; an undelivered one is
\* always reported as failure; a snapshot transfer gets exactly one ReportSnapshot (a lost
\* answer after delivery may be reported as failure: the leader then sends again);
\* ReportUnreachable never accompanies success and comes at most once; an append through
\* the pipeline gets no ReportSnapshot, and ReportUnreachable exactly when it is not known to
\* be delivered; an undisturbed transfer succeeds.
ReportClass ==
  LET delivered == E.processed /\ E.saved /\ E.recvdig = E.sentdig
      snapk     == E.kind \in {"snap", "pipe-snap"} IN
  IF E.processed /\ E.recvdig # E.sentdig THEN "different-message"
  ELSE IF snapk /\ E.finish + E.failure = 0 THEN "no-report"
  ELSE IF snapk /\ E.finish + E.failure > 1 THEN "more-than-one-report"
  ELSE IF E.finish >= 1 /\ ~delivered THEN "finish-without-delivery"
  ELSE IF ~snapk /\ E.finish + E.failure > 0 THEN "snapshot-report-for-append"
  ELSE IF ~snapk /\ ~delivered /\ E.unreachable # 1 THEN "failure-not-reported"
  ELSE IF E.finish >= 1 /\ E.unreachable > 0 THEN "unreachable-with-success"
  ELSE IF E.unreachable > 1 THEN "unreachable-twice"
  ELSE IF E.fault = "none" /\ (~delivered \/ E.unreachable > 0 \/ (snapk /\ E.finish # 1))
       THEN "undisturbed-transfer-failed"
  ELSE "ok"
OnReport == IF ReportClass = "ok" THEN Same
            ELSE Note(<<"report", ReportClass, E.kind, E.fault>>)

TNext ==
  /\ l <= Len(Trace)
  /\ l' = l + 1
  /\ IF E.ev = "reset"
     THEN /\ cfg' = [compact |-> E.stream = "v2", local |-> E.local, remote |-> E.remote]
          /\ enc' = Ctx0 /\ dec' = Ctx0 /\ wire' = <<>> /\ sent' = <<>> /\ recvd' = <<>>
          /\ damaged' = FALSE /\ closed' = FALSE /\ whole' = 0
          /\ sentd' = <<>> /\ ends' = <<>> /\ bad' = FALSE
          /\ IF E.stage = "conn" THEN UNCHANGED <<gw, gp>> ELSE gw' = <<>> /\ gp' = 0
     ELSE IF E.ev = "scenario"
     THEN gw' = <<>> /\ gp' = 0 /\ UNCHANGED <<cvars, sentd, ends, bad>>
     ELSE IF E.ev = "deliver" THEN OnDeliver
     ELSE IF bad THEN Same     \* model and code have parted: nothing more to judge here
     ELSE CASE E.ev = "late"    -> OnLate
            [] E.ev = "trunc"   -> OnTrunc
            [] E.ev = "corrupt" -> OnCorrupt
            [] E.ev = "enc"     -> OnEnc
            [] E.ev = "dec"     -> OnDec
            [] E.ev = "cut"     -> OnCut
            [] E.ev = "report"  -> OnReport
            [] OTHER            -> Mismatch(<<E.ev, "no-such-action", "">>)

TSpec == TInit /\ [][TNext]_tvars

\* every line consumed: one state per line plus the initial state
AllConsumed == TLCGet("stats").diameter - 1 = Len(Trace)
=============================================================================
