------------------------------ MODULE MC_ZRaft ------------------------------
(* Bounded instances of ZRaft for exhaustive TLC runs.  One module, one .cfg   *)
(* per property family (MC_ZRaft_Election_pq / _Log / _Crash / _Conf); the      *)
(* feature set differs per family, the actions are ZRaft's own.  Everything     *)
(* that grows is bounded: terms, log length, total elections, messages in       *)
(* flight, duplications, crashes, proposals.  History variables are hidden by   *)
(* the VIEW.  The groups start from the state every bootstrap reaches anyway:   *)
(* the initial configuration entries applied, persisted and snapshotted.        *)
EXTENDS ZRaft

CONSTANTS MaxTerm, MaxLog, MaxElect, MaxMsgs, MaxDup, MaxCrash, MaxProp, MaxConf, MaxReads,
          ConfOps,      \* set of <<kind, replica>> the leader may propose
          FCrash, FSnap, FTransfer, FHeartbeat, FResend, FPartial

VARIABLE cnt

mcvars == <<st, dur, rdy, net, leaders, grants, gc, gct, gcq, gapp, bad, cnt>>
view == <<st, dur, rdy, net, cnt>>

Seq123 == <<1, 2, 3>>
Seq12 == <<1, 2>>
Seq1 == <<1>>
OpsNone == {}
OpsGrow == {<<"av", 3>>}
OpsGrow2 == {<<"av", 2>>, <<"av", 3>>}
OpsLearner == {<<"al", 3>>, <<"av", 3>>}
OpsShrink == {<<"rm", 3>>, <<"rm", 2>>}
OpsMixed == {<<"al", 3>>, <<"av", 3>>, <<"rm", 2>>}

NB == Len(InitVoterSeq)
BootSnap == [idx |-> NB, term |-> 1, voters |-> InitVoters, learners |-> {}]
BootHS == [term |-> 1, vote |-> 0, commit |-> NB]
BootSt(i) == [Blank EXCEPT !.up = TRUE, !.term = 1, !.off = NB, !.offTerm = 1, !.commit = NB, !.applied = NB,
                           !.stable = NB, !.voters = InitVoters,
                           !.match = [j \in Server |-> IF j = i THEN NB ELSE 0],
                           !.nx = [j \in Server |-> NB + 1], !.phs = BootHS]
BootDur == [NoDur EXCEPT !.hs = BootHS, !.shs = BootHS, !.off = NB, !.offTerm = 1, !.snap = BootSnap]

MCInit == /\ st = [i \in Server |-> IF i \in InitVoters THEN BootSt(i) ELSE Blank]
          /\ dur = [i \in Server |-> IF i \in InitVoters THEN BootDur ELSE NoDur]
          /\ rdy = [i \in Server |-> NoRd] /\ net = {} /\ leaders = {} /\ grants = {}
          /\ gc = [k \in 1..NB |-> Ent(1, "av", InitVoterSeq[k])] /\ gct = [k \in 1..NB |-> 1]
          /\ gcq = [k \in 1..NB |-> {}] /\ gapp = [k \in 1..NB |-> Ent(1, "av", InitVoterSeq[k])]
          /\ bad = {} /\ cnt = [elect |-> 0, dup |-> 0, crash |-> 0, prop |-> 0, conf |-> 0, read |-> 0]

Same(c) == cnt' = c
Keep == UNCHANGED cnt

Timeout(i) == /\ Idle(i) /\ cnt.elect < MaxElect /\ st[i].term < MaxTerm
              /\ LET res == Hup(st[i], i, IF PreVote THEN "pre" ELSE "elect") IN
                 /\ res.s # st[i]
                 /\ InputStep(i, st[i], res, CanonFlow(i, st[i], res.s), {})
              /\ cnt' = [cnt EXCEPT !.elect = @ + 1]
StepDown(i) == /\ CheckQuorum /\ Idle(i) /\ st[i].role = "L"
               /\ InputStep(i, st[i], Res(BecomeFollower(st[i], i, st[i].term, 0), {}), {}, {})
               /\ Keep
Deliver(i, m) == Recv(i, m, FALSE) /\ Keep
DupDeliver(i, m) == cnt.dup < MaxDup /\ Recv(i, m, TRUE) /\ cnt' = [cnt EXCEPT !.dup = @ + 1]
ClientReq(i) == /\ cnt.prop < MaxProp /\ Propose(i, cnt.prop + 1) /\ cnt' = [cnt EXCEPT !.prop = @ + 1]
ConfReq(i, op) == /\ cnt.conf < MaxConf /\ ProposeConf(i, op[1], op[2]) /\ cnt' = [cnt EXCEPT !.conf = @ + 1]
Join(i) == /\ i \notin InitVoters /\ \E op \in ConfOps : op[2] = i
           /\ Start(i, FALSE, <<"al", i>> \in ConfOps) /\ Keep
Resend(i, j) == FResend /\ SendApp(i, j) /\ Keep
Beat(i, j) == FHeartbeat /\ Heartbeat(i, j) /\ Keep
SnapTo(i, j) == FSnap /\ SendSnap(i, j) /\ Keep
TakeSnap(i) == FSnap /\ Snapshot(i) /\ Keep
Xfer(i, x) == FTransfer /\ Transfer(i, x) /\ Keep
ReadReq(i) == /\ cnt.read < MaxReads /\ st[i].up /\ ReadIndex(i, cnt.read + 1) /\ cnt' = [cnt EXCEPT !.read = @ + 1]
DoCrash(i) == /\ FCrash /\ cnt.crash < MaxCrash /\ Crash(i, FALSE) /\ cnt' = [cnt EXCEPT !.crash = @ + 1]
DoRestart(i) == FCrash /\ dur[i] # NoDur /\ Restart(i) /\ Keep
Take(i) == TakeReady(i, IF st[i].commit >= HFrom(st[i]) THEN st[i].commit ELSE 0) /\ Keep
TakeNone(i) == FPartial /\ st[i].commit >= HFrom(st[i]) /\ TakeReady(i, 0) /\ Keep
PersistAll(i) == Persist(i, "all") /\ Keep
PersistEntsOnly(i) == FPartial /\ Persist(i, "ents") /\ Keep
PersistHSAfter(i) == FPartial /\ Persist(i, "hs") /\ Keep
DoSend(i) == Send(i) /\ Keep
DoAdvance(i) == Advance(i) /\ Keep
DoApplyConf(i) == ApplyConf(i) /\ Keep

\* labelled forms (arguments are simple values, so TLC's action labels can steer the driver)
MsgTypes == {"MsgVote", "MsgVoteResp", "MsgPreVote", "MsgPreVoteResp", "MsgApp", "MsgAppResp", "MsgHeartbeat",
             "MsgHeartbeatResp", "MsgSnap", "MsgTimeoutNow", "MsgProp", "MsgTransferLeader", "MsgReadIndex",
             "MsgReadIndexResp"}
DeliverL(i, j, t) == \E m \in net : m.to = i /\ m.from = j /\ m.t = t /\ Deliver(i, m)
DupDeliverL(i, j, t) == \E m \in net : m.to = i /\ m.from = j /\ m.t = t /\ DupDeliver(i, m)
ConfReqL(i, k, x) == <<k, x>> \in ConfOps /\ ConfReq(i, <<k, x>>)

MCNext ==
  \/ \E i \in Server : Timeout(i) \/ StepDown(i) \/ ClientReq(i) \/ Join(i) \/ TakeSnap(i) \/ ReadReq(i)
                       \/ DoCrash(i) \/ DoRestart(i) \/ Take(i) \/ TakeNone(i) \/ PersistAll(i)
                       \/ PersistEntsOnly(i) \/ PersistHSAfter(i) \/ DoSend(i) \/ DoAdvance(i) \/ DoApplyConf(i)
  \/ \E i, x \in Server, k \in {"av", "al", "rm"} : ConfReqL(i, k, x)
  \/ \E i, j \in Server : Resend(i, j) \/ Beat(i, j) \/ SnapTo(i, j) \/ Xfer(i, j)
  \/ \E i, j \in Server, t \in MsgTypes : DeliverL(i, j, t) \/ DupDeliverL(i, j, t)

MCSpec == MCInit /\ [][MCNext]_mcvars

Bound == /\ \A i \in Server : st[i].term <= MaxTerm /\ Len(st[i].log) <= MaxLog
         /\ Cardinality(net) <= MaxMsgs

\* the canonical leader messages of the model are messages the trace specification would accept
ModelFlowOK == \A i \in Server : st[i].up /\ st[i].role = "L" =>
                 \A o \in st[i].out : o.t \in {"MsgApp", "MsgHeartbeat", "MsgSnap"} /\ o.term = st[i].term => FlowOK(i, st[i], dur[i], o)
=============================================================================
