---------------------------- MODULE ZSyncSender ----------------------------
(* Cross-cluster log replay, SENDING side (property C19), on top of ZSync's   *)
(* receiver.  A sender is one incarnation of the source cluster's log syncer  *)
(* (node/syncer_learner.go logSyncerSM + node/log_sender.go): its raft applies *)
(* the source log into a buffer, a send loop ships the buffer as one batch     *)
(* through ApplyRaftReqs and, when the call has been answered without error,   *)
(* records the last entry of the batch as synced.  Actions:                    *)
(*   Buffer(s)         ApplyRaftRequest of the syncer state machine: the next  *)
(*                     source entry goes into sendCh / raftLogs                *)
(*   Flush(s, ok)      the send loop takes the whole buffer as a batch; if the *)
(*                     destination's position as fetched WHEN THE LOOP STARTED *)
(*                     already covers the LAST entry nothing is sent; otherwise*)
(*                     the batch goes through the receiver's receive-time      *)
(*                     filter into its raft log (ok) or the call fails and the *)
(*                     buffer is kept for the retry (~ok: receiver not ready,  *)
(*                     refused, timed out - a prefix may have been queued)     *)
(*   AckSynced         part of Flush: the sender's synced position := last     *)
(*   SenderRestart(s,j) a new incarnation: its raft replays from an index j at *)
(*                     or below its synced position + 1 (the syncer's raft     *)
(*                     snapshot waits for the buffered logs), the loop fetches *)
(*                     the destination's position once                         *)
(* Several incarnations may run at the same time (the old leader's syncer is   *)
(* still flushing while the new one starts).  The delivery environment of      *)
(* ZSync (RecvEntry) is replaced by the senders, so gap-freeness is no longer  *)
(* an assumption but a consequence.                                            *)
EXTENDS ZSync

CONSTANTS Senders,     \* sender incarnations that may be alive at the same time
          FlushTest    \* "last" (the design) | "first" (mutant: decides from the first buffered entry)

VARIABLES snext,   \* [Senders -> 1..N+1]  next source entry the sender's raft applies
          sbuf,    \* [Senders -> Seq]     buffered entries
          sstate,  \* [Senders -> Nat]     destination's position fetched when the send loop started
          spos     \* [Senders -> Nat]     what the sender records as synced

xvars == <<rlog, applied, effects, synced, pc, snap, handed, replayTo, seen, snext, sbuf, sstate, spos>>

XInit ==
  /\ SInit
  /\ snext = [s \in Senders |-> 1] /\ sbuf = [s \in Senders |-> <<>>]
  /\ sstate = [s \in Senders |-> 0] /\ spos = [s \in Senders |-> 0]

RecvUnchanged == UNCHANGED <<applied, effects, synced, pc, snap, handed, replayTo, seen>>

Buffer(s) ==
  /\ snext[s] <= N
  /\ sbuf'  = [sbuf EXCEPT ![s] = Append(@, snext[s])]
  /\ snext' = [snext EXCEPT ![s] = @ + 1]
  /\ UNCHANGED <<rlog, sstate, spos>> /\ RecvUnchanged

Taken(b) == SelectSeq(b, LAMBDA i : ~(RecvFilter /\ Old(i, synced)))

Flush(s, ok, cut) ==
  /\ sbuf[s] # <<>>
  /\ LET b    == sbuf[s]
         test == IF FlushTest = "last" THEN b[Len(b)] ELSE b[1]
     IN IF sstate[s] >= test
        THEN \* "remote is already replayed this raft log": acknowledged without sending
             /\ UNCHANGED rlog
             /\ spos' = [spos EXCEPT ![s] = b[Len(b)]] /\ sbuf' = [sbuf EXCEPT ![s] = <<>>]
        ELSE IF ok /\ applied >= replayTo
        THEN /\ rlog' = rlog \o Taken(b)
             /\ spos' = [spos EXCEPT ![s] = b[Len(b)]] /\ sbuf' = [sbuf EXCEPT ![s] = <<>>]
        ELSE \* the call failed: the first `cut` entries may have been queued; the batch is sent again
             /\ cut \in 0..Len(b)
             /\ rlog' = IF applied >= replayTo THEN rlog \o Taken(SubSeq(b, 1, cut)) ELSE rlog
             /\ UNCHANGED <<spos, sbuf>>
  /\ UNCHANGED <<snext, sstate>> /\ RecvUnchanged

SenderRestart(s, j) ==
  /\ j \in 1..N /\ j <= spos[s] + 1
  /\ snext'  = [snext EXCEPT ![s] = j]
  /\ sbuf'   = [sbuf EXCEPT ![s] = <<>>]
  /\ sstate' = [sstate EXCEPT ![s] = synced]
  /\ UNCHANGED <<rlog, spos>> /\ RecvUnchanged

\* the receiver's own steps leave the senders alone
Recv(A) == A /\ UNCHANGED <<snext, sbuf, sstate, spos>>

-------------------------------------------------------------------------------
\* destination applied = exactly a prefix of the source log, no entry twice
DestinationIsPrefix == RemoteExactlyOnce

\* whatever a sender records as synced is at the destination once its raft log has been gone through
SenderTruthful ==
  (applied = Len(rlog) /\ pc = "idle" /\ applied >= replayTo) => \A s \in Senders : spos[s] <= synced
=============================================================================
