SPECIFICATION Spec
CONSTANTS
  Stores = {1, 2}
  CutBeforeNotify = TRUE
  PurgeBelowSnapOnly = TRUE
  RestoreCopies = TRUE
  SharedFilesSafe = TRUE
  MaxLen = 3
  MaxTerm = 2
  MaxCkpt = 2
  MaxRestore = 3
INVARIANTS CheckpointExact CheckpointImmutable PurgeKeepsRestorable SnapRestorable
