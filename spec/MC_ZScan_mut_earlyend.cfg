SPECIFICATION Spec
CONSTANTS
  NPos = 4
  MaxWrites = 2
  Mut = "earlyend"
INVARIANTS Ordered NothingForeign MatchExact ScanCompleteOnceOrdered Terminates
