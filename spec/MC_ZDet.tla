------------------------------- MODULE MC_ZDet -------------------------------
(* Bounded instance of ZDet: every log of length N over Cmds x Keys x Times,   *)
(* every placement of apply-group ends, checkpoints, one restart per run and   *)
(* (where WallTimes has more than one value) every movement of the wall clock. *)
EXTENDS ZDet

Entries == [c : Cmds, k : Keys, t : Times]

Init == /\ log \in [1..N -> Entries]
        /\ store = EmptyStore /\ wb = <<>> /\ batching = FALSE /\ dup = {} /\ pend = <<>>
        /\ pos = 1 /\ wall \in WallTimes
        /\ snap = [st |-> EmptyStore, pos |-> 1]
        /\ run = 1 /\ restarts = 0
        /\ reply = EmptyMap /\ dump = EmptyMap /\ conflict = FALSE

Next == \/ Apply
        \/ Cut
        \/ \E t \in WallTimes : Tick(t)
        \/ TakeSnap
        \/ Restart
        \/ EndRun

Spec == Init /\ [][Next]_dvars
=============================================================================
