SPECIFICATION Spec
CONSTANTS
  NPos = 4
  MaxWrites = 2
  Mut = "inclusive"
INVARIANTS Ordered NothingForeign MatchExact ScanCompleteOnceOrdered Terminates
