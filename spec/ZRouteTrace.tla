----------------------------- MODULE ZRouteTrace -----------------------------
(* Trace validation for ZRoute (property C15): one ndjson trace per real       *)
(* server (harness `routesim -mode serve`).  Line 1 (`reset`) gives the number *)
(* of partitions, the partitions the server hosts and, for every key id, the   *)
(* partition the official SDK computes - it instantiates P, Hosted, Keys and   *)
(* the variable `part`.  Every `cmd` line is a redis command sent to the       *)
(* server with its reply; the specification demands                            *)
(*   - an error reply, and no effect, exactly when a key's partition is not    *)
(*     hosted by the server (a partition that is not hosted must reject);      *)
(*   - otherwise the reply one store holding all keys would give               *)
(*     (MergedEqualsSingleStore): DEL / EXISTS counts, MGET values in argument *)
(*     order, PLSET one OK per pair.                                           *)
(* Every `where` line lists the partitions whose stores really hold a key:     *)
(* exactly the SDK's partition if the key exists, none otherwise               *)
(* (OnlyOwnerExecutes).                                                        *)
(* The first disagreement is printed as <<"MISMATCH", line, <<what, exp>>>>    *)
(* and the rest of the trace is skipped.                                       *)
EXTENDS ZRoute, Json, IOUtils, TLC

VARIABLES l, bad

Trace == ndJsonDeserialize(IOEnv.ZR_TRACE)
E == Trace[l]
Hdr == Trace[1]

TraceP      == Hdr.P
TraceHosted == {Hdr.hosted[i] : i \in 1..Len(Hdr.hosted)}
TraceKeys   == 1..Len(Hdr.part)
TraceVals   == 0..99
TraceNs     == [k \in 1..Len(Hdr.part) |-> Hdr.ns[k]]
TraceRefused == {Hdr.poison[i] : i \in 1..Len(Hdr.poison)}

tvars == <<part, store, ref, reply, refReply, touched, l, bad>>

Mismatch(what, exp) ==
  /\ bad' = TRUE
  /\ PrintT(<<"MISMATCH", l, <<what, exp>>>>)
  /\ UNCHANGED rvars

Ks == [i \in 1..Len(E.ks) |-> E.ks[i]]
Vs == [i \in 1..Len(E.vs) |-> E.vs[i]]
Seq1(x) == [i \in 1..Len(x) |-> x[i]]

MustReject ==
  IF E.name \in {"set", "get"} THEN ~Served(Ks[1]) ELSE ~MultiServed(Ks)

\* what one store holding all keys answers
Expected ==
  CASE E.name = "set"    -> <<"OK">>
    [] E.name = "get"    -> <<GetV(ref, Ks[1])>>
    [] E.name = "del"    -> DelReply(ref, Ks)
    [] E.name = "exists" -> ExistsReply(ref, Ks)
    [] E.name = "mget"   -> MGetReply(ref, Ks)
    [] E.name = "plset"  -> Statuses(Ks)

Observed ==
  CASE E.name \in {"set", "plset"}  -> Seq1(E.oks)
    [] E.name \in {"get", "mget"}   -> Seq1(E.vals)
    [] E.name \in {"del", "exists"} -> E.n

\* short form of an expected value for the MISMATCH line
Short(x) == IF E.name \in {"del", "exists"} THEN x ELSE Len(x)

TCmd ==
  IF E.name \notin {"set", "get", "del", "exists", "mget", "plset"} THEN Mismatch("no-such-command", 0)
  ELSE IF MustReject
       THEN IF E.err THEN Rejected /\ UNCHANGED bad
            ELSE Mismatch("served-by-a-partition-that-is-not-hosted", E.name)
  ELSE IF E.err THEN Mismatch("rejected-although-the-partition-is-hosted", E.name)
  ELSE IF Observed # Expected THEN Mismatch("reply-differs-from-one-store", <<E.name, Short(Expected)>>)
  ELSE /\ CASE E.name = "set"    -> Set(Ks[1], Vs[1])
            [] E.name = "get"    -> Get(Ks[1])
            [] E.name = "del"    -> Del(Ks)
            [] E.name = "exists" -> Exists(Ks)
            [] E.name = "mget"   -> MGet(Ks)
            [] E.name = "plset"  -> PLSet(Ks, Vs)
       /\ UNCHANGED bad

TWhere ==
  LET seenIn == {E.parts[i] : i \in 1..Len(E.parts)}
      want   == {p \in Parts : E.k \in DOMAIN store[p]}
  IN IF seenIn # want THEN Mismatch("key-held-by-other-partitions-than-its-owner", want)
     ELSE UNCHANGED <<rvars, bad>>

TNext ==
  /\ l <= Len(Trace)
  /\ l' = l + 1
  /\ IF E.ev = "reset" THEN UNCHANGED <<rvars, bad>>     \* line 1: consumed by the initial state
     ELSE IF bad THEN UNCHANGED <<rvars, bad>>
     ELSE CASE E.ev = "cmd"   -> TCmd
            [] E.ev = "where" -> TWhere
            [] E.ev = "abort" -> bad' = TRUE /\ UNCHANGED rvars
            [] OTHER          -> Mismatch("no-such-action", E.ev)

TInit ==
  /\ part = [k \in Keys |-> Hdr.part[k]]
  /\ store = [p \in Parts |-> Empty]
  /\ ref = Empty /\ reply = 0 /\ refReply = 0 /\ touched = {}
  /\ l = 1 /\ bad = FALSE

TSpec == TInit /\ [][TNext]_tvars

\* the server's own partition function agrees with the SDK's on the keys of this trace
ServerAgrees == \A k \in Keys : Hdr.srv[k] = Hdr.part[k] /\ Hdr.part[k] \in Parts

AllConsumed == TLCGet("stats").diameter - 1 = Len(Trace)
=============================================================================
