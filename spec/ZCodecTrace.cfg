SPECIFICATION TSpec
CONSTANTS Mutant = "none"
INVARIANT Lossless
POSTCONDITION AllConsumed
CHECK_DEADLOCK FALSE
