SPECIFICATION Spec
CONSTANTS MaxOps = 4 MaxSnaps = 3 MaxCrashes = 2 SnapEvery = 1 KeepSnap = 2 KeepCkpt = 1 ChanCap = 2 MaxTimeouts = 0
  Role = "single" Persistent = FALSE SafePublish = TRUE Install = FALSE AtomicRestore = TRUE InstLatestAfterSave = TRUE PurgePromptly = TRUE Mutant = ""
VIEW View
CHECK_DEADLOCK FALSE
INVARIANT Recoverable
INVARIANT PurgeKeepsRestorable
INVARIANT NoPhantom
INVARIANT AckedCommitted
INVARIANT TriggerOnce
INVARIANT TriggerOwnAfterApply
INVARIANT NeverBoth
INVARIANT AckedDurable
