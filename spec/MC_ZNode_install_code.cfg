SPECIFICATION Spec
CONSTANTS MaxOps = 3 MaxSnaps = 2 MaxCrashes = 1 SnapEvery = 1 KeepSnap = 3 KeepCkpt = 1 ChanCap = 2 MaxTimeouts = 1
  Role = "follower" Persistent = TRUE SafePublish = TRUE Install = TRUE AtomicRestore = TRUE InstLatestAfterSave = FALSE PurgePromptly = TRUE Mutant = ""
VIEW View
CHECK_DEADLOCK FALSE
INVARIANT Recoverable
INVARIANT PurgeKeepsRestorable
INVARIANT NoPhantom
INVARIANT AckedCommitted
INVARIANT TriggerOnce
INVARIANT TriggerOwnAfterApply
INVARIANT NeverBoth
INVARIANT AckedDurable
INVARIANT InstalledDurable
