----------------------------- MODULE ZCodecConn ------------------------------
(* Stream level of property C16: one writer (streamWriter) and one reader     *)
(* (streamReader) of a peer stream over a sequence of connections.  A          *)
(* connection can be cut at any byte; the reader then gets the whole frames    *)
(* before the cut and an error, dials again, and the writer goes on on the new *)
(* connection.  A new connection starts with a fresh encoder AND a fresh       *)
(* decoder context.  Contract: what raft is handed (delivered) is an           *)
(* order-preserving, duplicate-free subsequence of what was written, it is     *)
(* exactly the written sequence minus the messages whose frame lay (partly)    *)
(* behind a cut, nothing of a cut frame is delivered, and every delivered      *)
(* message equals the written one.                                             *)
EXTENDS ZCodec, FiniteSets

VARIABLES written,    \* messages the writer wrote, over all connections
          wids,       \* ids (positions in `written`) of the frames in `wire`; 0: nothing
          delivered,  \* [id, msg] handed to raft, in delivery order
          lost,       \* ids whose frame was cut or written to a dead connection
          conns       \* connections used so far

nvars == <<cvars, written, wids, delivered, lost, conns>>

NInit(k) == /\ CInit(k) /\ written = <<>> /\ wids = <<>> /\ delivered = <<>>
            /\ lost = {} /\ conns = 1

\* write m to the live connection
NSend(m) == /\ Send(m)
            /\ written' = Append(written, m)
            /\ wids' = Append(wids, Len(written) + 1)
            /\ UNCHANGED <<delivered, lost, conns>>

\* the connection is already dead but the writer has not noticed: the frame is lost, the
\* encoder context advances all the same
NSendLost(m) ==
  /\ damaged
  /\ enc' = EncAfter(enc, cfg, m, EncodeFrame(enc, cfg, m))
  /\ written' = Append(written, m)
  /\ lost' = lost \cup {Len(written) + 1}
  /\ UNCHANGED <<cfg, dec, wire, sent, recvd, damaged, closed, whole, wids, delivered, conns>>

\* the reader takes the next frame; a decoded message goes to raft
NDecode ==
  /\ Decode
  /\ LET r == DecodeFrame(dec, cfg, Head(wire)) IN
       delivered' = IF ~r.err THEN Append(delivered, [id |-> Head(wids), msg |-> r.msg])
                    ELSE IF Mutant = "partial" /\ Head(wids) # 0
                         THEN Append(delivered, [id |-> Head(wids), msg |-> written[Head(wids)]])
                    ELSE delivered
  /\ wids' = Tail(wids)
  /\ UNCHANGED <<written, lost, conns>>

\* the connection is cut: k unread whole frames survive
NCut(k) ==
  /\ Truncate(k)
  /\ wids' = Append(SubSeq(wids, 1, k), IF k < Len(wids) THEN wids[k + 1] ELSE 0)
  /\ lost' = lost \cup {wids[i] : i \in (k + 1)..Len(wids)}
  /\ UNCHANGED <<written, delivered, conns>>

\* the reader has seen the end of the old connection and dialled again; the writer got the
\* new connection attached: both ends start from the empty context
NAttach ==
  /\ closed
  /\ enc' = (IF Mutant \in {"keepenc", "keepboth"} THEN enc ELSE Ctx0)
  /\ dec' = (IF Mutant \in {"keepdec", "keepboth"} THEN dec ELSE Ctx0)
  /\ wire' = <<>> /\ wids' = <<>> /\ sent' = <<>> /\ recvd' = <<>>
  /\ damaged' = FALSE /\ closed' = FALSE /\ whole' = 0
  /\ conns' = conns + 1
  /\ UNCHANGED <<cfg, written, delivered, lost>>

-------------------------------------------------------------------------------
Ids(s) == {s[i].id : i \in 1..Len(s)}

\* at most once and in order
InOrderOnce == \A i, j \in 1..Len(delivered) : i < j => delivered[i].id < delivered[j].id
\* what is delivered is what was written
DeliveredFaithful == \A i \in 1..Len(delivered) : delivered[i].msg = written[delivered[i].id]
\* nothing of a cut frame, nothing written to a dead connection
NothingFromCut == Ids(delivered) \cap lost = {}
\* exactly the written sequence minus the lost messages, once a connection is drained
Exact == (closed \/ (wire = <<>> /\ ~damaged)) =>
           (Ids(delivered) \cup lost) = 1..Len(written)
=============================================================================
