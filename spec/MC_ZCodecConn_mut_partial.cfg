SPECIFICATION Spec
CONSTANTS
  Mutant = "partial"
  MaxWire = 2
  MaxWritten = 3
  MaxConns = 2
  MaxIdx = 2
INVARIANTS Lossless StepFaithful InOrderOnce DeliveredFaithful NothingFromCut Exact
