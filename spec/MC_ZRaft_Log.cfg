SPECIFICATION MCSpec
CONSTANTS
  Server = {1, 2, 3}
  InitVoterSeq <- Seq123
  PreVote = FALSE
  CheckQuorum = FALSE
  Mut = ""
  LazyApply = FALSE
  Collapsed = TRUE
  MaxAppEnts = 1
  MaxTerm = 3
  MaxLog = 3
  MaxElect = 2
  MaxMsgs = 3
  MaxDup = 0
  MaxCrash = 0
  MaxProp = 2
  MaxReads = 0
  MaxConf = 0
  ConfOps <- OpsNone
  FCrash = FALSE
  FSnap = TRUE
  FTransfer = FALSE
  FHeartbeat = TRUE
  FResend = TRUE
  FPartial = FALSE
CONSTRAINT Bound
VIEW view
INVARIANTS ElectionSafety LearnerNeverCampaignsOrVotes VoteOncePerTerm LogMatching CommittedNeverTruncated StateMachineSafety LeaderCompleteness DurableCommit RestartSound ReadStateSafety
CHECK_DEADLOCK FALSE
