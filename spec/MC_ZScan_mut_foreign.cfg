SPECIFICATION Spec
CONSTANTS
  NPos = 4
  MaxWrites = 2
  Mut = "foreign"
INVARIANTS Ordered NothingForeign MatchExact ScanCompleteOnceOrdered Terminates
