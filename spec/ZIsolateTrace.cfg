SPECIFICATION TSpec
CONSTANTS
  NT = 3
  NK = 4
  Mut = "none"
POSTCONDITION AllConsumed
CHECK_DEADLOCK FALSE
