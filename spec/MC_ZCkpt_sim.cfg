SPECIFICATION Spec
CONSTANTS
  Stores = {1, 2}
  CutBeforeNotify = TRUE
  PurgeBelowSnapOnly = TRUE
  RestoreCopies = TRUE
  SharedFilesSafe = TRUE
  MaxLen = 7
  MaxTerm = 3
  MaxCkpt = 4
  MaxRestore = 5
INVARIANTS CheckpointExact CheckpointImmutable PurgeKeepsRestorable SnapRestorable
