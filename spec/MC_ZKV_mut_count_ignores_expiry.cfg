SPECIFICATION SpecH
CONSTANTS
  NKeys = 2
  Mut = "count-ignores-expiry"
  Policy = "wc"
  Subs = {1, 2}
  VIds = {2, 5}
  Times = {0, 1, 2, 3}
  Durs = {1, 2}
  RNow = 2
  MaxLen = 2
  MaxNum = 2
  FullKeys = {1}
  Dup = FALSE
  TCmds <- CmdsH
INVARIANTS CountsAgree
CHECK_DEADLOCK FALSE
