SPECIFICATION Spec
POSTCONDITION AllConsumed
CHECK_DEADLOCK FALSE
