SPECIFICATION Spec
CONSTANTS
  MaxCalls = 4
  MaxIdx = 3
  MaxTerm = 1
  MaxCut = 2
  WithCrash = FALSE
  Mutant = "release-keeps-one-less"
INVARIANTS SyncPolicy PurgeKeepsWhatRestartNeeds
