---------------------------- MODULE ZCodecOrdTrace ----------------------------
(* Evaluates ZCodecOrd on every case the driver (harness codecord) enumerated   *)
(* on the real codec and the real key encoders.                                 *)
(*                                                                              *)
(* Events:                                                                      *)
(*   reset                       a new family starts (chain and ranges cleared) *)
(*   tup  x enc dec derr ch      x encoded to enc and decoded back to dec; with *)
(*                               ch the case continues an ascending chain: the  *)
(*                               previous case must be <= x in TupleOrder and   *)
(*                               the encodings must compare the same way        *)
(*   pair xa ea xb eb            an extra, non-adjacent pair                    *)
(*   rng  id start stop closed   a range (one collection / one table) is declared*)
(*   key  x enc dec derr ch own  like tup for a full storage key; own = ids of  *)
(*                               the declared ranges the key belongs to; the key*)
(*                               must lie in exactly those                      *)
(* Mismatches are printed as <<"MISMATCH", line, what>>; the rest of the family *)
(* is skipped.                                                                  *)
EXTENDS ZCodecOrd, Json, IOUtils, TLC, SequencesExt

VARIABLES l, bad, prevx, preve, ranges

Trace == ndJsonDeserialize(IOEnv.ZR_TRACE)
E == Trace[l]

tvars == <<l, bad, prevx, preve, ranges>>

TInit == l = 1 /\ bad = FALSE /\ prevx = <<>> /\ preve = <<>> /\ ranges = {}

ChainOK == ~E.ch \/ (/\ TupleOrder(prevx, E.x) <= 0
                     /\ OrderPreserved(prevx, preve, E.x, E.enc))

What ==
  CASE E.ev \in {"tup", "key"} ->
         <<"roundtrip", RoundTrip(E.x, E.dec, E.derr), "bytes", IsBytes(E.enc), "chain", ChainOK,
           "order", IF E.ch THEN <<TupleOrder(prevx, E.x), CmpSeq(preve, E.enc)>> ELSE <<>>,
           "ranges", IF E.ev = "key" THEN {r.id : r \in {q \in ranges : InRange(q, E.enc)}} ELSE {}>>
    [] E.ev = "pair" -> <<"order", TupleOrder(E.xa, E.xb), CmpSeq(E.ea, E.eb)>>
    [] OTHER -> <<E.ev>>

Mismatch == /\ bad' = TRUE
            /\ PrintT(<<"MISMATCH", l, What>>)
            /\ UNCHANGED <<prevx, preve, ranges>>

TNext ==
  /\ l <= Len(Trace)
  /\ l' = l + 1
  /\ IF E.ev = "reset" THEN bad' = FALSE /\ prevx' = <<>> /\ preve' = <<>> /\ ranges' = {}
     ELSE IF bad THEN UNCHANGED <<bad, prevx, preve, ranges>>
     ELSE CASE E.ev = "tup" ->
                 IF RoundTrip(E.x, E.dec, E.derr) /\ IsBytes(E.enc) /\ ChainOK
                 THEN prevx' = E.x /\ preve' = E.enc /\ UNCHANGED <<bad, ranges>>
                 ELSE Mismatch
            [] E.ev = "pair" ->
                 IF OrderPreserved(E.xa, E.ea, E.xb, E.eb)
                 THEN UNCHANGED <<bad, prevx, preve, ranges>>
                 ELSE Mismatch
            [] E.ev = "rng" ->
                 /\ ranges' = ranges \cup {[id |-> E.id, start |-> E.start, stop |-> E.stop, closed |-> E.closed]}
                 /\ UNCHANGED <<bad, prevx, preve>>
            [] E.ev = "key" ->
                 IF /\ RoundTrip(E.x, E.dec, E.derr) /\ IsBytes(E.enc) /\ ChainOK
                    /\ Contained(ranges, ToSet(E.own), E.enc)
                 THEN prevx' = E.x /\ preve' = E.enc /\ UNCHANGED <<bad, ranges>>
                 ELSE Mismatch
            [] OTHER -> Mismatch

TSpec == TInit /\ [][TNext]_tvars

AllConsumed == TLCGet("stats").diameter - 1 = Len(Trace)
=============================================================================
