----------------------------- MODULE MC_ZIsolate -----------------------------
(* Bounded instance of ZIsolate: every command of the mixed command set on      *)
(* every tuple, up to MaxOps commands deep, with the recorded last command so   *)
(* that KeysIndependent can be stated as a state predicate over (before, after).*)
EXTENDS ZIsolate, TLC

CONSTANTS MaxOps, NS, Vals

VARIABLES prev,     \* the store before the last command
          last,     \* the last command: [op, u, a, b, r]
          n

mvars == <<st, ttl, prev, last, n>>

Subs == 1..NS
NoCmd == [op |-> "none", u |-> 1, a |-> 0, b |-> 0, r |-> 0, touch |-> {}]

Init == st = EmptyStore /\ ttl = {} /\ prev = EmptyStore /\ last = NoCmd /\ n = 0

Step(op, u, a, b) ==
  /\ n < MaxOps
  /\ n' = n + 1
  /\ prev' = st
  /\ last' = [op |-> op, u |-> u, a |-> a, b |-> b, r |-> ReplyOf(st, op, u, a, b),
              touch |-> Addressed(op, u, a)]
  /\ Do(op, u, a, b)

Args(op) == CASE op \in {"set", "rpush", "jset"}          -> Vals \X {0}
              [] op \in {"bitset", "pfadd"}               -> Subs \X {0}
              [] op \in {"hset", "zadd"}                   -> Subs \X Vals
              [] op \in {"hdel", "sadd", "srem", "zrem"}   -> Subs \X {0}
              [] op = "zrembyscore"                        -> {<<1, 1>>, <<1, 2>>, <<2, 2>>}
              [] op \in {"zrembylex"}                       -> {<<0, 0>>, <<11, 11>>, <<10, 21>>, <<11, 0>>}
              [] OTHER                                     -> {<<0, 0>>}

Next == \/ \E u \in Tups : \E op \in OpsOf(TyOf(u)) : \E ab \in Args(op) :
             /\ (op \in {"rpush"} => Len(st[u]) < 2)
             /\ Step(op, u, ab[1], ab[2])
        \/ \E t \in 1..NT : Step("deltable", 1, t, 0)
        \/ Step("runexpiry", 1, 0, 0)

Spec == Init /\ [][Next]_mvars

\* C12 on the model: whatever the last command did not address is unchanged, and its
\* reply is the same in every store that agrees with this one on what it addressed
KeysIndependent ==
  /\ \A x \in Tups : x \notin last.touch => st[x] = prev[x]
  /\ last.op \notin {"none", "deltable", "runexpiry"} =>
       last.r = Effect(prev[last.u], last.op, last.a, last.b)[2]
=============================================================================
