SPECIFICATION SpecKV
CONSTANTS
  NKeys = 2
  Mut = "modify-clears-expiry"
  Policy = "wc"
  Subs = {1, 2}
  VIds = {2, 5}
  Times = {0, 1, 2, 3}
  Durs = {1, 2}
  RNow = 2
  MaxLen = 2
  MaxNum = 3
  FullKeys = {1}
  Dup = FALSE
  TCmds <- CmdsKV
INVARIANTS ModifyKeepsExpiry
CHECK_DEADLOCK FALSE
