SPECIFICATION TSpec
CONSTANTS
  Nodes <- TraceNodes
  R <- TraceR
  InitK <- TraceR
  Parts <- TraceParts
  Writers = {1}
  RSet <- TraceRSet
  RmNodes = {}
  MaxEpoch = 0
  MaxID = 0
  G_OnePending = TRUE
  G_Quorum = TRUE
  G_Reachable = TRUE
  G_SyncAdd = TRUE
  G_NoAddPending = TRUE
  G_FreshID = TRUE
  G_Distinct = TRUE
  G_LeftRaft = TRUE
  G_CAS = TRUE
  G_Surplus = TRUE
  G_Unlisted = TRUE
  CountCalls = FALSE
  MaxDown = 64
  MaxUnsynced = 64
POSTCONDITION AllConsumed
CHECK_DEADLOCK FALSE
