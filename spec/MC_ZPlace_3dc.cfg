SPECIFICATION PSpec
CONSTANTS
  Nodes <- MCNodes6
  DCOf <- MCDC6
  Ps = {2}
  Rs = {2, 3}
  Algos = {"v1", "v2"}
  MaxEvents = 2
  Layout <- MCLayout
INVARIANTS ContractHolds Deterministic
