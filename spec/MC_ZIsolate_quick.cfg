SPECIFICATION Spec
CONSTANTS
  NT = 2
  NK = 1
  NS = 2
  Vals = {1, 2}
  MaxOps = 3
  Mut = "none"
INVARIANTS TypeOK Canonical KeysIndependent
