------------------------------- MODULE ZCoord -------------------------------
(* Replica migration by the placement driver's coordinator (property C18).      *)
(*                                                                             *)
(* One partition.  The coordinator owns the partition's metadata record        *)
(*    [nodes  : sequence of data nodes (RaftNodes),                            *)
(*     ids    : node -> raft replica id (RaftIDs),                             *)
(*     rem    : set of nodes marked for removal (Removings),                   *)
(*     maxid  : MaxRaftID,  epoch : version of the record in the store]        *)
(* and changes it only by compare-and-swap on the epoch, one step at a time:   *)
(*    Mark(n)    a replica is marked for removal                               *)
(*    Add(n)     one new replica is appended with a fresh raft id              *)
(*    Finish(n)  a marked replica that has left the raft group is dropped      *)
(* The environment: data nodes go down and come up, answer or refuse the       *)
(* "is your raft log in sync" query, and the raft group follows the metadata   *)
(* at its own pace (`members` = what reachable data nodes report as the raft   *)
(* group's membership).                                                        *)
(*                                                                             *)
(* Sources: the statement of C18, doc/design.md (migration keeps a quorum,     *)
(* replicas are moved one at a time), and the design intent stated in the      *)
(* comments of pd_coordinator.go ("at most one node removing", "add raft node  *)
(* one by one to avoid 2 un-synced raft nodes", "avoid removing any node if    *)
(* current alive replicas is not enough", "wait removing node removed from     *)
(* raft group") - NOT the code's control flow.  The pure operators (Can*,      *)
(* *Of, the invariants) are reused by ZCoordTrace on records written by the    *)
(* real coordinator.                                                           *)
EXTENDS Integers, Sequences, FiniteSets

CONSTANTS Nodes,       \* data nodes (integers)
          R,           \* configured replication factor (at the start)
          InitK,       \* number of replicas of the initial layout
          Parts,       \* partitions of the namespace (they share the data nodes)
          Writers,     \* coordinators that may write (2 = a PD leader fail-over in which the old
                       \* leader keeps acting on its stale view for a while)
          RSet,        \* replication factors ChangeFactor may switch to ({R} = fixed factor)
          RmNodes,     \* data nodes the operator may mark for removal from the cluster ({} = never)
          MaxEpoch,    \* bound: number of metadata writes explored
          MaxID        \* bound: largest raft id explored
\* guards that can be switched off one at a time (spec mutants; all TRUE = the design)
CONSTANTS G_OnePending,    \* no removal is marked while another one is pending
          G_Quorum,        \* a removal must leave a strict majority of R
          G_Reachable,     \* no removal is marked when more than half of the replicas are unreachable
          G_SyncAdd,       \* a replica is only added when the current replicas report in sync
          G_NoAddPending,  \* no replica is added while a removal is pending
          G_FreshID,       \* a new replica gets maxid+1 and maxid is stored with it
          G_Distinct,      \* a node is never added twice
          G_LeftRaft,      \* a removal is only finished after the replica left the raft group
          G_CAS,           \* a write from a stale copy of the record fails
          G_Unlisted,      \* a node marked for removal is reported removable only when no partition lists it
          G_Surplus        \* a balance / check round only removes a replica of a live node when the
                           \* partition has more in-sync replicas than the factor (add first, then remove)
CONSTANTS MaxDown, MaxUnsynced  \* environment bounds (number of nodes): how many nodes may be down / answer
                                \* "not in sync" at the same time (N = unrestricted)
CONSTANT CountCalls        \* TRUE: coordinator calls are counted (every call is a visible step even if
                           \* it decides to do nothing - used when behaviours are generated for replay);
                           \* FALSE for exhaustive checking

VARIABLES rf,         \* the replication factor in force (namespace meta; ChangeFactor changes it)
          rmn         \* data nodes marked for removal -> "marked" | "removable" (reported as transferred)

Range(s) == {s[i] : i \in DOMAIN s}
RemoveAt(s, x) == SelectSeq(s, LAMBDA y : y # x)

\* ------------------------------------------------------------ pure operators
NodeSet(m) == Range(m.nodes)
ISR(m)     == NodeSet(m) \ m.rem
Quorum(k)  == 2 * k > rf                \* k is a strict majority of the replication factor in force

\* the environment as the coordinator can observe it
\*   alive    : nodes registered / answering
\*   unsynced : nodes that answer "not in sync"
\*   members  : node -> raft id, the raft group as reported by every answering node
Unreachable(m, env) == NodeSet(m) \ env.alive
MajorityUnreachable(m, env) == 2 * Cardinality(Unreachable(m, env)) > Cardinality(NodeSet(m))
InRaft(m, n, env) == n \in DOMAIN env.members /\ n \in DOMAIN m.ids /\ env.members[n] = m.ids[n]
\* every current replica answers, reports every current replica as a member, and is in sync
ISRFullReady(m, env) == \A r \in ISR(m) : /\ r \in env.alive /\ r \notin env.unsynced
                                          /\ \A q \in ISR(m) : InRaft(m, q, env)
\* every replica that is alive answers "in sync"
\* A node the operator marked for removal from the cluster is no longer a placement candidate; the
\* coordinator treats its replicas like those of a lost node (it neither counts them as alive nor
\* asks them for their sync state), so they may be marked without a replacement being added first -
\* what remains must still be a strict majority and the other live replicas in sync.
Lost(n, env) == n \notin env.alive \/ n \in env.removing
AliveSynced(m, env) == \A r \in (NodeSet(m) \cap env.alive) \ env.removing : r \notin env.unsynced

\* Each guard has a name; XxxBroken(m, n, env) is the set of names of the guards a step would
\* break ({} = the step is allowed).  ZCoordTrace prints these names for a rejected real step.
If(c, name) == IF c THEN {} ELSE {name}

MarkBroken(m, n, env) ==
  If(n \in NodeSet(m) /\ n \notin m.rem, "Mark:NotAReplica")
  \cup If(G_OnePending => m.rem = {}, "Mark:AnotherRemovalPending")
  \cup If(G_Quorum => Quorum(Cardinality(ISR(m) \ {n})), "Mark:RemainingNotAMajority")
  \cup If(G_Reachable => ~MajorityUnreachable(m, env), "Mark:MajorityUnreachable")
  \* either the replica's node is lost (and the others are stable), or a planned move of a ready group
  \cup If((Lost(n, env) /\ AliveSynced(m, env)) \/ ISRFullReady(m, env), "Mark:GroupNotStable")
CanMark(m, n, env) == MarkBroken(m, n, env) = {}
MarkOf(m, n) == [m EXCEPT !.rem = @ \cup {n}]

AddBroken(m, n, env) ==
  If(G_Distinct => n \notin NodeSet(m), "Add:NodeAlreadyReplica")
  \cup If(n \in env.alive, "Add:NodeNotAlive")
  \cup If(n \notin env.removing, "Add:NodeBeingRemoved")     \* no new replica on a node marked for removal
  \cup If(G_NoAddPending => m.rem = {}, "Add:RemovalPending")
  \cup If(G_SyncAdd => ISRFullReady(m, env), "Add:ReplicasNotInSync")
  \* at most one surplus replica (a move adds before it removes)
  \cup If(Cardinality(ISR(m)) <= rf, "Add:AlreadySurplus")
CanAdd(m, n, env) == AddBroken(m, n, env) = {}
NewID(m) == IF G_FreshID THEN m.maxid + 1 ELSE m.maxid
AddOf(m, n) == [m EXCEPT !.nodes = Append(@, n),
                         !.ids = [x \in DOMAIN @ \cup {n} |-> IF x = n THEN NewID(m) ELSE @[x]],
                         !.maxid = NewID(m)]

FinishBroken(m, n, env) ==
  If(n \in m.rem, "Finish:NotMarked")
  \* every remaining replica was asked and none still reports the replica as a raft member
  \cup If(G_LeftRaft => ((\A r \in ISR(m) : r \in env.alive) /\ ~InRaft(m, n, env)), "Finish:StillInRaftGroup")
  \cup If(ISR(m) # {}, "Finish:LastReplica")
CanFinish(m, n, env) == FinishBroken(m, n, env) = {}
FinishOf(m, n) == [m EXCEPT !.nodes = RemoveAt(@, n),
                            !.ids = [x \in DOMAIN @ \ {n} |-> @[x]],
                            !.rem = @ \ {n}]

\* --------------------------------------------- invariants = the clauses of C18
\* on every record written:
AtMostOneRemoving(m) == Cardinality(m.rem) <= 1
QuorumKept(m)        == Quorum(Cardinality(ISR(m)))
DistinctNodes(m)     == Cardinality(NodeSet(m)) = Len(m.nodes)
IdsWellFormed(m)     == /\ DOMAIN m.ids = NodeSet(m)
                        /\ \A a, b \in NodeSet(m) : a # b => m.ids[a] # m.ids[b]
                        /\ \A a \in NodeSet(m) : m.ids[a] <= m.maxid
                        /\ m.rem \subseteq NodeSet(m)
RecordOK(m) == AtMostOneRemoving(m) /\ QuorumKept(m) /\ DistinctNodes(m) /\ IdsWellFormed(m)
RecordBroken(m) == If(AtMostOneRemoving(m), "C18:MoreThanOneRemoving")
                   \cup If(DistinctNodes(m), "C18:NodesNotDistinct")
                   \cup If(IdsWellFormed(m), "C18:IdsMalformed")
                   \cup (IF IdsWellFormed(m) THEN If(QuorumKept(m), "C18:RemainingNotAMajority") ELSE {})
\* The majority clause is about what REMAINS after a removal.  When the factor was raised above
\* twice the replica count by the operator, a record that adds a replica (or finishes a pending
\* removal) is still short of the majority but does not drop anything: a write is only judged
\* by the majority clause when it shrinks the in-sync set (with a fixed factor this is the same).
WriteBroken(old, new) ==
  (RecordBroken(new) \ {"C18:RemainingNotAMajority"})
  \cup (IF IdsWellFormed(new) /\ Cardinality(ISR(new)) < Cardinality(ISR(old))
        THEN If(QuorumKept(new), "C18:RemainingNotAMajority") ELSE {})

\* ----------------------------------------------------------------- behaviour
VARIABLES metas,     \* partition -> the record in the store
          views,     \* writer -> partition -> the copy that coordinator read earlier (possibly stale)
          alive, unsynced,
          mems,      \* partition -> raft membership as reported by answering nodes
          used,      \* history: partition -> every raft id ever handed out
          bad,       \* history: names of clauses that a write broke
          calls      \* number of coordinator calls (only counted if CountCalls)
cvars == <<metas, views, alive, unsynced, mems, used, bad, calls, rf, rmn>>
Called == calls' = IF CountCalls THEN calls + 1 ELSE calls

EnvP(p) == [alive |-> alive, unsynced |-> unsynced, members |-> mems[p], removing |-> DOMAIN rmn]
Copy(w, p, src) == IF src = "snap" THEN views[w][p] ELSE metas[p]

\* "starting from any valid layout": InitK replicas (a strict majority of R, at most R) on nodes
\* 1..InitK - which nodes is irrelevant by symmetry; InitK < R is a partition that lost replicas
\* earlier (their ids InitK+1..R are used up)
ASSUME InitK \in 1..R /\ 2 * InitK > R /\ R \in RSet
InitNodes == [i \in 1..InitK |-> i]
InitRec == [nodes |-> InitNodes, ids |-> [n \in 1..InitK |-> n], rem |-> {}, maxid |-> R, epoch |-> 1]
CInit == /\ metas = [p \in Parts |-> InitRec]
         /\ views = [w \in Writers |-> [p \in Parts |-> InitRec]]
         /\ alive = Nodes /\ unsynced = {}
         /\ mems = [p \in Parts |-> [n \in 1..InitK |-> n]]
         /\ used = [p \in Parts |-> 1..R]
         /\ bad = {}
         /\ calls = 0
         /\ rf = R
         /\ rmn = <<>>

\* compare-and-swap of the record of partition p computed from copy c.  Every clause of C18 that
\* the written record breaks - relative to the factor in force now - is remembered in `bad`.
Write(p, c, new, flags) ==
  IF c.epoch = metas[p].epoch \/ ~G_CAS
  THEN /\ metas' = [metas EXCEPT ![p] = [new EXCEPT !.epoch = metas[p].epoch + 1]]
       /\ used' = [used EXCEPT ![p] = @ \cup {new.ids[x] : x \in DOMAIN new.ids}]
       /\ bad' = bad \cup flags \cup WriteBroken(metas[p], new)
            \cup (IF \E x \in DOMAIN new.ids : (x \notin DOMAIN metas[p].ids \/ metas[p].ids[x] # new.ids[x])
                                                /\ new.ids[x] \in used[p]
                  THEN {"IdReused"} ELSE {})
  ELSE UNCHANGED <<metas, used, bad>>      \* CASFail: nothing is written

\* history flags for the action clauses (they can only fire in a mutant)
MarkFlags(p, c, n) == (IF MajorityUnreachable(c, EnvP(p)) THEN {"MarkedWhenMajorityUnreachable"} ELSE {})
AddFlags(p, c, n)  == (IF ~ISRFullReady(c, EnvP(p)) THEN {"AddedWhenNotInSync"} ELSE {})
                      \cup (IF c.rem # {} THEN {"AddedWhileRemovalPending"} ELSE {})
\* a move made by a balance or check round: add first, remove only the surplus
SurplusOK(c, n)    == (G_Surplus /\ n \in alive /\ n \notin DOMAIN rmn) => Cardinality(ISR(c)) > rf
RoundFlags(c, n)   == (IF n \in alive /\ n \notin DOMAIN rmn /\ Cardinality(ISR(c)) <= rf THEN {"RoundReducedInSync"} ELSE {})

DoMark(p, c, n)   == CanMark(c, n, EnvP(p)) /\ Write(p, c, MarkOf(c, n), MarkFlags(p, c, n))
DoRoundMark(p, c, n) == /\ CanMark(c, n, EnvP(p)) /\ SurplusOK(c, n)
                        /\ Write(p, c, MarkOf(c, n), MarkFlags(p, c, n) \cup RoundFlags(c, n))
DoAdd(p, c, n)    == CanAdd(c, n, EnvP(p)) /\ Write(p, c, AddOf(c, n), AddFlags(p, c, n))
DoFinish(p, c, n) == CanFinish(c, n, EnvP(p)) /\ Write(p, c, FinishOf(c, n), {})
Noop              == UNCHANGED <<metas, used, bad>>
Rest              == Called /\ UNCHANGED <<views, alive, unsynced, mems, rf, rmn>>

\* -- coordinator entry points (what the driver can call).  Doing nothing is always allowed.
\* Migrate: the reaction to lost replicas - mark a lost one, or add a replacement
Migrate(w, p, src) ==
  /\ LET c == Copy(w, p, src) IN
       \/ \E n \in NodeSet(c) : Lost(n, EnvP(p)) /\ DoMark(p, c, n)
       \/ \E n \in Nodes : Cardinality(NodeSet(c)) < rf /\ DoAdd(p, c, n)
       \/ Noop
  /\ Rest
\* decision functions called directly: add a replica / mark a replica of a ready group
PlanAdd(w, p, n, src) ==
  /\ LET c == Copy(w, p, src) IN DoAdd(p, c, n) \/ Noop
  /\ Rest
PlanRemove(w, p, n, src) ==
  /\ LET c == Copy(w, p, src) IN (ISRFullReady(c, EnvP(p)) /\ DoMark(p, c, n)) \/ Noop
  /\ Rest
Finish(w, p, src) ==
  /\ LET c == Copy(w, p, src) IN (\E n \in c.rem : DoFinish(p, c, n)) \/ Noop
  /\ Rest
\* a check round (doCheckNamespaces) on the current records is a sequence of steps on any of the
\* partitions; the model only needs a label for it: here it is one step of any kind
RoundStep(p) == \/ \E n \in metas[p].rem : DoFinish(p, metas[p], n)
                \/ \E n \in NodeSet(metas[p]) : DoRoundMark(p, metas[p], n)
                \/ \E n \in Nodes : Cardinality(NodeSet(metas[p])) < rf /\ DoAdd(p, metas[p], n)
CheckRound(w) ==
  /\ (\E p \in Parts : RoundStep(p)) \/ Noop
  /\ Rest
\* a balance round (rebalanceNamespace) moves one replica of one partition: it adds the new
\* replica and, once that is in sync, marks the old one - never the other way round
BalanceStep(p) == \/ \E n \in Nodes : DoAdd(p, metas[p], n)
                  \/ \E n \in NodeSet(metas[p]) \cap alive :
                        ISRFullReady(metas[p], EnvP(p)) /\ DoRoundMark(p, metas[p], n)
BalanceRound(w) ==
  /\ (\E p \in Parts : BalanceStep(p)) \/ Noop
  /\ Rest
\* -- removing a data node from the cluster (MarkNodeAsRemoving + processRemovingNodes): the operator
\* marks the node; every round moves ONE of its replicas off (add a replacement elsewhere, then mark
\* the replica - never below the factor) or, when no partition lists the node any more, reports it
\* as removable ("data transferred")
MarkNodeRemoving(n) == /\ n \in RmNodes \ DOMAIN rmn
                       /\ rmn' = [x \in DOMAIN rmn \cup {n} |-> IF x = n THEN "marked" ELSE rmn[x]]
                       /\ UNCHANGED <<metas, views, alive, unsynced, mems, used, bad, calls, rf>>
Unlisted(n) == \A p \in Parts : n \notin NodeSet(metas[p])
MoveStep(p, n) == \/ \E x \in Nodes : DoAdd(p, metas[p], x)
                  \/ ISRFullReady(metas[p], EnvP(p)) /\ DoRoundMark(p, metas[p], n)
NodeRemovable(n) == /\ n \in DOMAIN rmn /\ rmn[n] = "marked"
                    /\ G_Unlisted => Unlisted(n)
                    /\ rmn' = [rmn EXCEPT ![n] = "removable"]
                    /\ bad' = bad \cup (IF Unlisted(n) THEN {} ELSE {"RemovableWhileListed"})
                    /\ Called /\ UNCHANGED <<metas, views, alive, unsynced, mems, used, rf>>
MoveOff(w) ==
  \/ (\E n \in DOMAIN rmn, p \in Parts : n \in NodeSet(metas[p]) /\ MoveStep(p, n)) /\ Rest
  \/ \E n \in DOMAIN rmn : NodeRemovable(n)
  \/ Noop /\ Rest
Snapshot(w, p) == /\ views' = [views EXCEPT ![w][p] = metas[p]]
                  /\ UNCHANGED <<metas, alive, unsynced, mems, used, bad, calls, rf, rmn>>

\* -- environment
AllNodeSets == UNION {NodeSet(metas[p]) : p \in Parts}
NodeDown(n) == n \in alive /\ Cardinality(Nodes \ alive) < MaxDown /\ alive' = alive \ {n} /\ unsynced' = unsynced \ {n}
               /\ UNCHANGED <<metas, views, mems, used, bad, calls, rf, rmn>>
NodeUp(n)   == n \notin alive /\ alive' = alive \cup {n}
               /\ UNCHANGED <<metas, views, unsynced, mems, used, bad, calls, rf, rmn>>
SyncLost(n) == n \in AllNodeSets \cap alive /\ n \notin unsynced /\ Cardinality(unsynced) < MaxUnsynced /\ unsynced' = unsynced \cup {n}
               /\ UNCHANGED <<metas, views, alive, mems, used, bad, calls, rf, rmn>>
SyncBack(n) == n \in unsynced /\ unsynced' = unsynced \ {n}
               /\ UNCHANGED <<metas, views, alive, mems, used, bad, calls, rf, rmn>>
\* the raft group of a partition follows the metadata: a current replica joins, a marked/dropped one leaves
RaftJoin(p, n) == /\ n \in ISR(metas[p]) /\ ~InRaft(metas[p], n, EnvP(p))
                  /\ mems' = [mems EXCEPT ![p] = [x \in DOMAIN @ \cup {n} |-> IF x = n THEN metas[p].ids[n] ELSE @[x]]]
                  /\ UNCHANGED <<metas, views, alive, unsynced, used, bad, calls, rf, rmn>>
RaftLeave(p, n) == /\ n \in DOMAIN mems[p] /\ (n \notin ISR(metas[p]) \/ ~InRaft(metas[p], n, EnvP(p)))
                   /\ mems' = [mems EXCEPT ![p] = [x \in DOMAIN @ \ {n} |-> @[x]]]
                   /\ UNCHANGED <<metas, views, alive, unsynced, used, bad, calls, rf, rmn>>
\* the operator changes the replication factor (ChangeNamespaceMetaParam refuses when fewer data
\* nodes than the new factor are alive); records written earlier are judged by the factor then in force
ChangeFactor(r) == /\ r \in RSet /\ r # rf /\ Cardinality(alive) >= r
                   /\ rf' = r
                   /\ UNCHANGED <<metas, views, alive, unsynced, mems, used, bad, calls, rmn>>

CNext == \/ \E w \in Writers, p \in Parts, s \in {"cur", "snap"} : Migrate(w, p, s) \/ Finish(w, p, s)
         \/ \E w \in Writers, p \in Parts, n \in Nodes, s \in {"cur", "snap"} : PlanAdd(w, p, n, s) \/ PlanRemove(w, p, n, s)
         \/ \E w \in Writers : CheckRound(w) \/ BalanceRound(w) \/ MoveOff(w)
         \/ \E n \in Nodes : MarkNodeRemoving(n)
         \/ \E w \in Writers, p \in Parts : Snapshot(w, p)
         \/ \E n \in Nodes : NodeDown(n) \/ NodeUp(n) \/ SyncLost(n) \/ SyncBack(n)
         \/ \E p \in Parts, n \in Nodes : RaftJoin(p, n) \/ RaftLeave(p, n)
         \/ \E r \in RSet : ChangeFactor(r)

CSpec == CInit /\ [][CNext]_cvars

Bounded == \A p \in Parts : metas[p].epoch <= MaxEpoch /\ metas[p].maxid <= MaxID

\* the five clauses of C18, for every partition.  The record clauses are judged when a record is
\* written, relative to the factor then in force (`bad`); with a fixed factor they are also state
\* invariants of the stored records.
FixedFactor == RSet = {R}
C18_OneRemoving       == /\ "C18:MoreThanOneRemoving" \notin bad
                         /\ \A p \in Parts : AtMostOneRemoving(metas[p])
C18_QuorumDistinct    == /\ bad \cap {"C18:RemainingNotAMajority", "C18:NodesNotDistinct"} = {}
                         /\ \A p \in Parts : DistinctNodes(metas[p]) /\ (FixedFactor => QuorumKept(metas[p]))
C18_AddOneWhenInSync  == bad \cap {"AddedWhenNotInSync", "AddedWhileRemovalPending"} = {}
C18_IdsNeverReused    == /\ bad \cap {"IdReused", "C18:IdsMalformed"} = {}
                         /\ \A p \in Parts : IdsWellFormed(metas[p])
C18_NoMarkUnreachable == "MarkedWhenMajorityUnreachable" \notin bad
\* a balance / check round never reduces the number of in-sync replicas below the factor
C18x_RoundKeepsInSync == "RoundReducedInSync" \notin bad
\* a node marked for removal is reported removable only when no partition lists it
C18x_RemovableOnlyUnlisted == "RemovableWhileListed" \notin bad
\* what is handed to the placement function as the previous layout (the in-sync list of every
\* partition) never contains a node twice
C18x_PlacementInputDistinct == \A p \in Parts : Cardinality(ISR(metas[p])) = Len(SelectSeq(metas[p].nodes, LAMBDA x : x \notin metas[p].rem))
\* auxiliary (not a clause of C18; it is what G_LeftRaft protects): the metadata never forgets a
\* node that the raft group still counts as a member, so the quorum arithmetic above is about
\* the real group
Aux_MembersKnown == \A p \in Parts : DOMAIN mems[p] \subseteq NodeSet(metas[p])
=============================================================================
