------------------------------- MODULE ZCoord -------------------------------
(* Replica migration by the placement driver's coordinator (property C18).      *)
(*                                                                             *)
(* One partition.  The coordinator owns the partition's metadata record        *)
(*    [nodes  : sequence of data nodes (RaftNodes),                            *)
(*     ids    : node -> raft replica id (RaftIDs),                             *)
(*     rem    : set of nodes marked for removal (Removings),                   *)
(*     maxid  : MaxRaftID,  epoch : version of the record in the store]        *)
(* and changes it only by compare-and-swap on the epoch, one step at a time:   *)
(*    Mark(n)    a replica is marked for removal                               *)
(*    Add(n)     one new replica is appended with a fresh raft id              *)
(*    Finish(n)  a marked replica that has left the raft group is dropped      *)
(* The environment: data nodes go down and come up, answer or refuse the       *)
(* "is your raft log in sync" query, and the raft group follows the metadata   *)
(* at its own pace (`members` = what reachable data nodes report as the raft   *)
(* group's membership).                                                        *)
(*                                                                             *)
(* Sources: the statement of C18, doc/design.md (migration keeps a quorum,     *)
(* replicas are moved one at a time), and the design intent stated in the      *)
(* comments of pd_coordinator.go ("at most one node removing", "add raft node  *)
(* one by one to avoid 2 un-synced raft nodes", "avoid removing any node if    *)
(* current alive replicas is not enough", "wait removing node removed from     *)
(* raft group") - NOT the code's control flow.  The pure operators (Can*,      *)
(* *Of, the invariants) are reused by ZCoordTrace on records written by the    *)
(* real coordinator.                                                           *)
EXTENDS Integers, Sequences, FiniteSets

CONSTANTS Nodes,       \* data nodes (integers)
          R,           \* configured replication factor
          InitK,       \* number of replicas of the initial layout
          MaxEpoch,    \* bound: number of metadata writes explored
          MaxID        \* bound: largest raft id explored
\* guards that can be switched off one at a time (spec mutants; all TRUE = the design)
CONSTANTS G_OnePending,    \* no removal is marked while another one is pending
          G_Quorum,        \* a removal must leave a strict majority of R
          G_Reachable,     \* no removal is marked when more than half of the replicas are unreachable
          G_SyncAdd,       \* a replica is only added when the current replicas report in sync
          G_NoAddPending,  \* no replica is added while a removal is pending
          G_FreshID,       \* a new replica gets maxid+1 and maxid is stored with it
          G_Distinct,      \* a node is never added twice
          G_LeftRaft,      \* a removal is only finished after the replica left the raft group
          G_CAS            \* a write from a stale copy of the record fails
CONSTANTS MaxDown, MaxUnsynced  \* environment bounds (number of nodes): how many nodes may be down / answer
                                \* "not in sync" at the same time (N = unrestricted)
CONSTANT CountCalls        \* TRUE: coordinator calls are counted (every call is a visible step even if
                           \* it decides to do nothing - used when behaviours are generated for replay);
                           \* FALSE for exhaustive checking

Range(s) == {s[i] : i \in DOMAIN s}
RemoveAt(s, x) == SelectSeq(s, LAMBDA y : y # x)

\* ------------------------------------------------------------ pure operators
NodeSet(m) == Range(m.nodes)
ISR(m)     == NodeSet(m) \ m.rem
Quorum(k)  == 2 * k > R                 \* k is a strict majority of the replication factor

\* the environment as the coordinator can observe it
\*   alive    : nodes registered / answering
\*   unsynced : nodes that answer "not in sync"
\*   members  : node -> raft id, the raft group as reported by every answering node
Unreachable(m, env) == NodeSet(m) \ env.alive
MajorityUnreachable(m, env) == 2 * Cardinality(Unreachable(m, env)) > Cardinality(NodeSet(m))
InRaft(m, n, env) == n \in DOMAIN env.members /\ n \in DOMAIN m.ids /\ env.members[n] = m.ids[n]
\* every current replica answers, reports every current replica as a member, and is in sync
ISRFullReady(m, env) == \A r \in ISR(m) : /\ r \in env.alive /\ r \notin env.unsynced
                                          /\ \A q \in ISR(m) : InRaft(m, q, env)
\* every replica that is alive answers "in sync"
AliveSynced(m, env) == \A r \in NodeSet(m) \cap env.alive : r \notin env.unsynced

\* Each guard has a name; XxxBroken(m, n, env) is the set of names of the guards a step would
\* break ({} = the step is allowed).  ZCoordTrace prints these names for a rejected real step.
If(c, name) == IF c THEN {} ELSE {name}

MarkBroken(m, n, env) ==
  If(n \in NodeSet(m) /\ n \notin m.rem, "Mark:NotAReplica")
  \cup If(G_OnePending => m.rem = {}, "Mark:AnotherRemovalPending")
  \cup If(G_Quorum => Quorum(Cardinality(ISR(m) \ {n})), "Mark:RemainingNotAMajority")
  \cup If(G_Reachable => ~MajorityUnreachable(m, env), "Mark:MajorityUnreachable")
  \* either the replica's node is lost (and the others are stable), or a planned move of a ready group
  \cup If((n \notin env.alive /\ AliveSynced(m, env)) \/ ISRFullReady(m, env), "Mark:GroupNotStable")
CanMark(m, n, env) == MarkBroken(m, n, env) = {}
MarkOf(m, n) == [m EXCEPT !.rem = @ \cup {n}]

AddBroken(m, n, env) ==
  If(G_Distinct => n \notin NodeSet(m), "Add:NodeAlreadyReplica")
  \cup If(n \in env.alive, "Add:NodeNotAlive")
  \cup If(G_NoAddPending => m.rem = {}, "Add:RemovalPending")
  \cup If(G_SyncAdd => ISRFullReady(m, env), "Add:ReplicasNotInSync")
  \* at most one surplus replica (a move adds before it removes)
  \cup If(Cardinality(ISR(m)) <= R, "Add:AlreadySurplus")
CanAdd(m, n, env) == AddBroken(m, n, env) = {}
NewID(m) == IF G_FreshID THEN m.maxid + 1 ELSE m.maxid
AddOf(m, n) == [m EXCEPT !.nodes = Append(@, n),
                         !.ids = [x \in DOMAIN @ \cup {n} |-> IF x = n THEN NewID(m) ELSE @[x]],
                         !.maxid = NewID(m)]

FinishBroken(m, n, env) ==
  If(n \in m.rem, "Finish:NotMarked")
  \* every remaining replica was asked and none still reports the replica as a raft member
  \cup If(G_LeftRaft => ((\A r \in ISR(m) : r \in env.alive) /\ ~InRaft(m, n, env)), "Finish:StillInRaftGroup")
  \cup If(ISR(m) # {}, "Finish:LastReplica")
CanFinish(m, n, env) == FinishBroken(m, n, env) = {}
FinishOf(m, n) == [m EXCEPT !.nodes = RemoveAt(@, n),
                            !.ids = [x \in DOMAIN @ \ {n} |-> @[x]],
                            !.rem = @ \ {n}]

\* --------------------------------------------- invariants = the clauses of C18
\* on every record written:
AtMostOneRemoving(m) == Cardinality(m.rem) <= 1
QuorumKept(m)        == Quorum(Cardinality(ISR(m)))
DistinctNodes(m)     == Cardinality(NodeSet(m)) = Len(m.nodes)
IdsWellFormed(m)     == /\ DOMAIN m.ids = NodeSet(m)
                        /\ \A a, b \in NodeSet(m) : a # b => m.ids[a] # m.ids[b]
                        /\ \A a \in NodeSet(m) : m.ids[a] <= m.maxid
                        /\ m.rem \subseteq NodeSet(m)
RecordOK(m) == AtMostOneRemoving(m) /\ QuorumKept(m) /\ DistinctNodes(m) /\ IdsWellFormed(m)
RecordBroken(m) == If(AtMostOneRemoving(m), "C18:MoreThanOneRemoving")
                   \cup If(DistinctNodes(m), "C18:NodesNotDistinct")
                   \cup If(IdsWellFormed(m), "C18:IdsMalformed")
                   \cup (IF IdsWellFormed(m) THEN If(QuorumKept(m), "C18:RemainingNotAMajority") ELSE {})

\* ----------------------------------------------------------------- behaviour
VARIABLES meta,      \* the record in the store
          snap,      \* a copy the coordinator read earlier (possibly stale)
          alive, unsynced, members,
          usedIDs,   \* history: every raft id ever handed out
          bad,       \* history: names of action clauses of C18 that were broken
          calls      \* number of coordinator calls (only counted if CountCalls)
cvars == <<meta, snap, alive, unsynced, members, usedIDs, bad, calls>>
Called == calls' = IF CountCalls THEN calls + 1 ELSE calls

Env == [alive |-> alive, unsynced |-> unsynced, members |-> members]
Copy(src) == IF src = "snap" THEN snap ELSE meta

\* "starting from any valid layout": InitK replicas (a strict majority of R, at most R) on nodes
\* 1..InitK - which nodes is irrelevant by symmetry; InitK < R is a partition that lost replicas
\* earlier (their ids InitK+1..R are used up)
ASSUME InitK \in 1..R /\ 2 * InitK > R
InitNodes == [i \in 1..InitK |-> i]
CInit == /\ meta = [nodes |-> InitNodes, ids |-> [n \in 1..InitK |-> n], rem |-> {}, maxid |-> R, epoch |-> 1]
         /\ snap = meta
         /\ alive = Nodes /\ unsynced = {}
         /\ members = [n \in 1..InitK |-> n]
         /\ usedIDs = 1..R
         /\ bad = {}
         /\ calls = 0

\* compare-and-swap of the record computed from copy c
Write(c, new, flags) ==
  IF c.epoch = meta.epoch \/ ~G_CAS
  THEN /\ meta' = [new EXCEPT !.epoch = meta.epoch + 1]
       /\ usedIDs' = usedIDs \cup {new.ids[x] : x \in DOMAIN new.ids}
       /\ bad' = bad \cup flags
            \cup (IF \E x \in DOMAIN new.ids : (x \notin DOMAIN meta.ids \/ meta.ids[x] # new.ids[x])
                                                /\ new.ids[x] \in usedIDs
                  THEN {"IdReused"} ELSE {})
  ELSE UNCHANGED <<meta, usedIDs, bad>>      \* CASFail: nothing is written

\* history flags for the action clauses (they can only fire in a mutant)
MarkFlags(c, n) == (IF MajorityUnreachable(c, Env) THEN {"MarkedWhenMajorityUnreachable"} ELSE {})
AddFlags(c, n)  == (IF ~ISRFullReady(c, Env) THEN {"AddedWhenNotInSync"} ELSE {})
                   \cup (IF c.rem # {} THEN {"AddedWhileRemovalPending"} ELSE {})

DoMark(c, n)   == CanMark(c, n, Env) /\ Write(c, MarkOf(c, n), MarkFlags(c, n))
DoAdd(c, n)    == CanAdd(c, n, Env) /\ Write(c, AddOf(c, n), AddFlags(c, n))
DoFinish(c, n) == CanFinish(c, n, Env) /\ Write(c, FinishOf(c, n), {})
Noop           == UNCHANGED <<meta, usedIDs, bad>>

\* -- coordinator entry points (what the driver can call).  Doing nothing is always allowed.
\* Migrate: the reaction to lost replicas - mark a lost one, or add a replacement
Migrate(src) ==
  /\ LET c == Copy(src) IN
       \/ \E n \in NodeSet(c) \ alive : DoMark(c, n)
       \/ \E n \in Nodes : Cardinality(NodeSet(c)) < R /\ DoAdd(c, n)
       \/ Noop
  /\ Called /\ UNCHANGED <<snap, alive, unsynced, members>>
\* planned move: add a replica / mark a replica of a ready group
PlanAdd(n, src) ==
  /\ LET c == Copy(src) IN DoAdd(c, n) \/ Noop
  /\ Called /\ UNCHANGED <<snap, alive, unsynced, members>>
PlanRemove(n, src) ==
  /\ LET c == Copy(src) IN (ISRFullReady(c, Env) /\ DoMark(c, n)) \/ Noop
  /\ Called /\ UNCHANGED <<snap, alive, unsynced, members>>
Finish(src) ==
  /\ LET c == Copy(src) IN (\E n \in c.rem : DoFinish(c, n)) \/ Noop
  /\ Called /\ UNCHANGED <<snap, alive, unsynced, members>>
\* a check round on the current record is a sequence of the steps above; the model only needs a
\* label for it (the driver runs the real doCheckNamespaces): here it is one step of any kind
CheckRound ==
  /\ \/ \E n \in meta.rem : DoFinish(meta, n)
     \/ \E n \in NodeSet(meta) : DoMark(meta, n)
     \/ \E n \in Nodes : Cardinality(NodeSet(meta)) < R /\ DoAdd(meta, n)
     \/ Noop
  /\ Called /\ UNCHANGED <<snap, alive, unsynced, members>>
Snapshot == snap' = meta /\ UNCHANGED <<meta, alive, unsynced, members, usedIDs, bad, calls>>

\* -- environment
NodeDown(n) == n \in alive /\ Cardinality(Nodes \ alive) < MaxDown /\ alive' = alive \ {n} /\ unsynced' = unsynced \ {n}
               /\ UNCHANGED <<meta, snap, members, usedIDs, bad, calls>>
NodeUp(n)   == n \notin alive /\ alive' = alive \cup {n}
               /\ UNCHANGED <<meta, snap, unsynced, members, usedIDs, bad, calls>>
SyncLost(n) == n \in NodeSet(meta) \cap alive /\ n \notin unsynced /\ Cardinality(unsynced) < MaxUnsynced /\ unsynced' = unsynced \cup {n}
               /\ UNCHANGED <<meta, snap, alive, members, usedIDs, bad, calls>>
SyncBack(n) == n \in unsynced /\ unsynced' = unsynced \ {n}
               /\ UNCHANGED <<meta, snap, alive, members, usedIDs, bad, calls>>
\* the raft group follows the metadata: a current replica joins, a marked/dropped one leaves
RaftJoin(n) == /\ n \in ISR(meta) /\ ~InRaft(meta, n, Env)
               /\ members' = [x \in DOMAIN members \cup {n} |-> IF x = n THEN meta.ids[n] ELSE members[x]]
               /\ UNCHANGED <<meta, snap, alive, unsynced, usedIDs, bad, calls>>
RaftLeave(n) == /\ n \in DOMAIN members /\ (n \notin ISR(meta) \/ ~InRaft(meta, n, Env))
                /\ members' = [x \in DOMAIN members \ {n} |-> members[x]]
                /\ UNCHANGED <<meta, snap, alive, unsynced, usedIDs, bad, calls>>

CNext == \/ \E s \in {"cur", "snap"} : Migrate(s) \/ Finish(s)
         \/ \E n \in Nodes, s \in {"cur", "snap"} : PlanAdd(n, s) \/ PlanRemove(n, s)
         \/ CheckRound \/ Snapshot
         \/ \E n \in Nodes : NodeDown(n) \/ NodeUp(n) \/ SyncLost(n) \/ SyncBack(n) \/ RaftJoin(n) \/ RaftLeave(n)

CSpec == CInit /\ [][CNext]_cvars

Bounded == meta.epoch <= MaxEpoch /\ meta.maxid <= MaxID

\* the five clauses of C18
C18_OneRemoving       == AtMostOneRemoving(meta)
C18_QuorumDistinct    == QuorumKept(meta) /\ DistinctNodes(meta)
C18_AddOneWhenInSync  == bad \cap {"AddedWhenNotInSync", "AddedWhileRemovalPending"} = {}
C18_IdsNeverReused    == IdsWellFormed(meta) /\ "IdReused" \notin bad
C18_NoMarkUnreachable == "MarkedWhenMajorityUnreachable" \notin bad
\* auxiliary (not a clause of C18; it is what G_LeftRaft protects): the metadata never forgets a
\* node that the raft group still counts as a member, so the quorum arithmetic above is about
\* the real group
Aux_MembersKnown == DOMAIN members \subseteq NodeSet(meta)
=============================================================================
