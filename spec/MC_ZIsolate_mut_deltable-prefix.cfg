SPECIFICATION Spec
CONSTANTS
  NT = 2
  NK = 2
  NS = 2
  Vals = {1, 2}
  MaxOps = 3
  Mut = "deltable-prefix"
INVARIANTS TypeOK Canonical KeysIndependent
