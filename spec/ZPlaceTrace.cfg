SPECIFICATION TSpec
CONSTANTS
  Layout <- NoLayout
  Nodes = {}
  DCOf = {}
  Ps = {}
  Rs = {}
  Algos = {}
  MaxEvents = 0
POSTCONDITION AllConsumed
CHECK_DEADLOCK FALSE
