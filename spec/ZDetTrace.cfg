SPECIFICATION TSpec
CONSTANTS
  Keys = {k1}
  Times = {0}
  WallTimes = {0}
  N = 0
  Runs = 1
  MaxBatchCmds = 1
  Cmds = {"set"}
  CutBeforeDup = TRUE
  FlushBeforeNonBatchable = TRUE
  UseLogTime = TRUE
  AbortDropsBatch = TRUE
  SnapshotOnlyAtCut = TRUE
INVARIANT WriteOnce
POSTCONDITION AllConsumed
CHECK_DEADLOCK FALSE
