SPECIFICATION Spec
CONSTANTS
  MaxCalls = 3
  MaxIdx = 3
  MaxTerm = 2
  MaxCut = 1
  WithCrash = FALSE
  Mutant = "rewrite-below-commit"
INVARIANTS SyncPolicy EveryImageReopensWell SegmentTransparent ValidSnapshotsAreCommitted
