"""Helpers of the checkpoint family (C14): structural signatures of failing trace segments."""
import re

DATA_TAGS = ("restored-data-differ", "restored-records-differ", "checkpoint-data-changed",
             "checkpoint-records-changed", "checkpoint-unreadable", "restore-failed")

_re_tag = re.compile(r'^<<"([a-z-]+)"')


def tag_of(expected_text):
    m = _re_tag.match(expected_text.strip())
    return m.group(1) if m else "?"


def classify(seg, expected_text):
    """seg: events of the segment up to and including the failing line.
    Returns the structural signature of the failure."""
    e = seg[-1]
    eng = seg[0].get("eng", "?")
    tag = tag_of(expected_text)
    sig = {"engine": eng, "event": e.get("ev"), "tag": tag, "class": "other"}
    if e.get("ev") not in ("restore", "ckdump") or tag not in DATA_TAGS:
        return sig
    t, i = e.get("t"), e.get("i")
    # the backups that produced a checkpoint named (t, i) before the failure (the same name can
    # be taken again after a restore + replay; a copy of the first one may live on elsewhere)
    for b in [k for k, x in enumerate(seg) if x.get("ev") == "bbegin" and x.get("ok")
              and x.get("t") == t and x.get("i") == i]:
        s = seg[b]["s"]
        notified, inflight = False, []
        for x in seg[b + 1:]:
            if x.get("s") != s:
                continue
            if x.get("ev") == "bnotify":
                notified = True
            elif x.get("ev") == "bdone":
                break
            elif x.get("ev") == "apply" and notified:
                inflight.append(x["idx"])
        if inflight:
            # entries were applied after the apply loop had been released and before the backup
            # of this checkpoint was done
            sig["class"] = "inflight-writes-in-checkpoint"
            sig.pop("event")
            sig.pop("tag")
            return sig
    # a fetch into this store's backup directory that re-used local files (hard links) after
    # the source store had gone back to an older checkpoint
    st = e.get("s")
    for x in seg[:-1]:
        if x.get("ev") == "fetch" and x.get("to") == st and x.get("reused") and x.get("rewound"):
            sig["class"] = "fetch-reuse-after-source-rewind"
            sig.pop("event")
            sig.pop("tag")
            return sig
    return sig


def parse_mismatches(out):
    """All <<"MISMATCH", line, expected>> tuples printed by a trace specification, also when
    TLC's pretty printer wrapped a long tuple over several lines.  Returns [(line, text)]."""
    res = []
    pos = 0
    while True:
        k = out.find('"MISMATCH"', pos)
        if k < 0:
            break
        start = out.rfind("<<", 0, k)
        depth, i = 0, start
        while i < len(out) - 1:
            two = out[i:i + 2]
            if two == "<<":
                depth += 1
                i += 2
                continue
            if two == ">>":
                depth -= 1
                i += 2
                if depth == 0:
                    break
                continue
            if out[i] == '"':
                j = out.find('"', i + 1)
                i = (j + 1) if j > 0 else len(out)
                continue
            i += 1
        text = " ".join(out[start:i].split())
        m = re.match(r'^<<\s*"MISMATCH",\s*(\d+),\s*(.*)>>$', text)
        if m:
            res.append((int(m.group(1)), m.group(2).strip()))
        pos = k + 10
    return res


def model_run(ctx, V, module, cfgs, workers=8, timeout=1200, tag="mc"):
    """Exhaustive run of the design.  Tries the configurations in order (largest first); a run
    that ends without a verdict (JVM killed under memory pressure, time-out) is environmental:
    it is retried with the next, smaller configuration.  Returns (cfg, result) of the first run
    that completed, or (None, last result)."""
    last = None
    for k, cfg in enumerate(cfgs):
        r = V.tlc(ctx, module, cfg, workers=workers, timeout=timeout, heap="4g", tag="%s-%s" % (tag, cfg[:-4]))
        last = r
        if r.ok or r.violated:
            return cfg, r
        ctx.notes.append("%s: TLC ended without a verdict (%s, rc=%s, %d states after %.0fs)%s" % (
            cfg, "time-out" if r.timed_out else "killed?", r.rc, r.distinct, r.wall,
            "; falling back to %s" % cfgs[k + 1] if k + 1 < len(cfgs) else ""))
        workers = max(4, workers // 2)
    return None, last
