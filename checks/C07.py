"""C07 - applying the same log always yields the same data and replies.

(A) spec/ZDet.tla: the batching / checkpoint / restart mechanism of ApplyRaftRequest on an
abstract deterministic machine; TLC exhausts every log of a bounded alphabet under every
placement of apply-group ends, checkpoints, restarts (ReplayEquivalence), and refutes five
spec mutants (thorough tier).
(B) harness `detsim` applies seeded logs to fresh real state machines under many execution
conditions (apply groups, replay flag, checkpoint+restore / reopen + tail replay, engines
mem and pebble, both expiry policies, straddle runs before/after a real expiry instant) and
spec/ZDetTrace.tla (TLC) decides: reply[idx] and dump[key] are write-once across the runs
of one log.
"""
import json
import os

import vcheck as V
import _det as D

MUTANTS = ["nodupcut", "noflush", "wallclock", "snapmid", "applyfail"]


def run(ctx):
    zr = D.build(ctx)
    quick = ctx.quick()
    seed = str(ctx.seed)
    stats = dict(events=0, runs=0, logs=0, replies=0, dumpkeys=0, mismatches=0, groups=0, restores=0,
                 reopens=0, straddle_logs=0, straddle_late=0, panics=0, hung=0, driver_runs=[], commands=set())
    samples = []
    model = {}
    good_files, selftest = [], {}

    def model_stage(_):
        r = D.model_run(ctx, "MC_ZDet", "MC_ZDet_quick.cfg" if quick else "MC_ZDet.cfg", "mc-design",
                        timeout=600 if quick else 1200, workers=8, coverage=not quick)
        model["design"] = r
        if not quick:
            model["n4"] = D.model_run(ctx, "MC_ZDet", "MC_ZDet_n4.cfg", "mc-n4", timeout=1500, workers=8, heap="8g")
            model["noabort"] = D.model_run(ctx, "MC_ZDet", "MC_ZDet_noabort.cfg", "mc-noabort", timeout=900, workers=8)
            for m in MUTANTS:
                model["mut_" + m] = D.model_run(ctx, "MC_ZDet", "MC_ZDet_mut_%s.cfg" % m, "mut-" + m, timeout=600, workers=4)

    # driver stages: (name, stage label for signatures, args, parts)
    eng_order = ["pebble,mem", "mem,pebble"][ctx.seed % 2]
    stages = []
    if quick:
        stages.append(("general", "general", ["-seed", seed, "-logs", "12", "-len", "70", "-engines", "pebble,mem"], 4))
        stages.append(("straddle", "general", ["-seed", seed, "-logs", "0", "-straddle", "1",
                                               "-engines", eng_order], 2))
        stages.append(("isolate-hclear", "isolate-hclear", ["-seed", seed, "-logs", "0", "-straddle", "1",
                                                            "-straddle-only", "hclear", "-engines", eng_order], 1))
        stages.append(("isolate-abort", "isolate-abort", ["-seed", seed, "-logs", "2", "-len", "50", "-dense", "1",
                                                          "-varlen", "0", "-failing"], 2))
        stages.append(("isolate-hll", "isolate-hll", ["-seed", seed, "-logs", "2", "-len", "120", "-dense", "0",
                                                      "-varlen", "0", "-hllmix", "-engines", "pebble"], 2))
        stages.append(("isolate-syncer", "isolate-syncer", ["-seed", seed, "-logs", "1", "-len", "60", "-dense", "0", "-varlen", "0",
                                                            "-syncer", "1", "-syncer-nonmono", "-engines", "pebble"], 1))
    else:
        stages.append(("general", "general", ["-seed", seed, "-logs", "45", "-len", "110", "-full", "-engines", "pebble,mem"], 8))
        stages.append(("general2", "general", ["-seed", str(ctx.seed + 1000), "-logs", "30", "-len", "40", "-full",
                                               "-dense", "2", "-engines", "mem,pebble"], 8))
        stages.append(("straddle", "general", ["-seed", seed, "-logs", "0", "-straddle", "4"], 4))
        stages.append(("isolate-hclear", "isolate-hclear", ["-seed", seed, "-logs", "0", "-straddle", "4",
                                                            "-straddle-only", "hclear"], 1))
        stages.append(("isolate-abort", "isolate-abort", ["-seed", seed, "-logs", "6", "-len", "60", "-dense", "1",
                                                          "-varlen", "0", "-failing"], 2))
        stages.append(("isolate-hll", "isolate-hll", ["-seed", seed, "-logs", "8", "-len", "120", "-dense", "0",
                                                      "-varlen", "0", "-hllmix"], 2))
        stages.append(("isolate-syncer", "isolate-syncer", ["-seed", seed, "-logs", "4", "-len", "80", "-dense", "0", "-varlen", "0",
                                                            "-syncer", "1", "-syncer-nonmono"], 2))
        # real raft: 3 replicas, live / replay-restarted / snapshot-rejoined (stored data only)
        stages.append(("realraft", "general", ["-seed", seed, "-scenarios", "4", "-eng", "pebble", "-policy", "compact"], 1, "repsim"))
        stages.append(("realraft-local", "general", ["-seed", str(ctx.seed + 77), "-scenarios", "2", "-eng", "pebble", "-policy", "local"], 1, "repsim"))

    def driver_stage(st):
        name, label, args, parts = st[:4]
        summ, files = D.drive(ctx, zr, st[4] if len(st) > 4 else "detsim", name, args, parts)
        return st[:4], summ, files

    res = V.parallel(lambda x: model_stage(x) if x == "model" else driver_stage(x), ["model"] + stages, n=6)
    for item in res[1:]:
        (name, label, args, parts), summ, files = item
        if summ is None:
            continue
        s = summ["stats"]
        for k in ("runs", "logs", "replies", "dumpkeys", "groups", "restores", "reopens", "straddle_logs", "straddle_late", "hung"):
            stats[k] += s.get(k, 0)
        stats["panics"] += summ.get("panics", 0)
        ctx.skipped += summ.get("skipped", 0)
        stats["commands"].update(summ.get("commands_seen", []))
        stats["driver_runs"].append(dict(stage=name, args=" ".join(args), **s))
        if not samples:
            samples.extend(summ.get("samples", [])[:2])
        elif name == "straddle":
            samples.extend([x for x in summ.get("samples", []) if "straddle" in x][:1])
        for f, events, fails, known in D.validate(ctx, "ZDetTrace", "ZDetTrace.cfg", files, name, "log"):
            stats["events"] += len(events)
            for line, exp, seg in known:
                # reply values the driver marked as known-divergent (DEL on an HLL key): they must
                # be integer counts on both sides, everything else about the run stays strict
                e = seg[-1]
                stats["known_divergent_replies"] = stats.get("known_divergent_replies", 0) + 1
                ok_shape = str(e.get("r", "")).startswith("i:") and exp.lstrip('"').startswith("i:") and e.get("kd") == "hll-del"
                sig = {"stage": label, "class": "hll-cache" if ok_shape else "other", "kind": "del-reply"}
                V.report_failure(ctx, sig, "log %s: reply of DEL on a HyperLogLog key differs between runs: %s vs first seen %s" % (
                    seg[0].get("id"), json.dumps(e)[:200], exp[:80]), files=[], script={"detsim": args, "stage": name})
            if not fails and name == "general" and len(events) > 500:
                good_files.append(f)
            for line, exp, seg in fails:
                stats["mismatches"] += 1
                sig = D.classify_det(seg, label, exp)
                runs = [x for x in seg if x.get("ev") == "run"]
                what = "log %s (%s, %s): run under %s: %s differs from the first run of the same log: observed %s, first seen %s" % (
                    seg[0].get("id"), seg[0].get("kind"), seg[0].get("policy"),
                    runs[-1].get("cond") if runs else "?", seg[-1].get("ev"),
                    json.dumps(seg[-1], sort_keys=True)[:300], exp[:200])
                segf = os.path.join(os.path.dirname(f), "fail-%s-%d.ndjson" % (os.path.basename(f), line))
                V.write_ndjson(segf, seg)
                V.report_failure(ctx, sig, what, files=[segf], script={"detsim": args, "stage": name})

    if not quick and good_files:
        selftest.update(D.selftest_binding(ctx, "ZDetTrace", "ZDetTrace.cfg", good_files[0], D.det_corruptions(), "det"))
    # (A) verdict on the model itself: never a verdict on the code
    r = model["design"]
    V.require_model_ok(ctx, r, "MC_ZDet")
    if not quick:
        for k in ("n4", "noabort"):
            V.require_model_ok(ctx, model[k], "MC_ZDet_" + k)
        for m in MUTANTS:
            mr = model["mut_" + m]
            if mr.ok or not mr.violated:
                if mr.timed_out:
                    ctx.skipped += 1
                    continue
                raise V.Inconclusive("spec mutant %s was not refuted by TLC: the invariants do not bite" % m)
    if stats["runs"] == 0 or stats["events"] == 0:
        raise V.Inconclusive("no run could be validated")
    ctx.log("model: %d distinct states / %d transitions; real runs %d of %d logs, %d events, %d mismatching runs" % (
        r.distinct, r.generated, stats["runs"], stats["logs"], stats["events"], stats["mismatches"]))
    stats["commands"] = sorted(stats["commands"])
    cov = dict(
        states=r.distinct, transitions=r.generated,
        traces_validated_against_impl=stats["runs"],
        samples=samples or [{"note": "no sample"}],
        exhaustive=True,
        model_runs={k: v.summary() for k, v in model.items()},
        binding_selftest=selftest,
        spec_mutants_refuted=[m for m in MUTANTS if ("mut_" + m) in model and model["mut_" + m].violated],
        logs=stats["logs"], runs=stats["runs"], apply_groups=stats["groups"], replies_compared=stats["replies"],
        dump_keys_compared=stats["dumpkeys"], events_validated=stats["events"],
        checkpoint_restores=stats["restores"], reopens=stats["reopens"],
        real_raft_scenarios=sum(1 for r in stats["driver_runs"] if r["stage"].startswith("realraft") for _ in range(r.get("logs", 0))),
        straddle_logs=stats["straddle_logs"], straddle_rounds_too_late=stats["straddle_late"],
        mismatching_runs=stats["mismatches"], known_divergent_replies=stats.get("known_divergent_replies", 0), panics=stats["panics"], hung_runs=stats.get("hung", 0),
        commands_in_logs=stats["commands"], driver_runs=stats["driver_runs"],
        rule="every seeded log (KV, bitmap, HLL, JSON, hash, list, set, zset/geo and TTL commands, adversarially close "
             "timestamps, multi-command entries) is applied to fresh real state machines under 9-20 execution "
             "conditions; TLC (ZDetTrace) requires reply[idx], dump[key] (raw engine content + logical read API) and "
             "the number of dump keys to be write-once across the runs of a log",
        checker_cmd="tlc -config ZDetTrace.cfg ZDetTrace (ZR_TRACE=<part>); tlc -config MC_ZDet.cfg MC_ZDet",
    )
    if model["design"].coverage:
        cov["action_coverage"] = model["design"].coverage
    V.write_evidence(ctx, "model_checking", cov, assumptions=[
        "determinism is decided on the state machine level (node.StateMachine.ApplyRaftRequest fed with hand-built "
        "entries, the way KVNode.applyEntries does); leader/follower differ only in who proposes, both apply through "
        "this path",
        "mem and pebble are the deciding engines; rocksdb (shim) is not run",
        "the background local-deletion scanner (documented exception of the property) fires every 300 s; no state machine of a run lives that long, so it never acts",
        "every run ends with a checkpoint (flushes the HLL write cache) before the dump; stored HyperLogLog records are "
        "compared without their cached-count and load-timestamp fields (sketch bytes strict), plus PFCOUNT and EXISTS",
        "logical dumps are taken only for logs whose expiry instants are >= 1 h away from the wall clock; straddle "
        "runs are compared through replies and raw engine content",
        "open finding C07-hll-write-cache, narrowed: the general corpus issues PFADD, DEL and SET on HLL keys; kept "
        "out is only a SET on a key PFADDed earlier in the log without a DEL in between (stored data diverges on the "
        "unchanged tree); the REPLY VALUE of DEL on an HLL key is marked by the driver (kd) and reported as the known "
        "finding without ending the run; stored data (after a final checkpoint that flushes the cache) stays strict",
        "open finding C07-syncer-conflict-filter: in the general corpus an entry is typed FromClusterSyncer only if the "
        "live conflict filter lets it through on every replica (single command of a family with a conflict handler, "
        "strictly increasing source-cluster log time older than the process); everything else is the isolate stage",
        "real-raft stage (thorough): stored data of leader, replay-restarted follower and snapshot-rejoined follower "
        "compared after a common applied index; replies exist only on the leader and are not compared there",
        "open finding C07-batch-abort-on-apply-error, narrowed: batchable commands that fail in their apply handler "
        "are in the general corpus, but only directly after a non-batchable command (first of their write batch "
        "under every grouping); a failing one WITH batch predecessors is produced by the isolate stage only; the "
        "repaired HCLEAR finding keeps its isolate stage as a regression test",
    ])
