"""C09 - counting commands always agree with enumerating commands.

spec/ZKV.tla is the reference model (written from the Redis documentation and
doc/user-guide.md); checks/_kv.py holds the stage plan shared by C08, C09 and C10 and the
rule that assigns a failing trace line to exactly one of the three properties.
"""
import _kv


def run(ctx):
    _kv.run_family(ctx, "C09")
