"""C16 - raft messages arrive as sent through the stream codecs.

spec/ZCodec.tla is the contract of the peer streams of transport/rafthttp: a stateful,
lossless compaction (msgappv2) and a self-contained framing (message).
(A) TLC exhausts bounded instances (MC_ZCodec*.cfg): every encoding the contract allows,
    pipe depth 1 and 2, truncation/corruption at frame level; five spec mutants (one guard
    of the continuation condition removed each) must be refuted.  The instance
    MC_ZCodec_walk is dumped as a labelled state graph.
(B) harness `codecsim` executes every edge of that graph, seeded random msgappv2 sequences
    (interleaved groups, near-continuations, sizes around the buffers) and random sequences
    of all message types through the generic codec on the REAL encoders/decoders, drives a
    REAL streamWriter over re-attached connections (one segment per connection), then
    explores the recorded byte streams: every truncation point, single-byte corruptions of
    header bytes.  It records; spec/ZCodecTrace.tla (TLC) decides every line.
"""
import hashlib
import json
import os
import re

import vcheck as V

CONN_MUTANTS = ["keepenc", "keepboth", "partial"]
MUTANTS = ["nogroup", "nologterm", "noencterm", "noindex", "nodecadv"]
PROP_INVS = "Lossless StepFaithful InSync CtxAgree ErrorAfterDamage"

STREAM_KEYS = ["reports", "reports_not_logged", "bursts", "burst_messages", "burst_not_written", "conn_scenarios", "conn_connections_cut", "conn_delivered", "posts", "snapshot_posts",
               "stream_connections", "stream_reconnects", "stream_messages", "stream_heartbeats", "stream_not_written",
               "stream_connections_not_logged"]
ACTIONS = ["Encode", "EncodeFull", "EncodeHB", "Decode", "DoTruncate", "DoCorrupt"]
_re_cov = re.compile(r"^<(\w+) line \d+, col \d+ to line \d+, col \d+ of module \w+>: \d+:(\d+)", re.M)
_re_str = re.compile(r'"([^"]*)"')


def classify(seg, what):
    """Structural signature of a failing line: `what` is the tuple TLC printed
    (<<kind, class, detail>>), seg the segment up to and including the failing line."""
    strs = _re_str.findall(what)
    kind = strs[0] if strs else "?"
    cls = strs[1] if len(strs) > 1 else "?"
    reset = seg[0] if seg and seg[0].get("ev") == "reset" else {}
    sig = {"stage": kind, "class": cls, "stream": reset.get("stream", "?")}
    if kind == "corrupt":
        sig["field"] = strs[2] if len(strs) > 2 else "?"
    elif kind == "report":
        sig["transfer"] = strs[2] if len(strs) > 2 else "?"
        sig["fault"] = strs[3] if len(strs) > 3 else "?"
    elif kind == "dec" and cls == "fields-differ":
        sig["fields"] = ",".join(sorted(strs[2:]))
    elif kind == "enc":
        sig["frame"] = seg[-1].get("kind")
    return sig


def model_runs(ctx, gdot):
    """(A): exhaustive runs of the design.  Returns (walk result, list of summaries, mutants refuted)."""
    # the walk instance is on the critical path (its graph feeds the driver): more workers
    jobs = [("walk", "MC_ZCodec_walk.cfg", 6, ["-dump", "dot,actionlabels", gdot]),
            ("proof", "MC_ZCodec_quick.cfg" if ctx.quick() else "MC_ZCodec.cfg", 3, None)]
    if not ctx.quick():
        # deep: pipe depth 2; hist: no VIEW, bounded histories (cross-check of the VIEW), run
        # with -coverage so that no property-relevant action is vacuous
        jobs += [("deep", "MC_ZCodec_deep.cfg", 4, None), ("hist", "MC_ZCodec_hist.cfg", 3, None)]
    jobs += [("mut-" + m, "MC_ZCodec_mut_%s.cfg" % m, 1, None) for m in MUTANTS]
    if not ctx.quick():
        # stream level (ZCodecConn): connections cut at any frame, re-attach, global delivery order
        jobs += [("conn", "MC_ZCodecConn.cfg", 4, None), ("conn-deep", "MC_ZCodecConn_deep.cfg", 4, None)]
        jobs += [("mut-conn-" + m, "MC_ZCodecConn_mut_%s.cfg" % m, 1, None) for m in CONN_MUTANTS]

    def one(j):
        name, cfg, w, extra = j
        cov = name == "hist"
        mod = "MC_ZCodecConn" if "ZCodecConn" in cfg else "MC_ZCodec"
        r = V.tlc(ctx, mod, cfg, workers=w, timeout=900, extra=extra, tag="mc-" + name, coverage=cov)
        if r.timed_out or (not r.ok and not r.violated):
            r = V.tlc(ctx, mod, cfg, workers=w, timeout=1500, extra=extra, tag="mc-" + name, coverage=cov)
        return name, cfg, r
    return V.parallel(one, jobs, n=len(jobs))


def drive(ctx, zr, name, args):
    d = ctx.sub("run-" + name)
    f = os.path.join(d, "t.ndjson")
    for attempt in (1, 2):
        rc, out = V.run(ctx, [zr, "codecsim", "-o", f] + args, timeout=1800, env={"ZR_SCRATCH": d})
        summ = [json.loads(l[8:]) for l in out.splitlines() if l.startswith("SUMMARY ")]
        if rc == 0 and summ:
            return name, f, summ[0], args
        ctx.log("codecsim %s did not complete (rc=%s): %s" % (name, rc, out[-300:]))
    return name, None, None, args


_re_mism = re.compile(r'<<\s*"MISMATCH",\s*(\d+),\s*(<<.*?>>)\s*>>')


def validate(ctx, name, f):
    consumed, mism, res = V.validate_seq_trace(ctx, "ZCodecTrace", "ZCodecTrace.cfg", f, tag="tv-" + name, timeout=1500)
    if not consumed and not mism and (res.timed_out or res.error is None):
        consumed, mism, res = V.validate_seq_trace(ctx, "ZCodecTrace", "ZCodecTrace.cfg", f, tag="tv-" + name, timeout=2400)
    # TLC wraps long printed tuples over several lines: read the MISMATCH tuples from the whole
    # output (whitespace-normalised) instead of line by line, so that none is lost
    flat = re.sub(r"\s*\n\s*", " ", res.out)
    mism = [(int(a), b) for a, b in _re_mism.findall(flat)]
    if flat.count('"MISMATCH"') != len(mism):
        raise V.Inconclusive("could not parse every MISMATCH line of %s" % name)
    return consumed, mism, res


def self_test(ctx, good_trace, stats):
    """DESIGN 4.5(a): the binding must reject a trace with one corrupted field / one dropped
    line / a continuation frame claimed where the model requires a full frame."""
    ev = V.read_ndjson(good_trace)
    # cut to the first segments (cheap)
    nres, cut = 0, len(ev)
    for i, e in enumerate(ev):
        if e.get("ev") == "reset":
            nres += 1
            if nres == 4:
                cut = i
                break
    ev = ev[:cut]
    variants = {}
    idec = [i for i, e in enumerate(ev) if e.get("ev") == "dec" and e.get("errclass") == "none" and e["m"]["type"] == "MsgApp"]
    ienc = [i for i, e in enumerate(ev) if e.get("ev") == "enc" and e.get("kind") == "full" and e["m"]["type"] == "MsgApp"]
    icont = [i for i, e in enumerate(ev) if e.get("ev") == "enc" and e.get("kind") == "cont"]
    if idec:
        t = json.loads(json.dumps(ev))
        t[idec[len(idec) // 2]]["m"]["commit"] += 1
        variants["decoded-commit-changed"] = t
        t = json.loads(json.dumps(ev))
        m = t[idec[-1]]["m"]
        m["from"], m["to"] = m["to"], m["from"]
        variants["decoded-from-to-swapped"] = t
    if icont:
        t = json.loads(json.dumps(ev))
        del t[icont[0]]
        variants["enc-line-dropped"] = t
    if len(ienc) > 1:
        t = json.loads(json.dumps(ev))
        t[ienc[1]]["kind"] = "cont"
        variants["full-frame-relabelled-continuation"] = t
    rejected = {}
    for name, t in variants.items():
        f = os.path.join(ctx.sub("selftest"), name + ".ndjson")
        V.write_ndjson(f, t)
        consumed, mism, res = validate(ctx, "self-" + name, f)
        rejected[name] = bool(mism) or (not consumed and not res.timed_out)
    stats["self_test"] = rejected
    if variants and not all(rejected.values()):
        raise V.Inconclusive("self-test: a corrupted trace was accepted by ZCodecTrace: %s" % rejected)


def run(ctx):
    zr = V.go_build(ctx, files=["codecsim.go"])
    gdot = os.path.join(ctx.scratch, "g_codec.dot")
    seed = ctx.seed

    # ---- (B1) driver runs that do not need the graph start right away, in parallel with (A)
    if ctx.quick():
        plan = [("random-a", ["-random", "60", "-len", "30", "-seed", str(seed * 10 + 1)]),
                ("random-b", ["-random", "60", "-len", "30", "-big", "0.2", "-seed", str(seed * 10 + 2)]),
                ("msg", ["-msg", "50", "-len", "20", "-seed", str(seed * 10 + 3)]),
                ("explore-a", ["-explore", "9", "-seed", str(seed * 10 + 4)]),
                ("explore-b", ["-explore", "9", "-seed", str(seed * 10 + 5)]),
                ("stream", ["-stream", "60", "-seed", str(seed * 10 + 6)]),
                ("conn", ["-conn", "80", "-seed", str(seed * 10 + 7)]),
                ("post", ["-post", "50", "-seed", str(seed * 10 + 8)]),
                ("burst", ["-burst", ["h+2", "h+3", "h+9"][seed % 3], "-seed", str(seed * 10 + 9)]),
                ("report", ["-report", "36", "-seed", str(seed * 10 + 10)])]
        walk_args = ["-dot", gdot, "-limit", "18000", "-seed", str(seed)]
    else:
        plan = [("random-%d" % i, ["-random", "250", "-len", "40", "-big", "0.12", "-seed", str(seed * 100 + i)]) for i in range(4)]
        plan += [("msg-%d" % i, ["-msg", "200", "-len", "25", "-seed", str(seed * 100 + 10 + i)]) for i in range(2)]
        plan += [("explore-%d" % i, ["-explore", "24", "-seed", str(seed * 100 + 20 + i)]) for i in range(4)]
        plan += [("explore-full-%d" % i, ["-explore", "8", "-full", "-payload", "-seed", str(seed * 100 + 30 + i)]) for i in range(2)]
        plan += [("stream-%d" % i, ["-stream", "300", "-seed", str(seed * 100 + 40 + i)]) for i in range(2)]
        plan += [("conn-%d" % i, ["-conn", "300", "-seed", str(seed * 100 + 50 + i)]) for i in range(2)]
        plan += [("post", ["-post", "200", "-snap", "4", "-seed", str(seed * 100 + 60)])]
        plan += [("report", ["-report", "90", "-reportok", "6", "-seed", str(seed * 100 + 80)])]
        plan += [("burst-%d" % i, ["-burst", b, "-seed", str(seed * 100 + 70 + i)])
                 for i, b in enumerate(["h-1,h,h+1", "h+2,h+3,m", "c-1,c,c+1"])]
        walk_args = ["-dot", gdot, "-seed", str(seed)]

    from concurrent.futures import ThreadPoolExecutor
    pool = ThreadPoolExecutor(max_workers=6)
    fut_models = pool.submit(model_runs, ctx, gdot)

    def drive_validate(item):
        name, args = item
        name, f, summ, args = drive(ctx, zr, name, args)
        if f is None:
            return name, None, None, None, args
        return (name, f, summ, validate(ctx, name, f), args)
    futs = [pool.submit(drive_validate, it) for it in plan]

    # ---- (A) results
    models = fut_models.result()
    runs, refuted, rwalk, action_cov = [], {}, None, {}
    for name, cfg, r in models:
        if name.startswith("mut-"):
            refuted[name[4:]] = bool(r.violated)
            continue
        if not r.ok and not r.timed_out and not r.violated and not r.post_false and not r.error \
                and "Finished in" not in r.out and "Error:" not in r.out:
            # TLC ended without a verdict twice (killed: memory pressure on the shared machine):
            # environmental, skipped and counted, never a verdict
            ctx.notes.append("%s: TLC was killed before it finished (%d states); counted as not run" % (cfg, r.distinct))
            ctx.skipped += 1
            runs.append(dict(cfg=cfg, **r.summary()))
            continue
        V.require_model_ok(ctx, r, cfg)
        runs.append(dict(cfg=cfg, **r.summary()))
        if name == "hist" and r.ok:
            for m in _re_cov.finditer(r.out):
                action_cov[m.group(1)] = max(action_cov.get(m.group(1), 0), int(m.group(2)))
            vac = [a for a in ACTIONS if action_cov.get(a, 0) == 0]
            if vac:
                raise V.Inconclusive("vacuity: actions never taken in MC_ZCodec_hist: %s" % vac)
        if name == "walk":
            rwalk = r
    if rwalk is None or not rwalk.ok or not os.path.exists(gdot):
        raise V.Inconclusive("MC_ZCodec_walk did not complete; no state graph to execute")
    if not all(refuted.values()):
        raise V.Inconclusive("a spec mutant was NOT refuted by TLC (the invariants do not bite): %s" % refuted)
    ctx.log("model: walk %d states / %d transitions; %s; mutants refuted: %s" % (
        rwalk.distinct, rwalk.generated,
        ", ".join("%s %d/%d" % (r["cfg"], r["distinct"], r["generated"]) for r in runs if r["cfg"] != "MC_ZCodec_walk.cfg"),
        ",".join(sorted(refuted))))

    # ---- (B2) the graph walk on the real codec
    futs.append(pool.submit(drive_validate, ("walk", walk_args)))

    stats = dict(events=0, segments=0, enc=0, dec=0, late=0, trunc=0, corrupt=0, mismatches=0, runs=[],
                 frames={}, mismatch_classes={}, graph_edges=0, graph_edges_replayed=0, walk_steps=0)
    samples, cases, nontrivial = [], set(), set()
    stream_stats = {}
    good_for_selftest = None
    for fu in futs:
        name, f, summ, val, args = fu.result()
        if f is None:
            ctx.skipped += 1
            continue
        consumed, mism, res = val
        if not consumed and not mism:
            if res.timed_out:
                ctx.log("TLC timed out on %s; skipped" % name)
                ctx.skipped += 1
                continue
            raise V.Inconclusive("trace validation of %s did not complete: %s" % (name, res.error or res.out[-400:]))
        events = V.read_ndjson(f)
        stats["events"] += len(events)
        seg, seglen, segkey = -1, 0, ""
        for i, e in enumerate(events):
            ev = e.get("ev")
            if ev == "reset":
                seg += 1
                stats["segments"] += 1
                segkey, seglen = "", 0
            elif ev == "enc":
                stats["enc"] += 1
                stats["frames"][e["kind"]] = stats["frames"].get(e["kind"], 0) + 1
                segkey = hashlib.sha1((segkey + e["dig"] + e["kind"]).encode()).hexdigest()[:12]
                seglen += e["nbytes"]
            elif ev in ("dec", "late"):
                stats[ev] += 1
            elif ev == "trunc":
                stats["trunc"] += 1
                c = (segkey, "t", e["k"])
                cases.add(c)
                if 0 < e["k"] < seglen:
                    nontrivial.add(c)
            elif ev == "corrupt":
                stats["corrupt"] += 1
                c = (segkey, "c", e["pos"], e["new"])
                cases.add(c)
                nontrivial.add(c)
        for k in STREAM_KEYS:
            stream_stats[k] = stream_stats.get(k, 0) + summ.get(k, 0)
        for k, v in (summ.get("report_cases") or {}).items():
            rc = stream_stats.setdefault("report_cases", {})
            rc[k] = rc.get(k, 0) + v
        stream_stats["burst_sizes"] = sorted(set(stream_stats.get("burst_sizes", []) + (summ.get("burst_sizes") or [])))
        if summ.get("mode") == "graph":
            stats["graph_edges"] = summ["edges"]
            stats["graph_edges_replayed"] = summ["edges_covered"]
            stats["walk_steps"] = summ["steps"]
        stats["runs"].append(dict(name=name, tlc_wall_s=round(res.wall, 1), **{k: summ[k] for k in summ if k not in ("driver",)}))
        if not samples and name.startswith("random"):
            samples.append({"run": name, "excerpt": events[0:5]})
        if len(samples) == 1 and name.startswith("explore"):
            ex = [e for e in events if e.get("ev") in ("trunc", "corrupt")]
            samples.append({"run": name, "excerpt": ex[3:5] + [e for e in ex if e.get("ev") == "corrupt"][:2]})
        if not mism and name.startswith("random") and good_for_selftest is None:
            good_for_selftest = f
        seen = set()
        for line, what in mism:
            s, sg = V.segment_of(events, line)
            sig = classify(sg, what)
            key = json.dumps(sig, sort_keys=True)
            stats["mismatches"] += 1
            ck = "%s/%s" % (sig["stage"], sig["class"])
            stats["mismatch_classes"][ck] = stats["mismatch_classes"].get(ck, 0) + 1
            if key in seen:
                continue
            seen.add(key)
            bad = sg[-1]
            txt = "%s stream, %s line %d: ZCodec says %s; real codec: %s" % (
                sig["stream"], name, line, what, json.dumps(bad, sort_keys=True)[:700])
            segf = os.path.join(ctx.sub("fail"), "%s-%d.ndjson" % (name, line))
            keep = [e for e in sg if e.get("ev") in ("reset", "enc", "dec")] if bad.get("ev") in ("trunc", "corrupt", "late") else sg
            V.write_ndjson(segf, keep + ([bad] if keep[-1] is not bad else []))
            V.report_failure(ctx, sig, txt, files=[segf], script={"codecsim": args})
    pool.shutdown()
    if stats["segments"] == 0:
        raise V.Inconclusive("no trace segment could be validated")

    if not ctx.quick() and good_for_selftest:
        self_test(ctx, good_for_selftest, stats)

    cov = dict(
        states=rwalk.distinct, transitions=rwalk.generated,
        traces_validated_against_impl=stats["segments"],
        samples=samples or [{"note": "no sample"}],
        exhaustive=not ctx.quick(),
        model_runs=runs, spec_mutants_refuted=refuted,
        model_action_coverage=action_cov or "thorough tier only",
        model_invariants=PROP_INVS.split(),
        graph_edges=stats["graph_edges"], graph_edges_replayed=stats["graph_edges_replayed"],
        graph_walk_steps=stats["walk_steps"],
        events_validated=stats["events"], messages_encoded=stats["enc"], decode_results_checked=stats["dec"],
        late_digests_checked=stats["late"], frames_by_kind=stats["frames"],
        mismatching_lines=stats["mismatches"], mismatch_classes=stats["mismatch_classes"],
        exploration=dict(
            evaluations=stats["trunc"] + stats["corrupt"], truncations=stats["trunc"], corruptions=stats["corrupt"],
            distinct_nontrivial=len(nontrivial), distinct=len(cases),
            rule="recorded byte streams of seeded sequences (both codecs) are cut at every byte offset (streams "
                 "<= 4 KB, all streams with -full in the thorough tier; for larger ones every header byte +-1, "
                 "every frame boundary +-1, payload ends and a seeded sample) and decoded by a fresh real decoder; "
                 "single-byte corruptions hit every header byte (frame type, entry count, length prefixes, commit) "
                 "with 3 masks / 8 type values; a case is distinct by (stream content, cut offset | position + "
                 "new byte) and non-trivial when the cut lies strictly inside the stream or a byte was changed; "
                 "TLC (ZCodecTrace OnTrunc/OnCorrupt) evaluates each: exactly the whole frames before the "
                 "damage, then an error"),
        stream_stage=dict(stream_stats,
                          report_rule="reports: real sender/handler pairs over an httptest server - the real pipeline "
                                      "(MsgApp, MsgSnap) -> pipelineHandler and the real snapshotSender (createSnapBody, "
                                      "post, status polling) -> snapshotHandler with a recording saver - with one injected "
                                      "fault per transfer (report_cases: kind/fault: round trip fails, request body cut "
                                      "after k bytes, answer lost, 5xx, raft refuses, saver fails, status check fails); "
                                      "ZCodecTrace ReportClass: success only for a delivered transfer, an undelivered one "
                                      "always reported as failure, exactly one ReportSnapshot per snapshot transfer, "
                                      "ReportUnreachable never with success; transfers reaching the 5 s status polling "
                                      "run in the thorough tier only",
                          burst_rule="bursts: a real streamWriter is stalled inside a Write of a gated connection (the "
                                     "first Write call is awaited), burst_sizes messages are queued with blocking sends "
                                     "(sizes around half the queue = the flush batch, 3/4 and the capacity of "
                                     "streamBufSize; beyond the capacity the rest is fed behind the release), the "
                                     "connection is released; the frames found on it are attributed in order to the "
                                     "messages handed over and read back by a fresh real decoder, logged in segments of "
                                     "100 self-contained frames - a hand-over that is never written shifts the attribution "
                                     "and is a mismatch; both stream types",
                          conn_rule="conn_*: a real streamWriter AND a real streamReader (its dials answered by the "
                                    "harness with the bytes of one connection each, cut at a seeded offset, often inside "
                                    "a frame); per connection ZCodecTrace applies Truncate at the cut and requires exactly "
                                    "the whole frames before it to reach raft.Process, then the end; the global order of "
                                    "Process calls (`deliver`) must be an order-preserving duplicate-free subsequence of "
                                    "what was written.  posts: messages of all types through a real pipeline "
                                    "(MustMarshal + HTTP POST) to the real pipelineHandler, one self-contained frame per "
                                    "POST, plus bodies cut at seeded offsets handed to the handler (nothing may reach "
                                    "raft); snapshot_posts (thorough): createSnapBody to the real snapshotHandler with a "
                                    "recording ISnapSaver, body CRC compared, cut bodies",
                          rule="a real streamWriter (startStreamWriter) gets outgoing connections attached while it "
                               "replicates (msgappv2 in continuation mode; generic stream likewise); every connection "
                               "is one trace segment: the frames written to it, then what a fresh real decoder reads "
                               "from its bytes - ZCodecTrace starts every segment with a fresh context, so a "
                               "connection must begin with a full frame and read back what was written; the "
                               "writer's own link heartbeats are logged as frames"),
        driver_runs=stats["runs"],
        self_test=stats.get("self_test", "thorough tier only"),
        rule="every edge of TLC's state graph of MC_ZCodec_walk (all appends over 3 group pairs x terms x log "
             "terms x indexes 0..3 x 0..2 entries x 2 size classes x 2 commits in every codec context, heartbeat, "
             "decode) is executed on the real msgAppV2 encoder/decoder; plus seeded random sequences on both "
             "codecs; TLC (ZCodecTrace) checks the frame kind chosen and every decoded field",
        checker_cmd="tlc -config ZCodecTrace.cfg ZCodecTrace (ZR_TRACE=<trace>)",
    )
    V.write_evidence(ctx, "model_checking", cov, assumptions=[
        "domain of the msgappv2 stream (facts of the code base, not checked here): peer.pick routes only "
        "Type==MsgApp there; raft.send sets From = FromGroup.RaftReplicaId, To = ToGroup.RaftReplicaId; "
        "Group.Name is a function of GroupId (node/namespace.go); appends carry no Reject/Context/Snapshot; "
        "FromGroup.NodeId / ToGroup.NodeId are the stream's two ends.  Outside this domain the encoder's "
        "continuation test (index, term, group ids) is weaker than the contract's IsContinue",
        "numbers on the msgappv2 corpus stay below 2^31 (TLC integers); arbitrary uint64 values incl. 2^64-1 "
        "go through the generic codec, logged as decimal strings",
        "entry/snapshot/context bytes are compared by length + CRC32, whole messages by a SHA-1 of all fields",
        "the stream formats carry no checksum: a damaged byte that keeps the framing intact cannot be noticed "
        "by any decoder of this format (recorded as known finding C16-stream-no-integrity-check); the "
        "property's quantifier (all truncation points) is checked strictly, corruption is exploration",
        "single-byte corruptions run in child processes (16 GB address-space limit).  The decoders refuse "
        "lengths above readBytesLimit (512 MB; entry count above readBytesLimit/8) - every such case is executed "
        "and must be an error (a panic/crash is a VIOLATION); a damaged value BELOW the limit is allocated before "
        "the read fails, which is bounded and intended: cases whose implied allocation exceeds 64 MB while the "
        "value is within the limit are not executed but counted (driver_runs[].skipped_large_alloc)",
        "every third recorded stream is decoded through a reader that returns short reads (1 B .. 1 MB per Read)",
        "single reader and single writer per stream (as in streamWriter.run / streamReader.decodeLoop)",
    ])
