"""C19 - cross-cluster log replay applies each source entry exactly once.

spec/ZSync.tla: the receiver of a source cluster's raft log - receive-time duplicate filter
and asynchronous proposal (ApplyRaftReqs), apply-time duplicate filter, write, synced-position
update (applyEntry), snapshot, restart - under a delivery environment that duplicates,
re-sends stale entries, overlaps batches with the synced position, drops proposals (retries).
(A) TLC exhausts MC_ZSync (RemoteExactlyOnce, SyncedAfterEffect, SyncedExact, SyncedMonotone,
    SyncedSurvivesRestart) and refutes the spec mutants.
(B) harness `syncsim` delivers TLC-generated and seeded random sequences of non-idempotent
    entries (INCR / LPUSH / APPEND) to a real single-replica receiver through
    Server.ApplyRaftReqs, with forced snapshots and restarts; spec/ZSyncTrace.tla (TLC) decides
    every observation and every concurrent sample.
"""
import json
import os

import vcheck as V
import _ckpt

FILES = ["cklib.go", "syncsim.go"]
MUTANTS = {                      # cfg -> invariants one of which TLC must report
    "MC_ZSync_noapply.cfg": ("RemoteExactlyOnce",),
    "MC_ZSync_nofilter.cfg": ("RemoteExactlyOnce",),
    "MC_ZSync_lt.cfg": ("RemoteExactlyOnce",),
    "MC_ZSync_before.cfg": ("SyncedAfterEffect",),
    "MC_ZSync_snapnosync.cfg": ("SyncedExact", "RemoteExactlyOnce", "SyncedMonotone", "SyncedSurvivesRestart"),
    # sender decides "already replayed" from the first buffered entry (wave-3 mutant C19-2 as a spec mutant)
    "MC_ZSyncSender_first.cfg": ("SenderTruthful", "DestinationIsPrefix"),
    "MC_ZSyncSender_noapply.cfg": ("DestinationIsPrefix",),
}
# the faithful model of a multi-replica receiver (CancelPrefix: head proposals of a pipelined batch are
# cancelled by a leader change while later ones commit) - TLC must refute RemoteExactlyOnce: the open
# finding c19-pipelined-drop-on-leader-change is a result of the model too
FINDING_MODELS = {"MC_ZSync_pipelined.cfg": ("RemoteExactlyOnce",)}
# the sending side (spec/ZSyncSender.tla: Buffer / Flush / AckSynced / SenderRestart, two incarnations) on top of
# the receiver: must hold as it is, and the two mutants must be refuted
SENDER_MODEL = "MC_ZSyncSender.cfg"
REDUNDANT = "MC_ZSync_norecv.cfg"   # the receive-time filter alone is an optimisation: must still hold

_TAGS = {
    "counter-not-once-per-entry": "effect-count", "list-not-once-per-entry": "effect-count",
    "string-not-once-per-entry": "effect-count", "more-effects-than-entries-handed-over": "effect-count",
    "synced-moved-backwards": "synced-backwards", "sampled-synced-moved-backwards": "synced-backwards",
    "synced-ahead-of-effect": "synced-ahead-of-effect", "synced-position": "synced-position",
    "synced-term": "synced-position", "kv-not-the-last-set": "kv-value",
}


def classify(src, seg, exp):
    """Structural signature of a failing segment (last event = the failing line)."""
    tag = exp.strip()[3:].split('"')[0] if exp.strip().startswith('<<"') else "?"
    e = seg[-1]
    after = ""
    for x in reversed(seg[:-1]):
        if x.get("ev") in ("deliver", "restart", "snap"):
            after = x.get("ev")
            break
    sig = {"engine": seg[0].get("eng", "?"), "event": e.get("ev"), "tag": tag, "class": _TAGS.get(tag, "other"), "after": after}
    if sig["class"] == "effect-count" and not _surplus(src, e, tag):
        sig["class"] = "effect-missing"
        if seg[0].get("replicas", 1) > 1 and _contiguous_loss_after_cancel(src, seg):
            sig["class"] = "multi-replica-pipelined-drop"
    return sig


def _contiguous_loss_after_cancel(src, seg):
    """multi-replica receiver: the last delivery before the failing observation was answered with an error
    (cancelled proposals) and the effects that are missing below the synced position are exactly those of
    ONE contiguous range of source entries inside that batch."""
    e = seg[-1]
    if e.get("ev") != "obs":
        return False
    dl = [x for x in seg[:-1] if x.get("ev") == "deliver"]
    if not dl or dl[-1].get("code") == 0:
        return False
    batch = dl[-1]["batch"]
    k = e["si"]
    kinds = src["kinds"]
    want = [i for i in range(1, k + 1) if kinds[i - 1] == "lpush"]
    have = set(e.get("lst", []))
    if len(e.get("lst", [])) != len(have) or not have <= set(want):
        return False                      # duplicates or foreign elements: not this finding
    missing = [i for i in want if i not in have]
    incr_missing = sum(1 for x in kinds[:k] if x == "incr") - e.get("cnt", 0)
    if incr_missing < 0 or (not missing and incr_missing == 0):
        return False
    lo, hi = min(batch), min(max(batch), k)
    if missing:
        a, b = missing[0], missing[-1]
        if a < lo or b > hi or any(i not in missing for i in want if a <= i <= b):
            return False
        # the lost range may reach from the push before a (exclusive) to the push after b (exclusive)
        prev = max([i for i in want if i < a] + [lo - 1])
        nxt = min([i for i in want if i > b] + [hi + 1])
        least = sum(1 for i in range(a, b + 1) if kinds[i - 1] == "incr")
        most = sum(1 for i in range(max(prev + 1, lo), min(nxt - 1, hi) + 1) if kinds[i - 1] == "incr")
        return least <= incr_missing <= most
    # only counters are missing: they must fit into one gap between two pushes of the batch
    return incr_missing <= sum(1 for i in range(lo, hi + 1) if kinds[i - 1] == "incr")


def _surplus(src, e, tag):
    """the failing line shows MORE effects than entries up to its synced position (double application)"""
    if tag == "more-effects-than-entries-handed-over":
        return True
    k = e.get("si", 0)
    kinds = src["kinds"][:k]
    cnt = sum(1 for x in kinds if x == "incr")
    pushes = sum(1 for x in kinds if x == "lpush")
    strlen = sum(sz for x, sz in zip(kinds, src["sizes"][:k]) if x == "append")
    return e.get("cnt", 0) > cnt or len(e.get("lst", [])) > pushes or e.get("strlen", 0) > strlen


def drive(ctx, zr, name, eng, args):
    d = ctx.sub("run-" + name)
    for attempt in (1, 2):
        rc, out = V.run(ctx, [zr, "syncsim", "-eng", eng, "-o", os.path.join(d, "s")] + args,
                        timeout=1500, env={"ZR_SCRATCH": d})
        summ = [json.loads(l[8:]) for l in out.splitlines() if l.startswith("SUMMARY ")]
        f = os.path.join(d, "s.ndjson")
        if rc == 0 and summ and os.path.exists(f):
            return summ[0], f
        ctx.log("syncsim %s did not complete (rc=%s, attempt %d): %s" % (name, rc, attempt, out[-400:]))
    ctx.skipped += 1
    return None, None


def segments(events):
    """split a syncsim trace into its source header and per-receiver segments"""
    src, segs, cur = events[0], [], None
    for e in events[1:]:
        if e.get("ev") == "reset":
            cur = [e]
            segs.append(cur)
        elif cur is not None:
            cur.append(e)
    return src, segs


def validate(ctx, name, f, stats, samples, script):
    consumed, mism, res = V.validate_seq_trace(ctx, "ZSyncTrace", "ZSyncTrace.cfg", f, tag="val-" + name, timeout=900)
    events = V.read_ndjson(f)
    mism = _ckpt.parse_mismatches(res.out)
    if res.out.count('"MISMATCH"') != len(mism):
        raise V.Inconclusive("a MISMATCH line of TLC could not be parsed (%s)" % f)
    if not consumed and not mism:
        if res.timed_out:
            ctx.skipped += 1
            return False
        raise V.Inconclusive("trace validation of %s did not complete: %s" % (f, res.error or res.out[-400:]))
    stats["events"] += len(events)
    stats["segments"] += sum(1 for e in events if e.get("ev") == "reset")
    for k in ("deliver", "obs", "sample", "restart", "snap", "abort"):
        stats[k] += sum(1 for e in events if e.get("ev") == k)
    stats["deliveries_with_error"] += sum(1 for e in events if e.get("ev") == "deliver" and e.get("code") != 0)
    stats["samples_mid_flight"] += _midflight(events)
    if len(samples) < 2:
        pick = [e for e in events if e.get("ev") in ("deliver", "obs", "restart", "sample")][4:12]
        samples.append({"stage": name, "excerpt": pick})
    for line, exp in mism:
        s, seg = V.segment_of(events, line)
        sig = classify(events[0], seg, exp)
        what = "%s: line %d: observed %s; ZSync expects %s" % (name, line, json.dumps(seg[-1], sort_keys=True)[:400], exp[:300])
        stats["mismatches"] += 1
        segf = os.path.join(os.path.dirname(f), "fail-%d.ndjson" % line)
        V.write_ndjson(segf, [events[0]] + seg)
        V.report_failure(ctx, sig, what, files=[segf], script=script)
    return not mism


def _midflight(events):
    """samples taken while a delivery was in flight (between `send` and `deliver`)"""
    n, fl = 0, False
    for e in events:
        ev = e.get("ev")
        if ev == "send":
            fl = True
        elif ev == "deliver":
            fl = False
        elif ev == "sample" and fl:
            n += 1
    return n


def selftest(ctx, good, stats):
    ev = V.read_ndjson(good)
    src, segs = segments(ev)
    seg = None
    for s in segs:
        if sum(1 for e in s if e.get("ev") == "obs" and e.get("si", 0) > 3 and e.get("cnt", 0) > 0) >= 2 and not any(e.get("ev") == "abort" for e in s):
            seg = s
            break
    if seg is None:
        return
    obs = [i for i, e in enumerate(seg) if e.get("ev") == "obs" and e.get("si", 0) > 3 and e.get("cnt", 0) > 0]
    k = obs[-1]
    variants = {"unchanged": seg}
    a = [dict(e) for e in seg]
    a[k]["cnt"] += 1
    variants["counter-plus-one"] = a
    b = [dict(e) for e in seg]
    b[k]["si"] -= 1
    variants["synced-minus-one"] = b
    c = [dict(e) for e in seg]
    c[k]["lst"] = list(c[k]["lst"]) + ([c[k]["lst"][-1]] if c[k]["lst"] else [1])
    variants["list-element-twice"] = c
    # drop the delivery that moved the position last
    dl = [i for i in range(k) if seg[i].get("ev") == "deliver" and seg[i].get("code") == 0]
    moved = None
    for i in reversed(dl):
        nxt = next((e for e in seg[i + 1:] if e.get("ev") == "obs"), None)
        prv = next((e for e in reversed(seg[:i]) if e.get("ev") == "obs"), None)
        if nxt and (prv is None or nxt["si"] > prv["si"]):
            moved = i
            break
    if moved is not None:
        variants["deliver-line-dropped"] = seg[:moved] + seg[moved + 1:]
    d = ctx.sub("selftest")

    def one(item):
        nm, evs = item
        f = os.path.join(d, nm + ".ndjson")
        V.write_ndjson(f, [src] + evs)
        consumed, mism, res = V.validate_seq_trace(ctx, "ZSyncTrace", "ZSyncTrace.cfg", f, tag="self-" + nm, timeout=300)
        return nm, consumed, mism, res
    for nm, consumed, mism, res in V.parallel(one, list(variants.items()), n=5):
        if res.timed_out:
            ctx.skipped += 1
            continue
        rejected = bool(_ckpt.parse_mismatches(res.out)) or not consumed
        if nm == "unchanged":
            if rejected:
                raise V.Inconclusive("self-test: the uncorrupted segment is rejected")
        else:
            stats["selftest"][nm] = rejected
            if not rejected:
                raise V.Inconclusive("self-test: trace variant %s was accepted - the trace specification does not bind" % nm)


def run(ctx):
    try:
        _run(ctx)
    except V.Inconclusive as ex:
        if not ctx.violations:
            raise
        # a verdict on the real code exists already; a later stage that could not complete
        # must not turn it into "nothing could run"
        ctx.log("a later stage was inconclusive after a violation had been reported: %s" % ex)


def _run(ctx):
    zr = V.go_build(ctx, files=FILES)
    quick = ctx.quick()

    # ---------------------------------------------------------------- (A) the design
    jobs = [("MC_ZSync_mid.cfg" if quick else "MC_ZSync_big.cfg", "main")]
    jobs += [(c, inv) for c, inv in list(MUTANTS.items()) + list(FINDING_MODELS.items())] + [(REDUNDANT, "redundant"), (SENDER_MODEL, "sender")]

    def mc(job):
        cfg, inv = job
        if inv == "main":
            got, r = _ckpt.model_run(ctx, V, "MC_ZSync", [cfg] if quick else [cfg, "MC_ZSync_mid.cfg"], workers=10, timeout=1200)
            return (got or cfg, inv), r
        module = "MC_ZSyncSender" if cfg.startswith("MC_ZSyncSender") else "MC_ZSync"
        return job, V.tlc(ctx, module, cfg, workers=6 if inv == "sender" else 2, timeout=600 if inv == "sender" else 300,
                          heap="3g" if inv == "sender" else "2g", tag="mc-" + cfg[:-4])
    main, refuted, model_runs = None, {}, []
    for (cfg, inv), r in V.parallel(mc, jobs, n=4):
        if inv == "main":
            V.require_model_ok(ctx, r, cfg)
            main = r
            model_runs.append(dict(cfg=cfg, **r.summary()))
            ctx.log("model %s: %d distinct states, %d transitions, depth %d (%.0fs)" % (cfg, r.distinct, r.generated, r.depth, r.wall))
        elif inv == "sender":
            if r.timed_out or not (r.ok or r.violated):
                ctx.skipped += 1
                ctx.notes.append("%s: TLC ended without a verdict" % cfg)
            elif not r.ok:
                raise V.Inconclusive("%s: the sender model violates %s" % (cfg, r.violated))
            else:
                model_runs.append(dict(cfg=cfg, note="sending side (ZSyncSender) on top of the receiver", **r.summary()))
                ctx.log("model %s: %d distinct states, %d transitions (%.0fs)" % (cfg, r.distinct, r.generated, r.wall))
        elif inv == "redundant":
            if r.timed_out:
                ctx.skipped += 1
            elif not r.ok:
                raise V.Inconclusive("%s: the apply-time filter alone should keep the invariants (%s)" % (cfg, r.violated or r.error))
            else:
                model_runs.append(dict(cfg=cfg, note="receive-time filter removed: still safe (it is an optimisation)", **r.summary()))
        else:
            if r.timed_out:
                ctx.skipped += 1
                continue
            if r.violated not in (MUTANTS.get(cfg) or FINDING_MODELS.get(cfg)):
                raise V.Inconclusive("spec mutant %s is not refuted (%s) - the invariants do not bite" % (cfg, r.violated or r.error or "no error"))
            refuted[cfg] = r.violated
    if main is None or not main.ok:
        raise V.Inconclusive("the exhaustive model run did not complete")

    simdir = ctx.sub("sim")
    nsim = 8 if quick else 40
    rs = V.tlc(ctx, "MC_ZSync", "MC_ZSync_sim.cfg", workers=1, timeout=300, tag="simulate",
               simulate="file=%s,num=%d" % (os.path.join(simdir, "b"), nsim), depth=70, seed=ctx.seed)
    nfiles = len([f for f in os.listdir(simdir) if f.startswith("b_")])
    if nfiles == 0:
        raise V.Inconclusive("tlc -simulate produced no behaviour: %s" % (rs.error or rs.out[-300:]))
    if rs.violated:
        raise V.Inconclusive("simulation of MC_ZSync_sim violates %s" % rs.violated)

    # ---------------------------------------------------------------- (B) the code
    seed = str(ctx.seed)
    sim = ["-sim", os.path.join(simdir, "b"), "-modeln", "6"]
    if quick:
        stages = [
            ("mem-sim", "mem", sim + ["-seed", seed, "-n", "60"]),
            ("mem-random", "mem", ["-random", "4", "-len", "40", "-seed", seed, "-n", "90", "-agedays", "30"]),
            ("pebble-random", "pebble", ["-random", "3", "-len", "40", "-seed", str(ctx.seed + 50), "-n", "90", "-agedays", "1100"]),
            # a 3-replica receiver with leader transfers during pipelined 300-entry batches (small): a delivery whose
            # proposals were cancelled must be answered with an error ("ack => applied"); same verdict rules as the
            # thorough multi-replica stages (can reproduce the open finding c19-pipelined-drop-on-leader-change)
            ("multi-replica-quick", "mem", ["-multi", "1", "-len", "12", "-mbatch", "300", "-n", "3700", "-seed", str(ctx.seed + 30)]),
            # regression stage for ee3b302 (restart of a pebble receiver from its snapshot): strict
            ("pebble-restart", "pebble", ["-random", "2", "-len", "40", "-seed", str(ctx.seed + 80), "-n", "90", "-agedays", "9"]),
        ]
    else:
        stages = [("mem-sim", "mem", sim + ["-seed", seed, "-n", "60"]),
                  ("pebble-sim", "pebble", sim + ["-seed", str(ctx.seed + 7), "-n", "60"]),
                  ("pebble-restart", "pebble", ["-random", "8", "-len", "50", "-seed", str(ctx.seed + 80), "-n", "120"])]
        for k in range(4):
            stages.append(("mem-random-%d" % k, "mem", ["-random", "12", "-len", "60", "-seed", str(ctx.seed * 10 + k), "-n", "140", "-agedays", str([0, 8, 40, 2000][k])]))
        # 3-replica receivers, leader transfers during pipelined batches: only the quiescent state after
        # every round is judged (agreement of the replicas + fold of the source prefix); on the unchanged
        # tree this stage can reproduce the open finding c19-pipelined-drop-on-leader-change
        for k in range(2):
            stages.append(("multi-replica-%d" % k, "mem", ["-multi", "2", "-len", "24", "-mbatch", "250", "-n", "6100",
                                                          "-seed", str(ctx.seed * 10 + 8 + k)]))
        for k in range(3):
            stages.append(("pebble-random-%d" % k, "pebble", ["-random", "10", "-len", "50", "-seed", str(ctx.seed * 10 + 5 + k), "-n", "120", "-agedays", str([0, 15, 400][k])]))
    stats = dict(events=0, segments=0, deliver=0, obs=0, sample=0, restart=0, snap=0, abort=0, mismatches=0,
                 deliveries_with_error=0, samples_mid_flight=0, selftest={}, runs=[])
    samples = []

    def do(stage):
        name, eng, args = stage
        return stage, drive(ctx, zr, name, eng, args)
    good = None
    for (name, eng, args), (summ, f) in V.parallel(do, stages, n=4):
        if summ is None:
            continue
        stats["runs"].append(dict(stage=name, **summ))
        ok = validate(ctx, name, f, stats, samples, {"syncsim": args, "engine": eng})
        if ok and good is None and name.startswith("mem-random"):
            good = f
    if stats["obs"] == 0:
        raise V.Inconclusive("no observation could be validated")
    if good and not ctx.violations:
        selftest(ctx, good, stats)
    ctx.log("validated %d receivers, %d events: %d deliveries (%d answered with an error), %d observations, %d samples "
            "(%d mid-flight), %d restarts; mismatching segments: %d" % (
                stats["segments"], stats["events"], stats["deliver"], stats["deliveries_with_error"], stats["obs"],
                stats["sample"], stats["samples_mid_flight"], stats["restart"], stats["mismatches"]))
    restarts_snap = sum(r.get("counts", {}).get("restarts_from_snapshot", 0) for r in stats["runs"])
    cov = dict(
        states=main.distinct, transitions=main.generated,
        traces_validated_against_impl=stats["segments"],
        samples=samples or [{"note": "no sample"}],
        model_runs=model_runs, spec_mutants_refuted={k: v for k, v in refuted.items() if k not in FINDING_MODELS},
        model_findings_reproduced={k: v for k, v in refuted.items() if k in FINDING_MODELS},
        simulated_behaviours_executed=nfiles,
        events_validated=stats["events"], deliveries=stats["deliver"], deliveries_answered_with_error=stats["deliveries_with_error"],
        observations_checked=stats["obs"], concurrent_samples_checked=stats["sample"],
        samples_taken_while_a_delivery_was_in_flight=stats["samples_mid_flight"],
        receiver_restarts=stats["restart"], restarts_from_snapshot=restarts_snap, forced_snapshots=stats["snap"],
        segments_aborted_for_environmental_reasons=stats["abort"],
        mismatching_segments=stats["mismatches"], binding_selftest_rejected=stats["selftest"],
        driver_runs=stats["runs"],
        rule="after every delivery (and every snapshot / restart) TLC (ZSyncTrace) compares the receiver's synced position "
             "with RunBatch(synced, batch) (Prefixes for deliveries answered with an error) and the counter, list and "
             "string with the fold of source entries 1..synced, each once; every sample of a concurrent poller (synced "
             "position read first, data afterwards) must hold at least the effects up to the sampled position",
        checker_cmd="tlc -config ZSyncTrace.cfg ZSyncTrace (ZR_TRACE=<trace>)",
    )
    V.write_evidence(ctx, "model_checking", cov, assumptions=[
        "deliveries are gap-free (entry i is only handed over after i-1 was taken): the receiver accepts a batch that "
        "starts ahead of the synced position and jumps over the gap (the continuity check in ApplyRaftReqs is commented "
        "out, isContinueCommit only logs) - the sender owns continuity, gaps are outside C19's quantifier",
        "the general corpus drives single-replica receivers (a proposal that ApplyRaftReqs has queued is committed). Receivers with "
        "three replicas and leader transfers during pipelined batches are a thorough-tier stage whose verdict is limited to the "
        "quiescent state after each round (all replicas equal; data = fold of the source prefix up to the synced position); it can "
        "reproduce the open finding c19-pipelined-drop-on-leader-change, which the model shows too (MC_ZSync_pipelined, CancelPrefix). "
        "Leader kill (instead of transfer) is not driven",
        "the sending side is the real log-syncer state machine (logSyncerSM send loop + RemoteLogSender over gRPC to the receiver's "
        "gRPC port): restarted incarnations that replay from at or far below the destination's position, one buffered batch or a "
        "stream cut into several batches, the receiver stopped and started while a batch is in flight (the sender's rpc fails and is "
        "retried), the receiving raft group away for most of a second while its server answers 404 'raft group not ready' (the batch "
        "is not delivered and is sent again), two incarnations running at once, a learner hand-over. The driver plays the learner's raft itself (ApplyRaftRequest in log order); "
        "the learner's raft group, the sender's switch to a remote snapshot when the receiver is too far behind (PrepareSnapshot "
        "needs the source nodes' HTTP backup-check API) and the ignore-send switch (unexported) are not driven - the receiver's "
        "side of remote snapshots is driven directly (NotifyTransferSnap / NotifyApplySnap)",
        "remote snapshots: the success path (a usable checkpoint of the source's data as of entry i, fetched through the local copy "
        "path) on both engines, the failing apply only on pebble (the memory engine does not check a checkpoint before restoring it); "
        "one kind per receiver, because a failed snapshot blocks further ones for 5 minutes",
        "proposal failures are produced with an entry the receiver must refuse (raft timestamp different from the payload's), "
        "which ends the batch with an error exactly like a dropped proposal; real time-outs (4 s, a constant) are not forced",
        "the synced position is observed on a fully ready node (replay finished); while a restarted node replays its log "
        "the in-memory position climbs from the snapshot's value",
        "restarts are graceful stops of the namespace node (kill -9 durability is C06's subject)",
        "SyncedAfterEffect on the code rests on a poller that reads the position first and the data afterwards; large APPEND "
        "payloads (200-500 kB) widen the window between the write and the position update",
        "the receive-time filter (ApplyRaftReqs) is redundant for safety: MC_ZSync_norecv (filter removed) still satisfies every "
        "invariant, the apply-time filter alone decides; both removed, or the apply-time filter removed, is refuted",
    ])
