"""Stage `persist-shapes` (C06; cross-reference for C03): one implementation test per model
transition, by direct call.  The driver `persistsim` hands Ready shapes (hard state changed or
not; 0, 1, 2 entries appended at the end or replacing the uncommitted suffix; no snapshot /
one ahead of the log end / one inside the log above the commit index; sequences of length 1..3
from logs of length 0..5) to the REAL node.processReady of a raftNode built by the real
newRaftNode over a real WAL directory, a real snapshotter and the real in-memory raft storage,
reads the raft storage back after every call and reopens the directory the way a restart does
at the end of every sequence (prefix-closed enumeration).  TLC (ZPersistTrace, deterministic
family) judges: every Ready must be a shape of ZPersist!Feasible and the implementation's state
must equal ZPersist!MemEffect / Image.  The driver never judges."""
import json
import os

import vcheck as V

DRIVER_FILES = ["persistsim.go"]


def build(ctx):
    return V.go_build(ctx, name="zrpersist", files=DRIVER_FILES)


def _classify(ev, exp):
    if ev.get("ev") == "image":
        return "restart-image-differs"
    sh = ev.get("shape") or {}
    if exp.startswith('<<"ready", FALSE'):
        return "ready-not-a-model-shape"
    if ev.get("panic"):
        return "process-ready-panics"
    if sh.get("snap") != "none" and sh.get("n"):
        return "snapshot-with-entries-log-differs"
    return "raft-storage-differs"


def selftest(ctx, events, d):
    ev2 = [json.loads(json.dumps(e)) for e in events]
    want = {}
    for i, e in enumerate(ev2):
        if "image" not in want.values() and e.get("ev") == "image" and e["mem"]["terms"]:
            e["mem"]["terms"][-1] += 1          # the restart image returns another term
            want[i + 1] = "image"
        elif "image" in want.values() and "hole" not in want.values() and e.get("ev") == "ready" \
                and not e.get("init") and e["shape"]["snap"] == "none" and e["shape"]["n"] > 0 \
                and ev2[i - 1].get("ev") in ("reset", "ready") and not any(k > i - 3 for k in want):
            e["first"] += 5                     # a Ready that leaves a hole is no shape of the model
            want[i + 1] = "hole"
        elif "hole" in want.values() and "wiped" not in want.values() and e.get("ev") == "ready" \
                and e["shape"]["snap"] != "none" and e["shape"]["n"] > 0 and not any(k > i - 4 for k in want):
            e["mem"]["last"] -= e["shape"]["n"]  # what an append BEFORE the snapshot leaves behind
            e["mem"]["terms"] = []
            want[i + 1] = "wiped"
    f = os.path.join(d, "selftest.ndjson")
    V.write_ndjson(f, ev2)
    ok, mism, res = V.validate_seq_trace(ctx, "ZPersistTrace", "ZPersistTrace.cfg", f, "persist-selftest", timeout=600)
    if res.timed_out:
        ctx.skipped += 1
        ctx.notes.append("persist-shapes: binding self-test not decided")
        return []
    got = {ln for ln, _ in mism}
    missing = [v for k, v in want.items() if k not in got]
    if len(want) < 3 or missing:
        raise V.Inconclusive("persist-shapes: the binding self-test did not reject the corrupted lines %s (wanted %s, got %s)"
                             % (missing, want, sorted(got)[:10]))
    return sorted(want.values())


def stage(ctx, stats=None):
    """Runs the stage; failures go through V.report_failure.  Returns a coverage dict."""
    cov = dict(stage="persist-shapes", ran=False)
    zr = build(ctx)
    d = ctx.sub("persist-shapes")
    tr = os.path.join(d, "trace.ndjson")
    args = ["-o", tr, "-seed", str(ctx.seed)]
    if not ctx.quick():
        args += ["-full2", "-sample", "1500"]
    rc, out = V.run(ctx, [zr, "persistsim"] + args, timeout=900, env={"ZR_SCRATCH": d})
    summ = [json.loads(l[8:]) for l in out.splitlines() if l.startswith("SUMMARY ")]
    if rc != 0 or not summ or summ[-1].get("status") != "ok" or not os.path.exists(tr):
        if rc != 0 and "panic:" in out:
            # the real processReady / restart path panicked on a shape of the model: a verdict needs a
            # trace, there is none - report the panic text as such
            V.report_failure(ctx, dict(stage="persist-shapes", cls="panic"),
                             "persist-shapes: the driver died in the code under test: " + out[out.index("panic:"):][:500],
                             files=[])
            return cov
        ctx.skipped += 1
        ctx.notes.append("persist-shapes not carried out (environment): " + (summ[-1].get("why") if summ else out[-200:]))
        return cov
    s = summ[-1]
    ok, mism, res = V.validate_seq_trace(ctx, "ZPersistTrace", "ZPersistTrace.cfg", tr, "persist-shapes", timeout=600)
    if res.timed_out or (not ok and not mism):
        ctx.skipped += 1
        ctx.notes.append("persist-shapes: TLC gave no verdict on the trace")
        return cov
    events = V.read_ndjson(tr)
    seen = set()
    for line_no, exp in mism:
        ev = events[line_no - 1]
        cls = _classify(ev, exp)
        if cls in seen:
            continue
        seen.add(cls)
        start, seg = V.segment_of(events, line_no)
        segf = os.path.join(d, "segment-%d.ndjson" % line_no)
        V.write_ndjson(segf, seg)
        got = dict(ev.get("mem") or {})
        V.report_failure(ctx, dict(stage="persist-shapes", cls=cls),
                         "persist-shapes: after the Ready of shape %s (snapshot %s/%s, entries from %s terms %s) the real "
                         "%s is %s, the model (ZPersist) expects %s  [line %d of the trace, %d mismatching lines in all]"
                         % (json.dumps(ev.get("shape")), ev.get("si"), ev.get("st"), ev.get("first"), ev.get("terms"),
                            "restart image" if ev.get("ev") == "image" else "raft storage", json.dumps(got), exp,
                            line_no, len(mism)),
                         files=[segf])
    # binding self-test: a corrupted copy of the trace must be rejected at the corrupted lines
    st = selftest(ctx, events, d)
    cov.update(ran=True, binding_selftest_rejected=st, sequences=s["sequences"], readys_by_direct_call=s["readys"],
               readys_with_snapshot_and_entries=s["snapshot_with_entries"], restart_images=s["images"],
               distinct_shapes=s["shapes"], events_validated=s["events"], mismatching_lines=len(mism),
               checker_cmd="tlc -config ZPersistTrace.cfg ZPersistTrace (ZR_TRACE=<trace>)",
               rule="one line = one Ready handed to the real processReady (or one reopen of the directory), accepted iff the "
                    "Ready is a shape of ZPersist!Feasible and the real raft storage / restart image equals the model's")
    return cov
