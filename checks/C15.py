"""C15 - every key is served by exactly one partition, the one clients compute.

spec/ZRoute.tla: Part: Key -> 0..P-1, partitions each a small store, routing of single-key
commands, split / merge of DEL / EXISTS / MGET / PLSET; MergedEqualsSingleStore,
OnlyOwnerExecutes.
(A) TLC exhausts MC_ZRoute for every mapping Part over 3 keys and P = 3 (all partitions hosted,
    and one partition not hosted) and refutes three spec mutants.
(B1) level exploration of the pure mapping: harness `routesim -mode map` evaluates the server's
    partition function and the official SDK's for adversarial and random keys x P in 1..1024
    (a sample of 116 partition numbers in the quick tier); TLC (ZRouteMapTrace) evaluates
    `server = sdk /\\ 0 <= partition < P` per line.
(B2) `routesim -mode serve`: real servers hosting all / all but one partitions of a P-partition
    namespace (P in {2, 3, 8}; 16 in thorough; real single-replica raft groups) driven over the
    redis protocol; per-partition store dumps; TLC (ZRouteTrace) decides every reply and every
    placement with Part instantiated from the logged SDK values.
"""
import json
import os

import vcheck as V
import _ckpt

FILES = ["cklib.go", "routesim.go"]
MUTANTS = {
    "MC_ZRoute_firstkey.cfg": ("MergedEqualsSingleStore", "OnlyOwnerExecutes"),
    "MC_ZRoute_shift.cfg": ("OnlyOwnerExecutes",),
    "MC_ZRoute_unhosted.cfg": ("OnlyOwnerExecutes", "MergedEqualsSingleStore"),
}


def tag_of(exp):
    exp = exp.strip()
    return exp[3:].split('"')[0] if exp.startswith('<<"') else "?"


def classify(events, seg, exp):
    """Structural signature of a failing serve trace (last event = the failing line)."""
    hdr = events[0]
    e = seg[-1]
    sig = {"event": e.get("ev"), "tag": tag_of(exp), "cmd": e.get("name", ""), "class": "other"}
    if e.get("ev") == "cmd":
        parts = {hdr["part"][k - 1] for k in e.get("ks", [])}
        poison = set(hdr.get("poison", []))
        if e.get("name") == "plset" and poison & set(e.get("ks", [])) and len(parts) > 1:
            refusing = {hdr["part"][k - 1] for k in e["ks"] if k in poison}
            want = ["ERR" if hdr["part"][k - 1] in refusing else "OK" for k in e["ks"]]
            if not e.get("err") and sorted(e.get("oks", [])) == sorted(want) and e.get("oks") != want:
                sig["class"] = "partial-failure-status-order"
                return sig
        if len(parts) > 1:
            sig["class"] = "keys-span-partitions"
        elif parts and not parts <= set(hdr["hosted"]):
            sig["class"] = "partition-not-hosted"
        else:
            sig["class"] = "single-partition"
    elif e.get("ev") == "where":
        sig["class"] = "placement"
    return sig


def drive(ctx, zr, name, args):
    d = ctx.sub("run-" + name)
    for attempt in (1, 2):
        rc, out = V.run(ctx, [zr, "routesim", "-o", os.path.join(d, "r")] + args, timeout=1500, env={"ZR_SCRATCH": d})
        summ = [json.loads(l[8:]) for l in out.splitlines() if l.startswith("SUMMARY ")]
        if rc == 0 and summ:
            files = sorted(os.path.join(d, f) for f in os.listdir(d) if f.startswith("r.") and f.endswith(".ndjson"))
            return summ[0], [f for f in files if os.path.getsize(f) > 0]
        ctx.log("routesim %s did not complete (rc=%s, attempt %d): %s" % (name, rc, attempt, out[-400:]))
    ctx.skipped += 1
    return None, []


def check_trace(ctx, module, f, tag):
    consumed, mism, res = V.validate_seq_trace(ctx, module, module + ".cfg", f, tag=tag, timeout=900)
    mism = _ckpt.parse_mismatches(res.out)
    if res.out.count('"MISMATCH"') != len(mism):
        raise V.Inconclusive("a MISMATCH line of TLC could not be parsed (%s)" % f)
    if not consumed and not mism:
        if res.timed_out:
            ctx.skipped += 1
            return None
        if res.violated:
            # an invariant of the trace cfg (ServerAgrees ...) is false in a state of a real trace
            return [(0, '<<"invariant-%s", 0>>' % res.violated)]
        raise V.Inconclusive("trace validation of %s did not complete: %s" % (f, res.error or res.out[-400:]))
    return mism


def run(ctx):
    try:
        _run(ctx)
    except V.Inconclusive as ex:
        if not ctx.violations:
            raise
        # a verdict on the real code exists already; a later stage that could not complete
        # must not turn it into "nothing could run"
        ctx.log("a later stage was inconclusive after a violation had been reported: %s" % ex)


def _run(ctx):
    zr = V.go_build(ctx, files=FILES)
    quick = ctx.quick()
    seed = str(ctx.seed)

    # ---------------------------------------------------------------- (A) the design
    # quick: key sequences up to length 2, thorough: up to length 3 (all mappings over 3 keys in both)
    jobs = ([("MC_ZRoute_q.cfg", "main"), ("MC_ZRoute_part_q.cfg", "main2"), ("MC_ZRoute_refused.cfg", "main3")] if quick else
            [("MC_ZRoute.cfg", "main"), ("MC_ZRoute_part.cfg", "main2"), ("MC_ZRoute_refused.cfg", "main3")]) + [(c, inv) for c, inv in MUTANTS.items()]

    def mc(job):
        cfg, inv = job
        return job, V.tlc(ctx, "MC_ZRoute", cfg, workers=6 if isinstance(inv, str) else 2, timeout=900,
                          heap="3g", tag="mc-" + cfg[:-4])
    model_runs, refuted, main = [], {}, None
    states = transitions = 0
    for (cfg, inv), r in V.parallel(mc, jobs, n=5):
        if isinstance(inv, str):
            V.require_model_ok(ctx, r, cfg)
            if r.ok:
                states += r.distinct
                transitions += r.generated
                main = main or r
            model_runs.append(dict(cfg=cfg, **r.summary()))
            ctx.log("model %s: %d distinct states (view), %d transitions (%.0fs)" % (cfg, r.distinct, r.generated, r.wall))
        else:
            if r.timed_out:
                ctx.skipped += 1
                continue
            if r.violated not in inv:
                raise V.Inconclusive("spec mutant %s is not refuted (%s) - the invariants do not bite" % (cfg, r.violated or r.error or "no error"))
            refuted[cfg] = r.violated
    if main is None:
        raise V.Inconclusive("the exhaustive model run did not complete")

    # ---------------------------------------------------------------- (B) the code
    if quick:
        stages = [
            ("map", ["-mode", "map", "-seed", seed, "-keys", "160"]),
            ("serve-general", ["-mode", "serve", "-seed", seed, "-p", "2,3,8", "-steps", "120", "-eng", "mem"]),
            ("serve-isolate-crossmget", ["-mode", "serve", "-seed", seed, "-p", "2,3", "-steps", "50", "-eng", "mem", "-crossmget"]),
            ("serve-isolate-plsetfail", ["-mode", "serve", "-seed", str(ctx.seed + 5), "-p", "2,3", "-steps", "50", "-eng", "mem", "-plsetfail"]),
        ]
    else:
        stages = [
            ("map", ["-mode", "map", "-seed", seed, "-keys", "600", "-allp"]),
            ("serve-general", ["-mode", "serve", "-seed", seed, "-p", "2,3,8,16", "-steps", "500", "-eng", "mem"]),
            ("serve-general-pebble", ["-mode", "serve", "-seed", str(ctx.seed + 11), "-p", "2,3,5", "-steps", "300", "-eng", "pebble"]),
            ("serve-general-2", ["-mode", "serve", "-seed", str(ctx.seed + 23), "-p", "1,4,7", "-steps", "400", "-eng", "mem"]),
            ("serve-isolate-crossmget", ["-mode", "serve", "-seed", seed, "-p", "2,3,8", "-steps", "120", "-eng", "mem", "-crossmget"]),
            ("serve-isolate-plsetfail", ["-mode", "serve", "-seed", str(ctx.seed + 5), "-p", "2,3,8", "-steps", "150", "-eng", "mem", "-plsetfail"]),
        ]
    st = dict(map_lines=0, map_evaluations=0, map_vectors_nonconstant=0, servers=0, commands=0, spanning=0, distinct_spanning=0,
              rejected_unhosted=0, placements=0, mismatches=0, selftest={}, runs=[])
    samples = []

    def do(stage):
        return stage, drive(ctx, zr, stage[0], stage[1])
    good_serve = good_map = None
    for (name, args), (summ, files) in V.parallel(do, stages, n=len(stages)):
        if summ is None:
            continue
        st["runs"].append(dict(stage=name, **summ))
        for f in files:
            events = V.read_ndjson(f)
            ismap = name == "map"
            mism = check_trace(ctx, "ZRouteMapTrace" if ismap else "ZRouteTrace", f, "val-%s-%s" % (name, os.path.basename(f).replace(".ndjson", "")))
            if mism is None:
                continue
            if ismap:
                ps = events[0]["ps"]
                st["map_lines"] += len(events) - 1
                st["map_evaluations"] += (len(events) - 1) * len(ps)
                vecs = {tuple(e["sdk"]) for e in events[1:]}
                st["map_vectors_nonconstant"] += sum(1 for v in vecs if len(set(v)) > 1)
                samples.append({"stage": name, "partition_numbers": ps[:12], "excerpt": [
                    {k: (e[k][:12] if isinstance(e[k], list) else e[k]) for k in ("key", "len", "srv", "sdk")} for e in events[1:4]]})
                good_map = good_map or (f if not mism else None)
            else:
                hdr = events[0]
                st["servers"] += 1
                cmds = [e for e in events if e.get("ev") == "cmd"]
                st["commands"] += len(cmds)
                span = [e for e in cmds if len({hdr["part"][k - 1] for k in e["ks"]}) > 1]
                st["spanning"] += len(span)
                st["distinct_spanning"] += len({(e["name"], tuple(e["ks"])) for e in span})
                st["rejected_unhosted"] += sum(1 for e in cmds if e["err"] and not {hdr["part"][k - 1] for k in e["ks"]} <= set(hdr["hosted"]))
                st["placements"] += sum(1 for e in events if e.get("ev") == "where")
                if len(samples) < 3 and name == "serve-general":
                    samples.append({"stage": name, "header": hdr, "excerpt": [e for e in events[1:] if e.get("ev") == "cmd" and len(e["ks"]) > 1][:5]})
                if name == "serve-general" and not mism and good_serve is None and hdr["P"] >= 3 and len(hdr["hosted"]) == hdr["P"]:
                    good_serve = f
            for line, exp in mism:
                st["mismatches"] += 1
                if ismap:
                    seg = [events[0], events[line - 1]] if line > 0 else events[:1]
                    sig = {"event": "map", "tag": tag_of(exp), "class": "mapping"}
                else:
                    seg = events[:line] if line > 0 else events[:1]
                    sig = classify(events, seg, exp)
                what = "%s: %s line %d: observed %s; ZRoute expects %s" % (
                    name, os.path.basename(f), line, json.dumps(seg[-1], sort_keys=True)[:400], exp[:200])
                segf = os.path.join(os.path.dirname(f), "fail-%s-%d.ndjson" % (os.path.basename(f), line))
                V.write_ndjson(segf, seg[-400:] if ismap else seg)
                V.report_failure(ctx, sig, what, files=[segf], script={"routesim": args})
    if st["commands"] == 0 or st["map_lines"] == 0:
        raise V.Inconclusive("no mapping line or no command could be validated")

    # ---- the binding is real: corrupt logged fields of accepted traces
    d = ctx.sub("selftest")
    variants = []
    if ctx.violations:
        good_serve = good_map = None      # a verdict exists already; the self-test needs an accepted trace
    if good_serve:
        ev = V.read_ndjson(good_serve)
        k = next((i for i, e in enumerate(ev) if e.get("ev") == "cmd" and e["name"] == "del" and not e["err"] and e["n"] > 0), None)
        if k is not None:
            a = [dict(e) for e in ev]
            a[k]["n"] += 1
            variants.append(("del-count-plus-one", "ZRouteTrace", a))
        k = next((i for i, e in enumerate(ev) if e.get("ev") == "where" and e["parts"]), None)
        if k is not None:
            b = [dict(e) for e in ev]
            P = ev[0]["P"]
            b[k]["parts"] = [(b[k]["parts"][0] + 1) % P]
            variants.append(("key-in-another-partition", "ZRouteTrace", b))
        k = next((i for i, e in enumerate(ev) if e.get("ev") == "cmd" and e["name"] == "mget" and not e["err"] and any(v >= 0 for v in e["vals"])), None)
        if k is not None:
            c = [dict(e) for e in ev]
            c[k]["vals"] = [-1 for _ in c[k]["vals"]]
            variants.append(("mget-values-nil", "ZRouteTrace", c))
        h = [dict(e) for e in ev]
        h[0] = dict(h[0])
        h[0]["srv"] = list(h[0]["srv"])
        h[0]["srv"][0] = (h[0]["srv"][0] + 1) % ev[0]["P"]
        variants.append(("server-partition-differs", "ZRouteTrace", h))
    if good_map:
        ev = V.read_ndjson(good_map)
        m = [dict(e) for e in ev[:6]]
        m[3]["srv"] = list(m[3]["srv"])
        m[3]["srv"][-1] = m[3]["srv"][-1] + 1
        variants.append(("map-server-value-off", "ZRouteMapTrace", m))

    def one(v):
        nm, module, evs = v
        f = os.path.join(d, nm + ".ndjson")
        V.write_ndjson(f, evs)
        consumed, mism, res = V.validate_seq_trace(ctx, module, module + ".cfg", f, tag="self-" + nm, timeout=300)
        return nm, bool(_ckpt.parse_mismatches(res.out)) or not consumed, res
    for nm, rejected, res in V.parallel(one, variants, n=5):
        if res.timed_out:
            ctx.skipped += 1
            continue
        st["selftest"][nm] = rejected
        if not rejected:
            raise V.Inconclusive("self-test: trace variant %s was accepted - the trace specification does not bind" % nm)

    ctx.log("mapping: %d keys x partition numbers = %d evaluations; serve: %d servers, %d commands (%d multi-key spanning partitions, "
            "%d rejected for a partition that is not hosted), %d placements; mismatching traces: %d" % (
                st["map_lines"], st["map_evaluations"], st["servers"], st["commands"], st["spanning"], st["rejected_unhosted"],
                st["placements"], st["mismatches"]))
    cov = dict(
        evaluations=st["map_evaluations"] + st["commands"],
        distinct_nontrivial=st["map_vectors_nonconstant"] + st["distinct_spanning"],
        rule="mapping: every (key, P) pair is one evaluation of `server partition = SDK partition and 0 <= partition < P` by TLC; "
             "keys are 45 adversarial shapes (with / without ':' separators, empty table, empty key, binary bytes incl. 0x00 / 0x80 / 0xff, "
             "255 / 256 / 4097-byte keys, keys that differ only before / after the separators) plus seeded random keys; a key counts as "
             "non-trivial if its partition vector over the P's is not constant, and only distinct vectors are counted. serve: every redis "
             "command is one evaluation; a multi-key command counts as non-trivial if its keys span at least two partitions, distinct by "
             "(command, key sequence)",
        samples=samples or [{"note": "no sample"}],
        exhaustive=False,
        states=states, transitions=transitions, traces_validated_against_impl=st["servers"],
        model_runs=model_runs, spec_mutants_refuted=refuted,
        mapping_keys=st["map_lines"], mapping_evaluations=st["map_evaluations"],
        servers=st["servers"], commands_checked=st["commands"], multikey_commands_spanning_partitions=st["spanning"],
        commands_rejected_for_unhosted_partition=st["rejected_unhosted"], placements_checked=st["placements"],
        mismatching_traces=st["mismatches"], binding_selftest_rejected=st["selftest"], driver_runs=st["runs"],
        explanation="Two claims of different strength. (1) Agreement of the server's and the SDK's key -> partition function for all P in "
                    "1..1024 is a bit-level hash question: it is SAMPLED (level exploration; TLC only evaluates each logged case), which is "
                    "why the overall level is stated as exploration. (2) Split / merge of multi-key commands and 'only the owner executes or "
                    "the command is rejected' are model-checked: TLC exhausts ZRoute for every mapping over 3 keys and P = 3 (states / "
                    "transitions above, VIEW without the reply variables) and validates the traces of real multi-partition servers against it.",
        checker_cmd="tlc -config ZRouteTrace.cfg ZRouteTrace / tlc -config ZRouteMapTrace.cfg ZRouteMapTrace (ZR_TRACE=<trace>)",
    )
    V.write_evidence(ctx, "exploration", cov, assumptions=[
        "the official client is go-zanredisdb v0.6.3 from the module cache (PKey.ShardingKey + GetHashedPartitionID)",
        "hash agreement over all byte strings is sampled, not proved",
        "one server process hosts the partitions (single-replica raft groups); forwarding between data nodes does not exist in the "
        "code base (a node that does not host the partition rejects), so a cluster of several servers adds nothing to routing",
        "general MGETs stay within one partition (known finding route-mget-first-key); stage serve-isolate-crossmget produces the trigger",
        "general PLSETs never contain a pair that a partition refuses (open finding route-plset-status-order: statuses grouped by "
        "partition instead of argument order); stage serve-isolate-plsetfail produces the trigger (a key longer than MaxKeySize)",
        "keys with an empty table name are refused by the server as invalid and are only part of the pure mapping exploration",
    ])
