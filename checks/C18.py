"""C18 - replica migration never drops a partition below a safe quorum.

spec/ZCoord.tla models one partition's metadata record and the coordinator's three writes
(Mark, Add, Finish; compare-and-swap on the epoch) in an environment of node failures,
recoveries, sync answers and a raft group that follows the metadata.
(A) TLC exhausts bounded instances (MC_ZCoord, one cfg per (N, R)) against the five clauses
    of C18, and refutes one spec mutant per guard.
(B) TLC -simulate behaviours of the same model are replayed by harness `coordsim` on the REAL
    handleNamespaceMigrate / addNamespaceToNode / removeNamespaceFromNode /
    removeNamespaceFromRemovings / doCheckNamespaces (in-memory register, loopback HTTP
    stubs); spec/ZCoordTrace.tla (TLC) requires every written record to satisfy the clauses
    and to be a guarded Mark/Add/Finish successor of the previous record.
"""
import json
import os
import re
import threading

import vcheck as V
import _place as P

GUARDS = ["G_OnePending", "G_Quorum", "G_Reachable", "G_SyncAdd", "G_NoAddPending", "G_FreshID",
          "G_Distinct", "G_LeftRaft", "G_CAS", "G_Surplus", "G_Unlisted"]
TEMPLATE = os.path.join(V.VERIF, "spec", "MC_ZCoord.cfg")


def make_cfg(ctx, name, N, R, max_epoch, max_id, off=None, count=False, max_down=64, max_unsynced=64, init_k=None,
             parts=1, writers=1, rset=None, rm=None):
    """One cfg from the template spec/MC_ZCoord.cfg (constants replaced textually)."""
    c = open(TEMPLATE).read()
    sub = {"N": N, "R": R, "InitK": init_k or R, "Parts": "{%s}" % ",".join(str(i) for i in range(parts)),
           "Writers": "{%s}" % ",".join(str(i + 1) for i in range(writers)),
           "RSet": "{%s}" % ",".join(str(x) for x in sorted(set(rset or [R]) | {R})),
           "RmNodes": "{%s}" % ",".join(str(x) for x in (rm or [])), "MaxEpoch": max_epoch, "MaxID": max_id, "MaxDown": max_down, "MaxUnsynced": max_unsynced,
           "CountCalls": "TRUE" if count else "FALSE"}
    for k, v in sub.items():
        c, n = re.subn(r"(?m)^  %s = \S+$" % k, "  %s = %s" % (k, v), c)
        assert n == 1, k
    if off:
        c, n = re.subn(r"(?m)^  %s = TRUE$" % off, "  %s = FALSE" % off, c)
        assert n == 1, off
    p = os.path.join(ctx.sub("cfg"), name)
    open(p, "w").write(c)
    return p


def classify(seg, names):
    """Signature of a rejected real step: the names TLC printed + what kind of write it was."""
    e = seg[-1]
    prev = None
    for x in seg[:-1]:
        if x.get("p", 0) == e.get("p", 0) and (x.get("ev") == "init" or (x.get("ev") == "update" and x.get("ok"))):
            prev = x["rec"]
    kind = "other"
    if e.get("ev") == "update" and prev is not None:
        r = e["rec"]
        if len(r["nodes"]) > len(prev["nodes"]):
            kind = "add"
        elif len(r["nodes"]) < len(prev["nodes"]):
            kind = "finish"
        elif len(r["rem"]) > len(prev["rem"]):
            kind = "mark"
    factor_changed = any(x.get("ev") == "setr" for x in seg)
    return {"event": e.get("ev"), "write": kind, "broken": "+".join(names), "factor_changed": factor_changed}


def run_trace(ctx, name, f, R):
    return V.validate_seq_trace(ctx, "ZCoordTrace", "ZCoordTrace.cfg", f, tag=name, timeout=900,
                                env={"ZR_R": str(R)}, heap="2g")


_lock = threading.Lock()


def replay_and_validate(ctx, zr, job, stats, samples):
    """job: dict(name, N, R, num, depth, calm, seed).  TLC simulate -> coordsim -> TLC validate."""
    out = _replay(ctx, zr, job)
    with _lock:
        _merge(ctx, job, out, stats, samples)


def _replay(ctx, zr, job):
    name, N, R = job["name"], job["N"], job["R"]
    K = job.get("K") or R
    cfg = make_cfg(ctx, "sim_%s.cfg" % name, N, R, 16, max(job.get("rset") or [R]) + 12, count=True, init_k=K,
                   max_down=1 if job["calm"] else 64, max_unsynced=1 if job["calm"] else 64,
                   parts=job.get("P", 1), writers=job.get("W", 1), rset=job.get("rset"), rm=job.get("rm"))
    simdir = ctx.sub("sim-" + name)
    r = V.tlc(ctx, "MC_ZCoord", os.path.basename(cfg), workers=1, timeout=300,
              simulate="file=%s/sim,num=%d" % (simdir, job["num"]), depth=job["depth"], seed=job["seed"],
              files={cfg: os.path.basename(cfg)}, tag="gen-" + name)
    nfiles = len([x for x in os.listdir(simdir) if x.startswith("sim_")])
    if nfiles == 0:
        ctx.log("simulate %s produced no behaviour: %s" % (name, (r.error or r.out[-300:])))
        return None
    if r.violated:
        raise V.Inconclusive("simulation of %s violated %s (broken spec)" % (name, r.violated))
    d, summ = P.drive(ctx, zr, "coordsim", name, ["-sim", simdir, "-R", str(R), "-N", str(N), "-K", str(K), "-P", str(job.get("P", 1)),
                                                      "-W", str(job.get("W", 1)), "-seed", str(job["seed"])] + job.get("extra", []),
                      timeout=1800)
    if summ is None:
        return None
    f = os.path.join(d, "t.0.ndjson")
    consumed, mism, res = run_trace(ctx, "val-" + name, f, R)
    if res.timed_out:
        consumed, mism, res = run_trace(ctx, "val2-" + name, f, R)
    if not consumed and not mism:
        if res.timed_out:
            return None
        raise V.Inconclusive("trace validation of %s did not complete: %s" % (f, res.error or res.out[-400:]))
    return dict(d=d, f=f, summ=summ, mism=mism)


def _merge(ctx, job, out, stats, samples):
    if out is None:
        ctx.skipped += 1
        return
    name, N, R = job["name"], job["N"], job["R"]
    d, f, summ, mism = out["d"], out["f"], out["summ"], out["mism"]
    events = V.read_ndjson(f)
    stats["events"] += len(events)
    stats["segments"] += summ["behaviours"]
    stats["labels"] += summ["labels"]
    stats["http"] += summ["http_requests_answered"]
    for k, v in summ["stats"].items():
        stats["driver"][k] = stats["driver"].get(k, 0) + v
    stats["by_R"][str(R)] = stats["by_R"].get(str(R), 0) + summ["stats"].get("writes_ok", 0)
    # classify the real writes (coverage of the antecedents)
    prevs = {}
    for e in events:
        if e["ev"] in ("reset",):
            prevs = {}
        elif e["ev"] == "init":
            prevs[e["p"]] = e["rec"]
        elif e["ev"] == "update" and e["ok"] and e["p"] in prevs:
            prev = prevs[e["p"]]
            r2 = e["rec"]
            k = "add" if len(r2["nodes"]) > len(prev["nodes"]) else "finish" if len(r2["nodes"]) < len(prev["nodes"]) \
                else "mark" if len(r2["rem"]) > len(prev["rem"]) else "other"
            stats["writes"][k] = stats["writes"].get(k, 0) + 1
            stats["distinct_writes"].add((R, json.dumps(prev["nodes"]), json.dumps(prev["rem"]), json.dumps(r2["nodes"]),
                                          json.dumps(r2["rem"]), r2["maxid"]))
            prevs[e["p"]] = r2
            st = job.get("stage", "single")
            stats["writes_by_stage"][st] = stats["writes_by_stage"].get(st, 0) + 1
    if len(samples) < 2:
        for i, e in enumerate(events):
            if e["ev"] == "update" and e["ok"] and i > 3:
                samples.append({"stage": name, "excerpt": events[max(0, i - 5):i + 2]})
                break
    for line, exp in mism:
        s, seg = V.segment_of(events, line)
        names = P.clause_names(exp)
        sig = classify(seg, names)
        segf = os.path.join(d, "fail-%d.ndjson" % line)
        V.write_ndjson(segf, seg)
        stats["mismatches"] += 1
        what = "R=%d N=%d: real coordinator step rejected by ZCoord (%s): %s" % (
            R, N, ", ".join(names), json.dumps(seg[-1], sort_keys=True))
        labels = [x for x in seg if x.get("ev") in ("call", "down", "up", "unsync", "sync", "members")]
        V.report_failure(ctx, sig, what, files=[segf],
                         script={"coordsim": {"R": R, "N": N, "segment": seg[0].get("info"), "events": labels[-40:]}})


# a good trace recorded once from the unchanged tree (coordsim -script, R=3 N=4): mark a lost replica,
# finish after it left the raft group, add a replacement, add a surplus replica, planned removal.
# The self-test corrupts copies of it, so it does not depend on the tree under test.
FIXTURE = [{"K": 3, "N": 4, "P": 1, "R": 3, "W": 1, "alive": [1, 2, 3, 4], "ev": "reset", "info": "script R=3 N=4 P=1 W=1"},
           {"ev": "init", "p": 0, "rec": {"nodes": [1, 2, 3], "ids": [[1, 1], [2, 2], [3, 3]], "rem": [], "maxid": 3, "epoch": 2}},
           {"ev": "down", "n": 2},
           {"ev": "placein", "old": [[1, 2, 3]]},
           {"ev": "update", "ok": True, "oldgen": 2, "p": 0, "rec": {"nodes": [1, 2, 3], "ids": [[1, 1], [2, 2], [3, 3]], "rem": [[2, 2]], "maxid": 3, "epoch": 3}},
           {"err": "", "ev": "call", "n": 0, "op": "migrate", "p": 0, "src": "cur", "w": 1},
           {"ev": "members", "m": [[1, 1], [3, 3]], "p": 0},
           {"ev": "update", "ok": True, "oldgen": 3, "p": 0, "rec": {"nodes": [1, 3], "ids": [[1, 1], [3, 3]], "rem": [], "maxid": 3, "epoch": 4}},
           {"err": "", "ev": "call", "n": 0, "op": "finish", "p": 0, "src": "cur", "w": 1},
           {"ev": "placein", "old": [[1, 3]]},
           {"ev": "update", "ok": True, "oldgen": 4, "p": 0, "rec": {"nodes": [1, 3, 4], "ids": [[1, 1], [3, 3], [4, 4]], "rem": [], "maxid": 4, "epoch": 5}},
           {"err": "", "ev": "call", "n": 0, "op": "migrate", "p": 0, "src": "cur", "w": 1},
           {"ev": "members", "m": [[1, 1], [3, 3], [4, 4]], "p": 0},
           {"ev": "up", "n": 2},
           {"ev": "update", "ok": True, "oldgen": 5, "p": 0, "rec": {"nodes": [1, 3, 4, 2], "ids": [[1, 1], [2, 5], [3, 3], [4, 4]], "rem": [], "maxid": 5, "epoch": 6}},
           {"err": "", "ev": "call", "n": 2, "op": "add", "p": 0, "src": "cur", "w": 1},
           {"ev": "members", "m": [[1, 1], [2, 5], [3, 3], [4, 4]], "p": 0},
           {"ev": "update", "ok": True, "oldgen": 6, "p": 0, "rec": {"nodes": [1, 3, 4, 2], "ids": [[1, 1], [2, 5], [3, 3], [4, 4]], "rem": [[1, 1]], "maxid": 5, "epoch": 7}},
           {"err": "", "ev": "call", "n": 1, "op": "remove", "p": 0, "src": "cur", "w": 1},
           {"ev": "placein", "old": [[3, 4, 2]]},
           {"ev": "begin", "op": "check"},
           {"err": "", "ev": "call", "n": 0, "op": "check", "p": 0, "src": "cur", "w": 1},
           {"ev": "end", "op": "check"}]


def selftest(ctx, zr, stats):
    """Binding self-test: corruptions of a recorded good trace that TLC must reject (and the
    untouched trace must be accepted)."""
    good = json.loads(json.dumps(FIXTURE))
    ups = [i for i, e in enumerate(good) if e["ev"] == "update" and e["ok"]]

    def var(fn):
        t = json.loads(json.dumps(good))
        return fn(t)

    def second_removing(t):       # the add (3rd write) also marks node 1
        r = t[ups[2]]["rec"]
        r["rem"] = [[1, 1]]
        return t

    def reuse_id(t):              # the new replica gets the id of the dropped one
        r = t[ups[2]]["rec"]
        r["ids"] = [[a, 2 if a == 4 else b] for a, b in r["ids"]]
        return t

    def no_leave(t):              # the "members" report that node 2 left the group is dropped
        i = [k for k, e in enumerate(t) if e["ev"] == "members"][0]
        return t[:i] + t[i + 1:]

    def no_down(t):               # node 2 never went down: marking it is a planned move of an un-ready... still ready
        return [e for e in t if not (e["ev"] == "down")] + []

    def unsynced_add(t):          # node 1 answers "not in sync" just before the replacement is added
        k = ups[2] - 1 if t[ups[2] - 1]["ev"] == "placein" else ups[2]
        return t[:k] + [{"ev": "unsync", "n": 1}] + t[k:]

    def two_adds(t):              # the replacement write adds two nodes at once
        r = t[ups[2]]["rec"]
        r["nodes"] = r["nodes"] + [2]
        r["ids"] = sorted(r["ids"] + [[2, 5]])
        r["maxid"] = 5
        return t

    def majority_down(t):         # two more replicas were unreachable when the removal was marked
        return t[:ups[0]] + [{"ev": "down", "n": 1}, {"ev": "down", "n": 3}] + t[ups[0]:]

    cases = [("second_removing", second_removing, "MoreThanOneRemoving|NotOneMarkAddOrFinish"),
             ("reuse_id", reuse_id, "IdReused|IdNotMaxPlusOne|IdsMalformed"),
             ("no_leave", no_leave, "StillInRaftGroup"),
             ("unsynced_add", unsynced_add, "ReplicasNotInSync"),
             ("two_adds", two_adds, "NotOneMarkAddOrFinish"),
             ("majority_down", majority_down, "MajorityUnreachable|GroupNotStable")]
    trace, expect = [], []
    for nm, fn, want in cases:
        seg = var(fn)
        expect.append((len(trace) + 1, len(trace) + len(seg), nm, want))
        trace += seg
    trace += good
    cf = os.path.join(ctx.sub("selftest"), "corrupt.ndjson")
    V.write_ndjson(cf, trace)
    consumed, mism, res = run_trace(ctx, "selftest", cf, 3)
    got = []
    ok = consumed or bool(mism)
    for lo, hi, nm, want in expect:
        hit = [(l, e) for l, e in mism if lo <= l <= hi]
        good_hit = bool(hit) and re.search(want, hit[0][1]) is not None
        got.append({"corruption": nm, "rejected_at": hit[0][0] - lo + 1 if hit else None,
                    "named": P.clause_names(hit[0][1]) if hit else None})
        ok = ok and good_hit
    ok = ok and not [l for l, e in mism if l > expect[-1][1]]
    stats["selftest"] = {"corruptions": len(cases), "results": got, "ok": ok}
    if not ok:
        raise V.Inconclusive("binding self-test failed: %s (mismatches %s)" % (got, mism))


def isolate_stale_factor(ctx, zr, stats):
    """Known finding stale-factor-copy, on purpose: the factor is raised between a coordinator's read of a
    record and its write.  A failure here must carry exactly the finding's signature."""
    script = ('PlanAdd(1,0,2,"cur");RaftJoin(0,2);Snapshot(1,0);ChangeFactor(3);PlanRemove(1,0,1,"snap")')
    d, summ = P.drive(ctx, zr, "coordsim", "isolate-stale-factor", ["-script", script, "-R", "1", "-N", "3", "-stalefactor"])
    if summ is None:
        ctx.skipped += 1
        return
    f = os.path.join(d, "t.0.ndjson")
    consumed, mism, res = run_trace(ctx, "isolate-stale-factor", f, 1)
    events = V.read_ndjson(f)
    stats["isolate_stale_factor"] = {"mismatches": len(mism)}
    for line, exp in mism:
        s, seg = V.segment_of(events, line)
        names = P.clause_names(exp)
        sig = classify(seg, names)
        sig["stale_copy_across_factor_change"] = True
        segf = os.path.join(d, "fail-%d.ndjson" % line)
        V.write_ndjson(segf, seg)
        V.report_failure(ctx, sig, "factor raised between the coordinator's read and its write: %s: %s" % (
            ", ".join(names), json.dumps(seg[-1], sort_keys=True)), files=[segf], script={"coordsim": script})


def isolate_factor_lowered(ctx, zr, stats):
    """The trigger of finding mark-after-factor-lowered (fixed by d6af85d), on purpose: any rejection is a VIOLATION."""
    script = 'ChangeFactor(1);NodeDown(1);NodeDown(2);Migrate(1,0,"cur");CheckRound(1)'
    d, summ = P.drive(ctx, zr, "coordsim", "isolate-factor-lowered", ["-script", script, "-R", "3", "-N", "5"])
    if summ is None:
        ctx.skipped += 1
        return
    f = os.path.join(d, "t.0.ndjson")
    consumed, mism, res = run_trace(ctx, "isolate-factor-lowered", f, 3)
    events = V.read_ndjson(f)
    stats["isolate_factor_lowered"] = {"mismatches": len(mism)}
    for line, exp in mism:
        s, seg = V.segment_of(events, line)
        names = P.clause_names(exp)
        sig = classify(seg, names)
        segf = os.path.join(d, "fail-%d.ndjson" % line)
        V.write_ndjson(segf, seg)
        V.report_failure(ctx, sig, "factor lowered below the group size, majority of the group down: %s: %s" % (
            ", ".join(names), json.dumps(seg[-1], sort_keys=True)), files=[segf], script={"coordsim": script})


DIRECTED = [
    # (name, script, R, N, P, extra flags): deterministic scenarios of the paths whose random coverage is thin;
    # replayed in every tier so that detection there does not depend on the random rounds
    ("rmnode-replacement-placement", 'MarkNodeRemoving(4);NodeDown(2);Migrate(1,0,"cur");RaftLeave(0,2);Finish(1,0,"cur");'
     'Migrate(1,0,"cur");CheckRound(1)', 3, 4, 1, []),
    ("rmnode-replacement-placement-spare", 'MarkNodeRemoving(4);NodeDown(2);Migrate(1,0,"cur");RaftLeave(0,2);Finish(1,0,"cur");'
     'Migrate(1,0,"cur");RaftJoin(0,5);CheckRound(1)', 3, 5, 1, []),
    ("rmnode-removable-report", 'PlanAdd(1,0,3,"cur");RaftJoin(0,3);MarkNodeRemoving(2);MoveOff(1);MoveOff(1);RaftLeave(0,2);'
     'CheckRound(1);MoveOff(1);MoveOff(1);NodeDown(2);MoveOff(1)', 2, 4, 1, []),
    ("balance-move-2parts", 'BalanceRound(1);CheckRound(1)', 3, 4, 2, ["-balance"]),     # real rebalanceNamespace: one 5 s sleep
    ("check-round-2parts", 'CheckRound(1);CheckRound(1)', 3, 4, 2, []),
]


def directed(ctx, zr, stats):
    def one(x):
        name, script, R, N, P_, extra = x
        d, summ = P.drive(ctx, zr, "coordsim", "directed-" + name,
                          ["-script", script, "-R", str(R), "-N", str(N), "-P", str(P_)] + extra, timeout=300)
        if summ is None:
            return x, None
        f = os.path.join(d, "t.0.ndjson")
        return x, (d, f, summ) + run_trace(ctx, "directed-" + name, f, R)
    res = {}
    for (name, script, R, N, P_, extra), r in V.parallel(one, DIRECTED, n=4):
        if r is None:
            ctx.skipped += 1
            continue
        d, f, summ, consumed, mism, tl = r
        if not consumed and not mism:
            if tl.timed_out:
                ctx.skipped += 1
                continue
            raise V.Inconclusive("directed script %s: trace validation did not complete: %s" % (name, tl.error or tl.out[-300:]))
        events = V.read_ndjson(f)
        res[name] = {"writes": summ["stats"].get("writes_ok", 0), "events": len(events), "rejected": len(mism)}
        stats["segments"] += 1
        stats["events"] += len(events)
        for line, exp in mism:
            s, seg = V.segment_of(events, line)
            names = P.clause_names(exp)
            segf = os.path.join(d, "fail-%d.ndjson" % line)
            V.write_ndjson(segf, seg)
            stats["mismatches"] += 1
            V.report_failure(ctx, classify(seg, names), "directed script %s (R=%d N=%d P=%d): real coordinator step rejected by ZCoord (%s): %s" % (
                name, R, N, P_, ", ".join(names), json.dumps(seg[-1], sort_keys=True)), files=[segf],
                script={"coordsim": script, "flags": ["-R", R, "-N", N, "-P", P_] + extra})
    stats["directed_scripts"] = res


def run(ctx):
    zr = P.harness(ctx, ["coordsim.go"])
    quick = ctx.quick()
    # ---- (A) exhaustive instances + spec mutants
    if quick:
        inst = [(3, 1, 5, 1), (3, 2, 5, 2), (4, 3, 5, 3), (4, 3, 5, 2)]
        mut_inst = (4, 3, 5)
    else:
        inst = [(6, 5, 5, 5), (6, 5, 5, 3), (5, 4, 6, 4), (5, 4, 6, 3), (5, 3, 6, 3), (4, 3, 7, 2), (4, 2, 7, 2),
                (3, 1, 7, 1)]     # (N, R, MaxEpoch, InitK), big ones first
        mut_inst = (4, 3, 6)
    jobs = []
    for N, R, E, K in inst:
        nm = "mc-N%d-R%d" % (N, R) + ("" if K == R else "-K%d" % K)
        jobs.append((nm, make_cfg(ctx, nm.replace("-", "_") + ".cfg", N, R, E, R + 3, init_k=K), None))
    # grown scope (thorough tier): two partitions sharing the nodes, two coordinators (PD leader
    # fail-over with a stale old leader), replication factor changed while migrations are in flight
    # a data node is taken out of the cluster (MarkNodeRemoving / MoveOff / NodeRemovable)
    jobs.append(("mc-rmnode-N4-R2", make_cfg(ctx, "mc_rmnode_N4_R2.cfg", N=4, R=2, max_epoch=5, max_id=5, rm=[2]), None))
    grown = [] if quick else [
        ("mc-rmnode-N4-R3", dict(N=4, R=3, max_epoch=5, max_id=6, rm=[3])),
        ("mc-rmnode-2parts-N4-R2", dict(N=4, R=2, max_epoch=3, max_id=5, parts=2, rm=[2])),
        ("mc-2parts-N3-R2", dict(N=3, R=2, max_epoch=3, max_id=5, parts=2)),
        ("mc-2writers-N4-R3", dict(N=4, R=3, max_epoch=4, max_id=6, writers=2)),
        ("mc-factor-3to2-N4", dict(N=4, R=3, max_epoch=5, max_id=6, rset=[2, 3])),
        ("mc-factor-1to3-N4", dict(N=4, R=1, max_epoch=5, max_id=6, rset=[1, 3])),
        ("mc-factor-2to4-N5", dict(N=5, R=2, max_epoch=4, max_id=7, rset=[2, 4])),
    ]
    for nm, kw in grown:
        jobs.append((nm, make_cfg(ctx, nm.replace("-", "_") + ".cfg", **kw), None))
    for g in GUARDS:
        jobs.append(("mut-" + g, make_cfg(ctx, "mut_%s.cfg" % g, mut_inst[0], mut_inst[1], mut_inst[2], mut_inst[1] + 3, off=g,
                                          rm=[2] if g == "G_Unlisted" else None), g))

    cov_inst = "mc-N4-R3" if quick else "mc-N4-R2"      # per-action coverage is collected on this instance

    def mc(j):
        name, cfg, g = j
        kw = dict(timeout=300 if quick else 1200, files={cfg: os.path.basename(cfg)},
                  coverage=(name == cov_inst), heap="1g" if g else ("2g" if quick else "4g"))
        r = V.tlc(ctx, "MC_ZCoord", os.path.basename(cfg), workers=2 if g else (4 if quick else 6), tag=name, **kw)
        if not r.ok and not r.violated and not r.timed_out and "Error:" not in r.out:
            # no verdict at all: the JVM was killed (memory pressure from other jobs) - retry once, smaller
            ctx.log("%s: TLC ended without a verdict (rc=%s); retrying once" % (name, r.rc))
            r = V.tlc(ctx, "MC_ZCoord", os.path.basename(cfg), workers=2, tag=name + "-retry", **kw)
            if not r.ok and not r.violated and "Error:" not in r.out:
                r.timed_out = True          # counted as "could not run", never a verdict
        return j, r
    results = V.parallel(mc, jobs, n=4 if quick else 3)
    model_runs, mutants, action_cov = [], {}, {}
    best = None
    for (name, cfg, g), r in results:
        if g is None:
            V.require_model_ok(ctx, r, name)
            if name == cov_inst and r.ok:
                for m in re.finditer(r"(?m)^<([A-Za-z]+) line \d+, col \d+ to line \d+, col \d+ of module ZCoord>: (\d+):(\d+)", r.out):
                    if m.group(1) not in ("CInit", "Bounded"):
                        action_cov[m.group(1)] = max(action_cov.get(m.group(1), 0), int(m.group(3)))
                # every action of the model must have been taken at least once
                dead = [a2 for a2 in ("Migrate", "PlanAdd", "PlanRemove", "Finish", "CheckRound", "Snapshot", "NodeDown",
                                      "NodeUp", "SyncLost", "SyncBack", "RaftJoin", "RaftLeave") if action_cov.get(a2, 0) == 0]
                if dead:
                    raise V.Inconclusive("actions never taken in %s: %s (vacuous model)" % (name, dead))
            model_runs.append(dict(cfg=name, **r.summary()))
            if r.ok and (best is None or r.distinct > best.distinct):
                best = r
        else:
            mutants[g] = r.violated or ("timeout" if r.timed_out else "NOT REFUTED")
            if not r.violated and not r.timed_out:
                raise V.Inconclusive("spec mutant %s is not refuted: the invariants do not bite (%s)" % (g, r.error))
    if best is None:
        raise V.Inconclusive("no exhaustive run of MC_ZCoord completed")
    ctx.log("model: %s; mutants refuted by: %s" % (
        ", ".join("%s %d states" % (m["cfg"], m["distinct"]) for m in model_runs), mutants))

    # ---- (B) TLC behaviours replayed on the real coordinator
    stats = dict(events=0, segments=0, labels=0, http=0, mismatches=0, driver={}, writes={}, by_R={}, writes_by_stage={},
                 distinct_writes=set())
    samples = []
    rjobs = []
    if quick:
        plan = [(3, 1, 1, 60), (3, 2, 2, 80), (4, 2, 2, 60), (4, 3, 3, 120), (4, 3, 2, 60), (5, 3, 3, 80),
                (5, 4, 4, 60), (5, 4, 3, 60), (6, 5, 5, 60), (6, 5, 3, 80)]
        depth = 40
    else:
        plan = [(3, 1, 1, 450), (4, 1, 1, 300), (3, 2, 2, 600), (4, 2, 2, 750), (4, 3, 3, 1200), (4, 3, 2, 450),
                (5, 3, 3, 750), (5, 3, 2, 300), (6, 3, 3, 450), (5, 4, 4, 600), (5, 4, 3, 450), (6, 4, 3, 450),
                (6, 5, 5, 600), (6, 5, 4, 300), (6, 5, 3, 450)]
        depth = 50
    for N, R, K, num in plan:           # (nodes, replication factor, replicas of the initial layout, behaviours)
        for calm in (True, False):
            chunks = 1 if quick else max(1, num // 150)
            for c in range(chunks):
                rjobs.append(dict(name="N%dR%dK%d%s%d" % (N, R, K, "c" if calm else "w", c), N=N, R=R, K=K,
                                  num=num // chunks // 2 + 1,
                                  depth=depth, calm=calm, seed=ctx.seed * 100 + c))
    # node removal (MarkNodeAsRemoving + processRemovingNodes); without -balance the driver only calls a round
    # when no replica needs the add-and-wait path (5 s sleeps)
    for i, (N, R, P_, rm, num) in enumerate([(4, 2, 1, [2], 80), (5, 3, 1, [1, 3], 80)] if quick else
                                            [(4, 2, 1, [2], 400), (5, 3, 1, [1, 3], 400), (4, 2, 2, [1], 300), (6, 4, 1, [2, 6], 300)]):
        for calm in (True, False):
            rjobs.append(dict(name="rmnode%d%s" % (i, "c" if calm else "w"), stage="node-removal", N=N, R=R, K=R, P=P_, rm=rm,
                              num=num // 2, depth=depth, calm=calm, seed=ctx.seed * 100 + 90 + i))
    if not quick:
        sd = ctx.seed * 100
        # the same with the real add-and-wait path (5 s per replica moved): few, short behaviours
        for i in range(8):
            N, R, P_ = [(4, 2, 1), (4, 2, 2), (5, 3, 1), (5, 3, 2)][i % 4]
            rjobs.append(dict(name="rmslow%d" % i, stage="node-removal-slow", N=N, R=R, K=R, P=P_, rm=[1, 2], num=3, depth=24,
                              calm=True, seed=sd + 95 + i, extra=["-balance"]))
        for i, (N, R, K, P_, num) in enumerate([(4, 2, 2, 2, 300), (4, 3, 3, 2, 300), (5, 3, 2, 3, 200), (6, 4, 3, 2, 200)]):
            for calm in (True, False):
                rjobs.append(dict(name="multi%d%s" % (i, "c" if calm else "w"), stage="multi-partition", N=N, R=R, K=K, P=P_,
                                  num=num // 2, depth=depth, calm=calm, seed=sd + 50 + i))
        for i, (N, R, K, num) in enumerate([(4, 3, 3, 400), (5, 3, 2, 300), (4, 2, 2, 300), (6, 5, 3, 300)]):
            for calm in (True, False):
                rjobs.append(dict(name="failover%d%s" % (i, "c" if calm else "w"), stage="two-coordinators", N=N, R=R, K=K, W=2,
                                  num=num // 2, depth=depth, calm=calm, seed=sd + 60 + i))
        for i, (N, R, rset, num) in enumerate([(4, 3, [2, 3], 300), (4, 1, [1, 3], 300), (5, 2, [2, 4], 300), (6, 5, [3, 5], 200),
                                               (5, 3, [1, 3, 4], 300)]):
            for calm in (True, False):
                rjobs.append(dict(name="factor%d%s" % (i, "c" if calm else "w"), stage="factor-change", N=N, R=R, K=R, rset=rset,
                                  num=num // 2, depth=depth, calm=calm, seed=sd + 70 + i))
        # the REAL rebalanceNamespace (5 s per move): few, short behaviours, many processes
        for i in range(12):
            N, R, P_ = [(3, 2, 2), (4, 2, 3), (4, 3, 2), (5, 3, 3)][i % 4]
            rjobs.append(dict(name="balance%d" % i, stage="balance-round", N=N, R=R, K=R, P=P_, num=3, depth=24, calm=True,
                              seed=sd + 80 + i, extra=["-balance"]))
    V.parallel(lambda j: replay_and_validate(ctx, zr, j, stats, samples), rjobs, n=8 if quick else 12)
    if not quick:
        isolate_stale_factor(ctx, zr, stats)
        isolate_factor_lowered(ctx, zr, stats)
    directed(ctx, zr, stats)
    if stats["segments"] == 0:
        raise V.Inconclusive("no behaviour could be replayed and validated")
    if not quick or ctx.seed % 4 == 1:
        selftest(ctx, zr, stats)
    cov = dict(
        states=best.distinct, transitions=best.generated,
        traces_validated_against_impl=stats["segments"],
        samples=samples or [{"note": "no sample"}],
        model_runs=model_runs, spec_mutants_refuted_by=mutants, model_action_coverage=action_cov,
        events_validated=stats["events"], labels_replayed=stats["labels"],
        real_writes_by_kind=stats["writes"], real_writes_by_R=stats["by_R"], real_writes_by_stage=stats["writes_by_stage"],
        directed_scripts=stats.get("directed_scripts"), isolate_stale_factor=stats.get("isolate_stale_factor"), isolate_factor_lowered=stats.get("isolate_factor_lowered"),
        distinct_nontrivial=len(stats["distinct_writes"]),
        rule="distinct_nontrivial = different (R, previous record, written record) transitions the real coordinator "
             "performed and TLC accepted as guarded Mark/Add/Finish steps",
        driver_counters=stats["driver"], http_requests_answered_by_stubs=stats["http"],
        rejected_real_steps=stats["mismatches"], selftest=stats.get("selftest"),
        checker_cmd="tlc -config ZCoordTrace.cfg ZCoordTrace (ZR_TRACE=<trace> ZR_R=<R>)",
    )
    V.write_evidence(ctx, "model_checking", cov, assumptions=[
        "quick tier: one partition, one coordinator, fixed factor (+ a data node taken out of the cluster through the "
        "real MarkNodeAsRemoving / processRemovingNodes, rounds that would need the 5 s add-and-wait path skipped).  "
        "Thorough tier adds: the add-and-wait path of node removal on a few short behaviours, 2-3 partitions of one "
        "namespace sharing the nodes (initial layout from the real v2 placement over all nodes but the last), two "
        "coordinator objects over one register (both keep fresh node tables; staleness = their record copies), "
        "replication factor changed through the real ChangeNamespaceMetaParam (the coordinators re-read their "
        "copies after a change - see known finding stale-factor-copy), and the real rebalanceNamespace on a few "
        "short behaviours (5 s per move; the raft groups follow the metadata while it runs).  Scenarios start from "
        "a layout of K replicas on nodes 1..K, K = R or a smaller strict majority of R (a partition that lost "
        "replicas earlier)",
        "a node that is down neither is in the coordinator's node table nor answers HTTP (the two are not varied "
        "independently); every answering node reports the same raft membership",
        "addNamespaceToNode / removeNamespaceFromNode are called in their callers' context (after the real "
        "IsAllISRFullReady succeeded, and for additions only while the group is not yet surplus), as "
        "addNodeToNamespaceAndWaitReady, doCheckNamespaces, rebalanceNamespace and processRemovingNodes do; the "
        "manual HTTP API RemoveNamespaceFromNode (operator override without a readiness check) is outside the "
        "property's quantifier",
        "rebalanceNamespace / addNodeToNamespaceAndWaitReady themselves are not driven (fixed 5 s sleeps); waiting "
        "periods (waitMigrateInterval, waitRemoveRemovingNodeInterval) are set to 0 - timing is not verified",
        "compare-and-swap failures come from stale copies of the record handed to the coordinator; the register is "
        "the in-memory fake (cluster/verif_register.go), not etcd",
    ])
