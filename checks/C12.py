"""C12 - keys never interfere: isolation of tables, keys, types and sub-keys.

(i)  spec/ZIsolate.tla: the store as a map from (type, table, key) tuples to values; every
     command of a mixed command set (writes of the five types, per-type clears, DEL,
     ZREMRANGEBYSCORE, whole-table delete, expire + the local-deletion expiry pass, key
     scans) addresses one tuple / one table / the tuples that carry an expiry.  TLC exhausts
     MC_ZIsolate (KeysIndependent; spec mutants that touch a neighbour must be refuted).
     harness `isosim` applies seeded command sequences to the real state machine with
     adversarial names and reads back the FULL content of EVERY tuple after EVERY command;
     spec/ZIsolateTrace.tla (TLC) compares every reply and every dump.
(ii) spec/ZCodecOrd.tla: round trip, order preservation, injectivity and range containment of
     the memcomparable codec and of the key encoders, evaluated by TLC (ZCodecOrdTrace) on
     every case `codecord` enumerates on the real code.  Honest level of (ii): exploration.
"""
import json
import os
import random

import vcheck as V
import _scan as S


def iso_stage(ctx, zr, name, eng, policy, args, stats, samples, expect=None):
    summ, files = S.drive(ctx, zr, "isosim", name, ["-eng", eng, "-policy", policy, "-seed", str(ctx.seed)] + args)
    if summ is None:
        return
    got = 0
    for f, events, mm in S.validate(ctx, "ZIsolateTrace", "ZIsolateTrace.cfg", files, name):
        cmds = [e for e in events if e.get("ev") == "cmd"]
        stats["events"] += len(events)
        stats["segments"] += sum(1 for e in events if e.get("ev") == "reset")
        stats["commands"] += len(cmds)
        stats["tuple_dumps_compared"] += sum(len(e.get("d", [])) for e in cmds)
        for e in cmds:
            stats["by_op"][e["op"]] = stats["by_op"].get(e["op"], 0) + 1
        if not samples and len(cmds) > 10:
            samples.append({"engine": eng, "policy": policy, "reset": events[0],
                            "excerpt": [{k: (e[k] if k != "d" else [x for x in e["d"] if x][:6]) for k in e} for e in cmds[3:7]]})
        for line, what in mm:
            s0, seg = V.segment_of(events, line)
            sig = S.iso_signature(eng, policy, seg, what)
            e = seg[-1]
            txt = "%s/%s: %s line %d: names %s; command %s; ZIsolate expects (reply, list reply, {<<tuple, dump>> that differ}) = %s" % (
                eng, policy, os.path.basename(f), line, json.dumps({k: seg[0].get(k) for k in ("tabs", "keys", "subs")}),
                json.dumps({k: e[k] for k in e if k != "d"}, sort_keys=True), what[:500])
            segf = os.path.join(ctx.sub("fail"), "%s-%s-%d.ndjson" % (name, os.path.basename(f), line))
            V.write_ndjson(segf, seg)
            stats["mismatches"] += 1
            got += 1
            V.report_failure(ctx, sig, txt, files=[segf], script={"isosim": args, "engine": eng, "policy": policy})
    if expect and got == 0:
        ctx.notes.append("isolate stage %s produced no failure: known finding %s may be fixed" % (name, expect))
    stats["runs"].append({"stage": name, **{k: summ[k] for k in summ if k not in ("driver", "by_op")}})


def idx_stage(ctx, zr, name, eng, policy, args, stats, samples, expect=None):
    """Secondary hash indexes with table-prefix neighbours (idxsim + ZIndexTrace)."""
    summ, files = S.drive(ctx, zr, "idxsim", name, ["-eng", eng, "-policy", policy, "-seed", str(ctx.seed)] + args, parts=2)
    if summ is None:
        return
    got = 0
    for f, events, mm in S.validate(ctx, "ZIndexTrace", "ZIndexTrace.cfg", files, name):
        stats["index_events"] += len(events)
        stats["index_searches"] += sum(1 for e in events if e.get("ev") == "q")
        stats["index_worlds"] += sum(1 for e in events if e.get("ev") == "reset")
        if len(samples) < 4 and any(e.get("ev") == "q" and e["res"] for e in events):
            qs = [e for e in events if e.get("ev") == "q" and e["res"]][:2]
            samples.append({"index": name, "tables": events[0].get("tabs"), "excerpt": qs})
        for line, what in mm:
            s0, seg = V.segment_of(events, line)
            e = seg[-1]
            sig = {"driver": "idxsim", "engine": eng, "policy": policy, "event": e.get("ev"),
                   "class": "error" if e.get("err") else "foreign-key" if -1 in e.get("res", []) else "wrong-result"}
            if e.get("ev") == "q":
                ints = seg[0].get("int", [])
                sig["int_extreme"] = bool(1 <= e.get("t", 0) <= len(ints) and ints[e["t"] - 1] and (
                    (e.get("lo") == 5 and not e.get("il")) or (e.get("hi") == 1 and not e.get("ih"))))
                sig["unique"] = bool(seg[0].get("unique", [False] * 3)[e["t"] - 1]) if 1 <= e.get("t", 0) <= 3 else False
            txt = "%s/%s: %s line %d: tables %s; observed %s; ZIndex expects %s" % (
                eng, policy, os.path.basename(f), line, json.dumps(seg[0].get("tabs")), json.dumps(e, sort_keys=True)[:300], what[:300])
            segf = os.path.join(ctx.sub("fail"), "%s-%s-%d.ndjson" % (name, os.path.basename(f), line))
            V.write_ndjson(segf, seg)
            stats["mismatches"] += 1
            got += 1
            V.report_failure(ctx, sig, txt, files=[segf], script={"idxsim": args, "engine": eng, "policy": policy})
    if expect and got == 0:
        ctx.notes.append("isolate stage %s produced no failure: known finding %s may be fixed" % (name, expect))
    stats["runs"].append({"stage": name, **{k: summ[k] for k in summ if k != "driver"}})


def codec_stage(ctx, zr, stats, samples):
    q = ctx.quick()
    args = ["-seed", str(ctx.seed)] + (["-maxlen", "6", "-bmax", "9", "-pairs", "2000"] if q else
                                       ["-maxlen", "9", "-bmax", "17", "-pairs", "20000"])
    summ, files = S.drive(ctx, zr, "codecord", "codec", args)
    if summ is None:
        return
    fams = set()
    for f, events, mm in S.validate(ctx, "ZCodecOrdTrace", "ZCodecOrdTrace.cfg", files, "codec", heap="6g"):
        stats["codec_lines"] += len(events)
        # measured: distinct, non-trivial cases = distinct encodings of non-empty tuples
        encs = set()
        fam = None
        for e in events:
            if e["ev"] == "reset":
                fam = e.get("family")
                fams.add(fam)
            elif e["ev"] in ("tup", "key"):
                encs.add(tuple(e["enc"]))
                stats["codec_cases"] += 1
            elif e["ev"] == "pair":
                stats["codec_pairs"] += 1
            elif e["ev"] == "rng":
                stats["codec_ranges"] += 1
        stats["codec_distinct"] += len([x for x in encs if len(x) > 1])
        if len(samples) < 3:
            ex = [e for e in events if e["ev"] in ("tup", "key") and 4 < len(e["enc"]) < 40][100:102]
            samples.append({"codec": os.path.basename(f), "excerpt": ex})
        for line, what in mm:
            s0, seg = V.segment_of(events, line)
            e = seg[-1]
            sig = {"driver": "codecord", "family": seg[0].get("family"), "event": e.get("ev"),
                   "class": "roundtrip" if '"roundtrip", FALSE' in what else
                            "order" if '"chain", FALSE' in what or e.get("ev") == "pair" else "range-containment"}
            txt = "codec family %s line %d: case %s; ZCodecOrd evaluates to %s" % (
                seg[0].get("family"), line, json.dumps(e, sort_keys=True)[:500], what[:400])
            segf = os.path.join(ctx.sub("fail"), "codec-%s-%d.ndjson" % (os.path.basename(f), line))
            V.write_ndjson(segf, [x for x in seg if x["ev"] in ("reset", "rng")] + seg[-2:])
            stats["mismatches"] += 1
            V.report_failure(ctx, sig, txt, files=[segf], script={"codecord": args})
    stats["codec_families"] = sorted(x for x in fams if x)
    stats["codec_summary"] = {k: summ[k] for k in summ if k != "driver"}
    if not q and files:
        # the binding is real: flip one encoded byte / swap two neighbours and require rejection
        ev = V.read_ndjson(files[0])
        rnd = random.Random(ctx.seed)
        idx = [i for i, e in enumerate(ev) if e["ev"] == "tup" and e["ch"] and len(e["enc"]) > 9]
        bad = []
        for name in ("byte-flipped", "neighbours-swapped", "decode-wrong"):
            a = [dict(e) for e in ev[:4000]]
            i = rnd.choice([j for j in idx if j < 3990])
            if name == "byte-flipped":
                a[i]["enc"] = list(a[i]["enc"])
                a[i]["enc"][1] = (a[i]["enc"][1] + 128) % 256
            elif name == "neighbours-swapped":
                a[i]["enc"], a[i - 1]["enc"] = a[i - 1]["enc"], a[i]["enc"]
            else:
                a[i]["dec"] = a[i - 1]["dec"]
            p = os.path.join(ctx.sub("selftest"), "codec-" + name + ".ndjson")
            V.write_ndjson(p, a)
            res = S.validate(ctx, "ZCodecOrdTrace", "ZCodecOrdTrace.cfg", [p], "selftest-" + name)
            if not res or not res[0][2]:
                bad.append(name)
        stats["codec_selftest_accepted_wrongly"] = bad
        if bad:
            raise V.Inconclusive("self-test: corrupted codec traces were accepted: %s" % bad)


def self_test(ctx, zr, stats):
    summ, files = S.drive(ctx, zr, "isosim", "selftest", ["-eng", "pebble", "-seed", str(ctx.seed), "-segments", "2"], parts=1)
    if not files:
        return
    ev = V.read_ndjson(files[0])
    rnd = random.Random(ctx.seed)
    cmds = [i for i, e in enumerate(ev) if e.get("ev") == "cmd" and i > 8]
    variants = {}
    a = [dict(e) for e in ev]
    i = rnd.choice(cmds)
    d = [list(x) for x in a[i]["d"]]
    other = [u for u in range(len(d)) if u + 1 != a[i]["u"] and d[u]]
    if other:
        d[rnd.choice(other)] = []                        # another tuple silently emptied
        a[i]["d"] = d
        variants["other-tuple-emptied"] = a
    a = [dict(e) for e in ev]
    i = rnd.choice(cmds)
    a[i]["r"] = a[i]["r"] + 1                             # a wrong reply
    variants["reply-changed"] = a
    j = rnd.choice([k for k in cmds if ev[k]["op"] in ("set", "hset", "sadd", "zadd", "rpush")])
    variants["write-line-dropped"] = ev[:j] + ev[j + 1:]
    bad = []
    for name, tr in variants.items():
        p = os.path.join(ctx.sub("selftest"), name + ".ndjson")
        V.write_ndjson(p, tr)
        res = S.validate(ctx, "ZIsolateTrace", "ZIsolateTrace.cfg", [p], "selftest-" + name)
        if not res or not res[0][2]:
            bad.append(name)
    stats["selftest"] = {"variants": sorted(variants), "accepted_wrongly": bad}
    if bad:
        raise V.Inconclusive("self-test: corrupted traces were accepted: %s" % bad)


def run(ctx):
    zr = S.build(ctx)
    q = ctx.quick()
    # (A) the model
    # explicit heaps: TLC's default (a quarter of the RAM per JVM) gets JVMs killed on a busy box
    mcfg = "MC_ZIsolate_quick.cfg" if q else "MC_ZIsolate.cfg"      # quick: 2 tables x 1 key x 8 types, thorough: 2 x 2 x 8
    r1 = V.tlc(ctx, "MC_ZIsolate", mcfg, timeout=600, workers=8, tag="mc", heap="6g")
    if not r1.ok and not r1.violated and not r1.timed_out:
        ctx.log("model run ended without a verdict (rc=%s); retrying once" % r1.rc)
        r1 = V.tlc(ctx, "MC_ZIsolate", mcfg, timeout=600, workers=8, tag="mc2", heap="6g")
    V.require_model_ok(ctx, r1, "MC_ZIsolate")
    ctx.log("model: %d distinct states, %d transitions" % (r1.distinct, r1.generated))
    mutants = {}
    for m in (["clear-neighbour"] if q else ["clear-neighbour", "deltable-prefix", "type-shared"]):
        rm = V.tlc(ctx, "MC_ZIsolate", "MC_ZIsolate_mut_%s.cfg" % m, timeout=600, workers=4, tag="mut-" + m, heap="3g")
        mutants[m] = rm.violated
        if not rm.violated and not rm.timed_out:
            raise V.Inconclusive("spec mutant %s was not refuted: the invariants do not bite" % m)

    stats = dict(events=0, segments=0, commands=0, tuple_dumps_compared=0, by_op={}, mismatches=0, runs=[],
                 codec_lines=0, codec_cases=0, codec_pairs=0, codec_ranges=0, codec_distinct=0,
                 index_events=0, index_searches=0, index_worlds=0)
    samples = []
    seg, ln = ("20", "70") if q else ("200", "80")
    segs = "10" if q else "100"
    # (B i) general corpora (the trigger of the recorded open finding is kept out)
    iso_stage(ctx, zr, "pebble-local", "pebble", "local", ["-segments", seg, "-len", ln, "-bulk", "60"], stats, samples)
    iso_stage(ctx, zr, "pebble-compact", "pebble", "compact", ["-segments", seg, "-len", ln, "-long", "8000"], stats, samples)
    iso_stage(ctx, zr, "mem-local", "mem", "local", ["-segments", segs, "-len", ln, "-expire=false", "-bulk", "80"], stats, samples)
    if not q:
        iso_stage(ctx, zr, "mem-compact", "mem", "compact", ["-segments", segs, "-len", ln, "-long", "8000"], stats, samples)
        for t in range(9):
            iso_stage(ctx, zr, "pebble-tables%d" % t, "pebble", "local", ["-segments", "12", "-len", ln, "-tables", str(t)], stats, samples)
    # isolate stages
    # formerly the isolate stage of C12-deltable-nonutf8-table (fixed 88d37ad): now strict - on the tables
    # \xff / U+FFFD / \xfe a whole-table delete must be refused and change nothing, or delete exactly its table
    iso_stage(ctx, zr, "deltable-nonutf8-strict", "pebble", "local", ["-segments", "4", "-len", "60", "-tables", "8"],
              stats, samples)
    # partial-range DeleteTableRange [start, end) with start / end equal to existing keys of every type: focused stage on
    # worlds with equal-length key names (open finding C12-delrange-partial-length-order is about the others)
    iso_stage(ctx, zr, "delrange-focus", "pebble", "local", ["-segments", "10" if q else "80", "-len", "70", "-types", "5", "-expire=false",
                                                             "-delrange-w", "12", "-keypool", "0"], stats, samples)
    iso_stage(ctx, zr, "delrange-focus-compact", "pebble", "compact", ["-segments", "8" if q else "60", "-len", "70", "-types", "5",
                                                                       "-delrange-w", "12", "-keypool", "0"], stats, samples)
    iso_stage(ctx, zr, "isolate-delrange-anylen", "pebble", "local", ["-segments", "6", "-len", "70", "-types", "5", "-expire=false",
                                                                      "-delrange-w", "12", "-delrange-anylen"], stats, samples,
              expect="C12-delrange-partial-length-order")
    iso_stage(ctx, zr, "isolate-deltable-ext", "pebble", "local", ["-segments", "4", "-len", "60", "-deltable-ext"], stats, samples,
              expect="C12-deltable-skips-bitmap-json-hll")
    iso_stage(ctx, zr, "isolate-mem-expiry", "mem", "local", ["-segments", "2", "-len", "20", "-burst"], stats, samples,
              expect="C12-mem-expiry-pass-deadlock")
    # secondary hash indexes: DDL through schema-change proposals, build on existing data (the store's
    # asynchronous loop, polled), incremental writes, searches; tables whose names are prefixes of each other
    nidx = "4" if q else "60"
    idx_stage(ctx, zr, "index-pebble-local", "pebble", "local", ["-segments", nidx], stats, samples)
    idx_stage(ctx, zr, "index-pebble-compact", "pebble", "compact", ["-segments", nidx], stats, samples)
    idx_stage(ctx, zr, "index-mem-local", "mem", "local", ["-segments", nidx], stats, samples)
    # (B ii) codec and key encoders
    codec_stage(ctx, zr, stats, samples)
    if not q:
        self_test(ctx, zr, stats)
    if stats["commands"] == 0 or stats["codec_cases"] == 0:
        raise V.Inconclusive("nothing could be validated")
    cov = dict(
        states=r1.distinct, transitions=r1.generated,
        traces_validated_against_impl=stats["segments"],
        samples=samples or [{"note": "no sample"}],
        model_run=dict(cfg=mcfg, **r1.summary()), spec_mutants_refuted=mutants,
        commands_validated=stats["commands"], tuple_dumps_compared=stats["tuple_dumps_compared"],
        commands_by_op=stats["by_op"], index_searches_validated=stats["index_searches"], index_worlds=stats["index_worlds"], mismatching_segments=stats["mismatches"], driver_runs=stats["runs"],
        selftest=stats.get("selftest"),
        codec=dict(level="exploration", evaluations=stats["codec_cases"] + stats["codec_pairs"],
                   distinct_nontrivial=stats["codec_distinct"],
                   rule="a case is one tuple (or one storage key) encoded and decoded by the real code; distinct and "
                        "non-trivial = distinct encodings longer than one byte; TLC (ZCodecOrdTrace) evaluates round "
                        "trip, order preservation against its own TupleOrder on every neighbour of the ascending "
                        "enumeration (all pairs by transitivity) plus random pairs, and containment of every storage "
                        "key in exactly the declared collection / table ranges it belongs to",
                   ranges_declared=stats["codec_ranges"], random_pairs=stats["codec_pairs"],
                   families=stats.get("codec_families"), summary=stats.get("codec_summary"),
                   selftest_accepted_wrongly=stats.get("codec_selftest_accepted_wrongly")),
        rule="after every command the full enumeration of every (type, table, key) tuple of the world (96 tuples: 8 types x 3 tables x 4 keys) and "
             "the reply equal ZIsolate; TLC (ZIsolateTrace) decides",
        checker_cmd="tlc -config ZIsolateTrace.cfg ZIsolateTrace / -config ZCodecOrdTrace.cfg ZCodecOrdTrace (ZR_TRACE=<part>)",
    )
    V.write_evidence(ctx, "model_checking", cov, assumptions=[
        "part (ii) (codec, key encoders) is an enumeration over small adversarial alphabets evaluated by TLC: exploration, "
        "not model checking",
        "generator constraints: distinct increasing log timestamps; a tuple that got an expiry is not written again "
        "before the next expiry pass; expire commands only under local deletion; lists below 6 elements, collections "
        "of at most 3 sub-keys; the > 5 000-element DeleteRange branch of the clears is reached by bulk episodes "
        "(5 002 unlogged extra elements added and cleared within one logged clear; local deletion only, valid-UTF-8 "
        "short names only)",
        "bitmap (SETBITV2 / BITCLEAR), JSON (JSON.SET / JSON.DEL of a whole document) and HyperLogLog (PFADD / DEL, read "
        "back with PFCOUNT) tuples are part of the command mix; bitmap and HLL tuples use key names of their own because "
        "they share the kv keyspace by design; replies of PFADD and of DEL on an HLL key are not modelled (C07 write-cache "
        "finding); secondary hash indexes have a stage of their own (idxsim / ZIndexTrace: string- and int64-typed, unique and "
        "non-unique indexes on one field; conditions =, <, <=, >, >= and range pairs with bounds that are stored values incl. the "
        "smallest / largest int64; DDL add / build-on-existing-data / ready / delete, hset / hdel / hclear while ready; under a "
        "unique index no two hashes of a table carry the same value; no writes while an index is being built; JSON indexes, "
        "prefix-length indexes, offsets / limits and HIDX through the server are not driven)",
        "sorted-set lexicographic range commands (ZRANGEBYLEX / ZLEXCOUNT / ZREMRANGEBYLEX) are issued only when all members of "
        "the set have one score (Redis leaves the other case undefined); bounds are the sub-key names incl. the empty one, and '-' / '+'",
        "multi-key commands on kv tuples (MGET, EXISTS, DEL with several keys: existing, absent and invalid names - no separator, "
        "empty table, over-long - in every position; MSET with valid names only, because a failing MSET leaves earlier pairs in "
        "the open write batch, which is C11's subject); partial-range DeleteTableRange [start, end) with bounds equal to keys of "
        "the world (end exclusive; scope kv / hash / list / set / zset), only in worlds with equal-length key names (open finding)",
        "whole-table delete is checked with DeleteTableRange.CheckValid and built exactly like KVNode.DeleteRange builds its "
        "proposal, then applied through the state machine; a refused delete (reply -998) must change nothing",
        "mem engine: prefix-free name pools only (recorded C20 finding on radix iterators), no expiry pass (recorded finding)",
        "limit probes: key / sub-key / value lengths at the documented limits (10 240 / 10 240 / 8 MiB, constants of the "
        "model) +-1 and around 65 536; between the two readings of the key limit (key alone / table:key) either answer is "
        "accepted; table-name lengths are not limited by the code and table names longer than 65 535 bytes are outside the pools",
    ])
