"""C04 - acknowledged writes are totally ordered and never lost in a cluster.

(A) white-box: the pending/acked table of spec/ZNode.tla in the leader and follower views of a
    3-replica group (a waiter is triggered at most once, only by the apply of its own id and
    only after it; an answer is only given for a group-committed entry; after a crash, restart
    and catch-up every acknowledged operation is in the store), exhaustive, with spec mutants.
(B) harness clustersim: 3 real data-node processes (mem, pebble), 4 clients issuing
    value-returning writes with distinguishable values on all replicas, a nemesis (kill -9 +
    restart, SIGTERM + restart, leader transfer, always leaving a majority), epochs of <= 200
    operations cut by settle barriers with every key read from every replica.
    spec/ZLinTrace.tla (TLC) decides: a linearization must exist in which every answered
    operation appears exactly once between invocation and answer, every other one at most once;
    the reads of all replicas must be equal (AllReplicasEqual) and equal to the abstract store,
    which contains every acknowledged write (EveryAckedPresent).
"""
import json
import os
import random

import vcheck as V
import _node as N

MUTANTS = {"AckBeforeApply": "TriggerOwnAfterApply", "WrongId": "TriggerOwnAfterApply", "DoubleTrigger": "NeverBoth"}


def model_stage(ctx, stats):
    def one(item):
        cfg, workers, to = item
        files = None
        if cfg.startswith("q3_"):
            src = open(os.path.join(V.VERIF, "spec", cfg[3:])).read().replace("MaxOps = 4", "MaxOps = 3")
            p = os.path.join(ctx.sub("qcfg"), cfg)
            open(p, "w").write(src)
            files = {p: cfg}
        return cfg, V.tlc(ctx, "MC_ZNode", cfg, workers=workers, timeout=to, tag="mc-" + cfg[:-4], files=files)
    if ctx.quick():
        items = [("q3_MC_ZNode_leader.cfg", 3, 600), ("q3_MC_ZNode_follower.cfg", 3, 600)]
    else:
        items = [("MC_ZNode_leader.cfg", 5, 1500), ("MC_ZNode_follower.cfg", 6, 2000)]
    res = dict(V.parallel(one, items, n=2))
    runs = []
    for cfg, _, _ in items:
        V.require_model_ok(ctx, N.soften(res[cfg]), cfg)
        runs.append(dict(cfg=cfg, **res[cfg].summary()))
    if not ctx.quick():
        base = open(os.path.join(V.VERIF, "spec", "MC_ZNode_leader.cfg")).read().replace("MaxOps = 4", "MaxOps = 3")

        def mut(m):
            p = os.path.join(ctx.sub("mutcfg"), "zz_%s.cfg" % m)
            open(p, "w").write(base.replace('Mutant = ""', 'Mutant = "%s"' % m))
            return m, V.tlc(ctx, "MC_ZNode", "zz_%s.cfg" % m, workers=2, timeout=600, tag="mut-" + m, files={p: "zz_%s.cfg" % m})
        for m, r in V.parallel(mut, list(MUTANTS), n=3):
            if N.soften(r).timed_out:
                ctx.skipped += 1
                continue
            if not r.violated or r.violated == "Deadlock":
                raise V.Inconclusive("spec mutant %s was not refuted (expected %s, got %s)" % (m, MUTANTS[m], r.violated or r.error))
            # (with several workers TLC reports whichever violated invariant it meets first)
            stats["spec_mutants_refuted"].append(m if r.violated == MUTANTS[m] else "%s (by %s)" % (m, r.violated))
    stats["model_runs"] = runs
    return res[items[0][0]]


def classify(events, v):
    sig = {}
    if v["violated"]:
        sig["class"] = "replicas-differ" if v["violated"] == "AllReplicasEqual" else v["violated"]
        return sig, "invariant %s violated: the replicas returned different data after the settle barrier" % v["violated"]
    e = events[v["hw"] - 1] if v["hw"] and v["hw"] <= len(events) else {}
    sig["event"] = e.get("ev")
    if e.get("ev") == "ok":
        s0, seg = V.segment_of(events, v["hw"])
        op = next((x["op"] for x in seg if x.get("ev") == "inv" and x.get("id") == e.get("id")), {})
        sig["class"] = "reply-not-linearizable"
        sig["op"] = "pop" if op.get("t") in ("lpop", "rpop") else op.get("t")
        sig["reply"] = "nil" if e.get("res") == 0 and sig["op"] == "pop" else "value"
        # answered from a local pre-check without going through raft?
        sig["shortcut"] = e.get("res") == 0 and op.get("t") in ("lpop", "rpop", "setnx")
        sig["del_zero"] = e.get("res") == 0 and op.get("t") == "del"
        sig["read"] = op.get("t") in ("get", "hget", "llen")
        return sig, "answer %s to %s cannot be placed in any linearization" % (e.get("res"), json.dumps(op))
    if e.get("ev") == "replayed":
        sig["class"] = "replay-drops-wal-entries"
        return sig, ("node %s restarted with raft last index %s although its WAL returned entries up to %s: entries above "
                     "the persisted commit index were dropped at replay" % (e.get("n"), e.get("raft_last"), e.get("wal_last")))
    if e.get("ev") == "appended":
        sig["class"] = "ready-entries-not-in-raft-log"
        return sig, ("node %s: after the append of a Ready (snapshot %s) raft's log ends at %s although the Ready's last entry is %s"
                     % (e.get("n"), e.get("snap"), e.get("raft_last"), e.get("ents_last")))
    if e.get("ev") == "published":
        sig["class"] = "publish-before-save"
        return sig, ("node %s handed entry %s to the apply loop while the largest index saved to its WAL was %s"
                     % (e.get("n"), e.get("pub"), e.get("saved")))
    if e.get("ev") == "sent":
        sig["class"] = "send-before-persist"
        return sig, ("node %s: processReady sent the messages of a Ready that changes term/vote before persisting it, and it was "
                     "not the Ready in which it became leader (%d times)" % (e.get("n"), e.get("count", 0)))
    if e.get("ev") == "read":
        s0, seg = V.segment_of(events, v["hw"])
        # all reads of this barrier (they follow the failing line up to the settle line)
        rs = []
        for x in events[v["hw"] - 1:]:
            if x.get("ev") == "read":
                rs.append(json.dumps(x["st"], sort_keys=True))
            elif x.get("ev") == "settle":
                break
        sig["class"] = "replica-state-diverged" if len(set(rs)) > 1 else "acked-write-missing-or-phantom"
        return sig, "replica %s returned %s, which is not the fold of any linearization containing every acknowledged write" % (
            e.get("n"), json.dumps(e.get("st")))
    sig["class"] = "other"
    return sig, "line %s cannot be a step: %s" % (v["hw"], json.dumps(e))


def run(ctx):
    rnd = random.Random(ctx.seed)
    stats = dict(rounds=0, epochs=0, accepted=0, rejected=0, events=0, acked=0, unanswered=0, nemesis={},
                 spec_mutants_refuted=[], selftest=[], process_starts=0, tlc_states=0, whitebox={})
    samples = []
    vnode, zr = N.build(ctx)

    import threading
    mres = {}

    def mrun():
        try:
            mres["ok"] = model_stage(ctx, stats)
        except Exception as ex:
            mres["err"] = ex
    mt = threading.Thread(target=mrun)
    mt.start()

    pebble_avoid = any(f.get("id") == "c14-pebble-checkpoint-release-timer" and f.get("status") == "open" for f in V.load_known())
    rounds = []
    nr = 3 if ctx.quick() else 42
    mixes = ["kill,term,transfer,partition", "kill", "kill,transfer", "term,transfer", "kill,kill,term",
             "partition", "kill,partition", "partition,transfer"]   # quick uses the first one
    for i in range(nr):
        eng = ["mem", "pebble"][i % 2]
        a = ["-vnode", vnode, "-engine", eng, "-seed", str(ctx.seed * 1000 + i), "-mix", mixes[i % len(mixes) if not ctx.quick() else 0],
             "-epochs", "3", "-clients", str(3 + (i + ctx.seed) % 3)]
        a += ["-reads"]          # GET / HGET / LLEN to the leader, checked as linearizable operations
        if eng == "pebble" and pebble_avoid:
            a += ["-snapcount", "1000000"]     # avoid rule of c14-pebble-checkpoint-release-timer while it was open
        elif eng == "pebble" and i % 4 == 1:
            a += ["-snapcount", "1000000"]     # some pebble rounds restart before the first snapshot (CleanData + full replay)
        rounds.append(dict(name="round-%d-%s" % (i, eng), engine=eng, ckpt=(eng != "pebble" or not pebble_avoid), args=a))

    # strict stage: proposals ended by a time-out (no quorum), then writes through the same process
    rounds.append(dict(name="stage-timeout", engine="mem", ckpt=True,
                       args=["-vnode", vnode, "-engine", "mem", "-kind", "timeout", "-seed", str(ctx.seed)]))

    # strict stage: a write batch made on purpose (1-replica group, raft goroutine held at ready.advanced
    # until the commands are queued, hook wait.register): answers swapped inside a batch are visible
    rounds.append(dict(name="stage-batch", engine="mem", ckpt=True,
                       args=["-vnode", vnode, "-engine", "mem", "-kind", "batch", "-n", "1", "-seed", str(ctx.seed)]))

    # strict stage: an entry acknowledged with the ack of ONE follower only (the other is cut off), that follower
    # killed before it learns the commit index, then the leader; the two remaining replicas must keep the entry
    rounds.append(dict(name="stage-lostack", engine="mem", ckpt=True,
                       args=["-vnode", vnode, "-engine", "mem", "-kind", "lostack", "-seed", str(ctx.seed)]))

    def do(s):
        summ, tr, d = N.run_scenario(ctx, zr, "clustersim", s["name"], s["args"], timeout=600)
        if summ is None:
            return s, None, None, None, d
        return s, summ, tr, N.validate(ctx, "ZLinTrace", tr, "v-" + s["name"], timeout=420), d

    def account(s, summ, tr, v, d):
        if summ is None:
            return
        if v is None:
            ctx.skipped += 1
            ctx.notes.append("TLC could not decide the history of %s in time" % s["name"])
            return
        events = V.read_ndjson(tr)
        stats["rounds"] += 1
        stats["epochs"] += summ["epochs"]
        stats["events"] += len(events)
        for e in events:
            if e.get("ev") in ("sent", "replayed", "published", "appended"):
                stats["whitebox"][e["ev"]] = stats["whitebox"].get(e["ev"], 0) + 1
        stats["acked"] += summ["ok"]
        stats["unanswered"] += summ["fail"]
        stats["process_starts"] += summ["process_starts"]
        stats["tlc_states"] += v["res"].distinct
        for k, x in (summ.get("nemesis") or {}).items():
            stats["nemesis"][k] = stats["nemesis"].get(k, 0) + x
        if v["accepted"]:
            stats["accepted"] += 1
            if not samples and len(events) > 60:
                i = next((j for j, e in enumerate(events) if e.get("ev") == "fail"), 20)
                samples.append({"round": s["name"], "excerpt": events[max(1, i - 4):i + 4] + events[-5:-1]})
            return
        stats["rejected"] += 1
        sig, what = classify(events, v)
        sig["engine"] = s["engine"]
        sig["checkpoints"] = bool(s.get("ckpt"))
        sig["pebble_ckpt_family"] = s["engine"] == "pebble" and bool(s.get("ckpt"))
        s0, seg = V.segment_of(events, v["hw"] or len(events))
        segf = os.path.join(d, "failing-epoch.ndjson")
        V.write_ndjson(segf, seg)
        V.report_failure(ctx, sig, "%s (%s): %s" % (s["name"], s["engine"], what),
                         files=[tr, segf] + [os.path.join(d, "data", f) for f in sorted(os.listdir(os.path.join(d, "data")))
                                             if f.endswith(".log")][:8],
                         script={"clustersim": s["args"][2:]})

    for r in V.parallel(do, rounds, n=3 if ctx.quick() else 5):
        account(*r)
    ctx.log("general corpus: %d rounds (%d epochs), %d accepted, %d rejected, %d skipped" % (
        stats["rounds"], stats["epochs"], stats["accepted"], stats["rejected"], ctx.skipped))

    # isolate stage of c14-pebble-checkpoint-release-timer: pebble replicas that do take checkpoints
    isop = []
    for i in range(1 if ctx.quick() else 6):
        isop.append(dict(name="isolate-pebble-ckpt-%d" % i, engine="pebble", ckpt=True,
                         args=["-vnode", vnode, "-engine", "pebble", "-seed", str(ctx.seed * 1000 + 500 + i), "-mix", "kill",
                               "-epochs", "2", "-snapcount", "25"]))
    for r in V.parallel(do, isop, n=3):
        if not pebble_avoid:
            r[0]["engine"] = "pebble"      # repaired: these rounds are strict (no signature can downgrade them)
        account(*r)

    # isolate stage of c04-pop-precheck-local-read
    iso = dict(name="isolate-popstale", engine="mem",
               args=["-vnode", vnode, "-engine", "mem", "-kind", "popstale", "-seed", str(ctx.seed)])
    stats["isolate"] = {}
    # delswallow: strict since d21256b (DEL / EXISTS answer the error of a failed sub-command)
    iso2 = dict(name="stage-delswallow", engine="mem",
                args=["-vnode", vnode, "-engine", "mem", "-kind", "delswallow", "-seed", str(ctx.seed)])
    isos = [iso, iso2]
    isos.append(dict(name="isolate-staleread", engine="mem",
                     args=["-vnode", vnode, "-engine", "mem", "-kind", "staleread", "-seed", str(ctx.seed)]))
    for r in V.parallel(do, isos, n=3):
        if r[1] is not None and r[3] is not None:
            stats["isolate"][r[0]["name"]] = dict(reproduced=not r[3]["accepted"], observed=r[1].get("nemesis"))
            account(*r)

    mt.join()
    if "err" in mres:
        raise mres["err"]
    r1 = mres["ok"]

    if not ctx.quick():
        good = next((os.path.join(ctx.scratch, "run-%s-1" % s["name"], "trace.ndjson") for s in rounds
                     if os.path.exists(os.path.join(ctx.scratch, "run-%s-1" % s["name"], "trace.ndjson"))), None)
        if good:
            def drop_incr(ev):
                i = next(j for j, e in enumerate(ev) if e.get("ev") == "ok" and any(
                    x.get("ev") == "inv" and x["id"] == e["id"] and x["op"]["t"] == "hincrby" for x in ev[:j]))   # never overwritten
                idd = ev[i]["id"]
                return [e for e in ev if not (e.get("id") == idd and e.get("ev") in ("inv", "ok"))]

            def one_replica_differs(ev):
                out, done = [], False
                for e in ev:
                    if e.get("ev") == "read" and e.get("n") == 2 and not done:
                        e = json.loads(json.dumps(e))
                        e["st"]["s1"] += 1
                        done = True
                    out.append(e)
                return out

            def swap_answers(ev):
                oks = [j for j, e in enumerate(ev) if e.get("ev") == "ok" and e["res"] > 1]
                out = [dict(e) for e in ev]
                for a in range(len(oks) - 1):
                    i, j = oks[a], oks[a + 1]
                    if out[i]["res"] != out[j]["res"]:
                        out[i]["res"], out[j]["res"] = out[j]["res"], out[i]["res"]
                        break
                return out
            for nm, fn in (("drop-acked-hincrby", drop_incr), ("one-replica-differs", one_replica_differs), ("swap-two-answers", swap_answers)):
                p = os.path.join(ctx.sub("selftest"), nm + ".ndjson")

                def first_epoch(ev, fn=fn):
                    # a rejection is an exhaustive search: keep it small (first epoch only)
                    n = next((j for j, e in enumerate(ev) if e.get("ev") == "settle"), len(ev) - 1)
                    return fn(ev[:n + 1])
                N.rewrite(good, p, first_epoch)
                v = N.validate(ctx, "ZLinTrace", p, "self-" + nm, timeout=420)
                if v is None:        # TLC did not finish the (exhaustive) rejection in time: environment
                    ctx.skipped += 1
                    ctx.notes.append("binding self-test %s not decided in time" % nm)
                    continue
                if v["accepted"]:
                    raise V.Inconclusive("binding self-test: corrupted history %s was not rejected" % nm)
                stats["selftest"].append(nm)

    if stats["rounds"] == 0:
        raise V.Inconclusive("no cluster round could be run and validated")
    cov = dict(
        states=r1.distinct, transitions=r1.generated,
        traces_validated_against_impl=stats["epochs"],
        samples=samples or [{"note": "no sample"}],
        exhaustive=not ctx.quick(),
        model_runs=stats.get("model_runs"), spec_mutants_refuted=stats["spec_mutants_refuted"],
        binding_selftest_rejected=stats["selftest"], isolate=stats.get("isolate"),
        rounds=stats["rounds"], epochs_validated=stats["epochs"], accepted_rounds=stats["accepted"],
        rejected_rounds=stats["rejected"], events_validated=stats["events"], acked_ops=stats["acked"],
        unanswered_ops=stats["unanswered"], nemesis_actions=stats["nemesis"], process_starts=stats["process_starts"],
        tlc_states_explored_for_histories=stats["tlc_states"],
        whitebox_events=dict(stats["whitebox"], note="hook reports that reached a trace: sent / replayed / published / "
                             "appended (= Readys carrying a snapshot AND entries, rule TAppended)"),
        rule="one validated trace = one epoch (<= 200 operations between two settle barriers) of a round on three real "
             "data-node processes under the nemesis; TLC (ZLinTrace) searches for a linearization and compares the reads "
             "of all three replicas",
        checker_cmd="tlc -config ZLinTrace.cfg ZLinTrace (ZR_TRACE=<history>, workers 1, StateDeque)",
    )
    V.write_evidence(ctx, "model_checking", cov, assumptions=[
        "operations of the ZOps model only (INCR, GETSET, SETNX, SET, SET NX / XX, SETEX with a far expiry, DEL, HINCRBY, "
        "LPUSH, LPOP, RPOP on 2 string keys, 2 hash fields, 1 list); no reachable expiry",
        "history order is the parent process's own order of sending and receiving",
        "after a settle barrier (all replicas up, write barrier, equal applied index twice in a row) an unanswered "
        "operation is assumed not to take effect any more",
        "LPOP / RPOP / SETNX are only sent to the replica that reports itself leader (known finding "
        "c04-pop-precheck-local-read); the isolate stage checks the follower path",
        "nemesis: process kill, graceful stop, leader transfer, and a partition that cuts one replica's raft "
        "transport off for 1.8-4 s, one replica at a time; no asymmetric or partial partitions (C01-C03 cover message "
        "loss at the raft level)",
        "reads: GET / HGET / LLEN only to the replica that reports itself leader and never to the cut-off "
        "replica (known finding c04-leader-local-read-after-deposition)",
        "an epoch that cannot be closed by a barrier in time is dropped and counted, never judged",
    ])
