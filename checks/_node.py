"""Helpers shared by C06 (crashsim) and C04 (clustersim): building the child-node binary and
the drivers, running one multi-process scenario with retry / skip-and-count, validating one
black-box trace with TLC (ZNodeTrace / ZLinTrace, nondeterministic family: acceptance = the
high-water mark of the line counter reaches the end), and reading TLC's counterexamples by
their action labels only."""
import json
import os
import re
import threading

import vcheck as V

DRIVER_FILES = ["vnodelib.go", "crashsim.go", "clustersim.go"]

_lock = threading.Lock()


def build(ctx):
    vnode = V.go_build(ctx, pkg="./cmd/vnode")
    have = [f for f in DRIVER_FILES if os.path.exists(os.path.join(V.VERIF, "harness", "cmd", "zrdrive", f))]
    zr = V.go_build(ctx, files=have)
    return vnode, zr


def run_scenario(ctx, zr, driver, name, args, timeout=300):
    """Run one driver invocation in its own scratch directory.  Returns (summary, trace_path,
    dir) or (None, None, dir) when it could not be carried out (retried once, then skipped
    and counted - never a verdict)."""
    for attempt in (1, 2):
        d = ctx.sub("run-%s-%d" % (name, attempt))
        tr = os.path.join(d, "trace.ndjson")
        rc, out = V.run(ctx, [zr, driver, "-root", os.path.join(d, "data"), "-o", tr] + args,
                        timeout=timeout, env={"ZR_SCRATCH": d})
        summ = [json.loads(l[8:]) for l in out.splitlines() if l.startswith("SUMMARY ")]
        if rc == 0 and summ and summ[-1].get("status") != "env" and os.path.exists(tr):
            return summ[-1], tr, d
        why = summ[-1].get("why") if summ else out[-300:].replace("\n", " | ")
        with _lock:
            ctx.log("%s %s: attempt %d not carried out (rc=%s): %s" % (driver, name, attempt, rc, why))
    with _lock:
        ctx.skipped += 1
        ctx.notes.append("%s %s skipped (environment)" % (driver, name))
    return None, None, d


_re_hw = re.compile(r'^<<"HIGHWATER", (\d+), (\d+)>>$')


def validate(ctx, module, trace_path, tag, timeout=180, cfg=None):
    """TLC on one trace.  Returns dict(accepted, hw, n, violated, res) or None if TLC could
    not decide (time-out / evaluation error: counted as skipped by the caller)."""
    res = V.tlc(ctx, module, cfg or (module + ".cfg"), workers=1, timeout=timeout, deque=True,
                env={"ZR_TRACE": trace_path}, tag=tag, heap="2g")
    hw = n = None
    for p in res.prints:
        m = _re_hw.match(p)
        if m:
            hw, n = int(m.group(1)), int(m.group(2))
    if res.violated and res.violated not in ("Deadlock",):
        return dict(accepted=False, hw=hw, n=n, violated=res.violated, res=res)
    if hw is None or res.timed_out:
        return None
    return dict(accepted=(hw == n + 1), hw=hw, n=n, violated=None, res=res)


def action_labels(tlc_out):
    """The action names of a TLC counterexample, in order (labels only, never values)."""
    return re.findall(r"^State \d+: <(\w+) line", tlc_out, flags=re.M)


def rewrite(trace_path, out_path, fn):
    ev = V.read_ndjson(trace_path)
    ev2 = fn(ev)
    V.write_ndjson(out_path, ev2)
    return ev2


def soften(res):
    """A TLC run that ended without any verdict (no 'no error', no violation, no TLC error:
    killed by the OOM killer or starved on an overloaded machine) is environmental: mark it as
    timed out so that require_model_ok skips and counts it instead of raising."""
    if not res.ok and not res.violated and not res.error and not res.post_false:
        res.timed_out = True
    if not res.ok and not res.violated and res.post_false and "ostcondition" not in res.out:
        res.timed_out = True     # parse_tlc's POSTCONDITION heuristic on a truncated output
    return res
