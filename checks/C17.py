"""C17 - placement puts each partition's replicas on distinct, spread-out nodes.

spec/ZPlace.tla is a *contract*: `Layout` is any function whose results satisfy ExactlyR,
DistinctLiveNodes, Deterministic, refusal iff too few nodes, and - under their premises -
DCSpread and LeaderBalanceV1.
(A) TLC (MC_ZPlace) shows the contract is satisfiable over all node-loss/addition
    histories of a small universe and that no premise is vacuous (4 refutation configs).
(B) harness `placesim` calls the REAL getRebalancedNamespacePartitions on every topology of
    the tier's enumeration (both algorithms, for v2 every up/down history from each fresh
    layout) and on seeded large topologies; spec/ZPlaceTrace.tla (TLC) evaluates the
    contract on every recorded (input, old layout, output).
"""
import json
import os
import random

import vcheck as V
import _place as P

NS_NAMES = ["ns0", "test-ns", "a", "yz_kv_07"]      # (historic; the enumeration now uses placesim's name pool)


def classify(e, clauses):
    R = e.get("R", 0)
    return {
        "algo": e.get("algo"),
        "res": e.get("res"),
        "clauses": "+".join(clauses),
        "old_longer_than_R": any(len(o) > R for o in e.get("old", [])),
    }


def validate(ctx, name, d, summ, stats, samples, expect_clean=True, script=None):
    files = P.part_files(d)
    if not files:
        ctx.skipped += 1
        return
    seen_sig = {}
    for f, consumed, mism, res in P.validate_parts(ctx, "ZPlaceTrace", "ZPlaceTrace.cfg", files, name,
                                                   n=8 if ctx.quick() else 12, heap="1500m"):
        if not consumed and not mism:
            if res.timed_out:
                ctx.log("TLC timed out on %s; skipped" % f)
                ctx.skipped += 1
                continue
            raise V.Inconclusive("trace validation of %s did not complete: %s" % (f, res.error or res.out[-400:]))
        events = V.read_ndjson(f)
        calls = [e for e in events if e.get("ev") == "place"]
        stats["lines"] += len(events)
        stats["calls"] += len(calls)
        stats["segments"] += len(events) - len(calls)
        for e in calls:
            key = (e["n"], tuple(e["dc"]))
            stats["topo"].add(key)
            if e["res"] == "ok":
                # (hashed: the thorough tier sees millions of calls)
                stats["layouts"].add(hash((key, e["algo"], e["P"], e["R"], tuple(e["live"]), json.dumps(e["out"]))))
        if len(samples) < 2:
            big = [e for e in calls if e["res"] == "ok" and len(e["live"]) >= 3 and e["R"] >= 2 and e["P"] >= 3]
            if big:
                samples.append({"stage": name, "call": big[len(big) // 2]})
        for line, exp in mism:
            e = events[line - 1]
            clauses = P.clause_names(exp)
            sig = classify(e, clauses)
            k = json.dumps(sig, sort_keys=True)
            seen_sig.setdefault(k, []).append((f, line))
            stats["mismatches"] += 1
            if len(seen_sig[k]) > 1:
                continue
            s, seg = V.segment_of(events, line)
            segf = os.path.join(d, "fail-%s-%d.ndjson" % (os.path.basename(f), line))
            V.write_ndjson(segf, seg)
            what = ("placement call violates %s: algo=%s P=%d R=%d live=%s dc=%s old=%s -> res=%s out=%s %s"
                    % (",".join(clauses), e["algo"], e["P"], e["R"], e["live"], e["dc"], e["old"], e["res"],
                       e["out"], e.get("msg", "")))
            V.report_failure(ctx, sig, what, files=[segf], script=script)
    for k, v in seen_sig.items():
        stats["mismatch_signatures"][k] = stats["mismatch_signatures"].get(k, 0) + len(v)
    stats["runs"].append(summ)


# one good call recorded from the unchanged tree (v1, 3 nodes in 3 data centres, P=3, R=2); the
# self-test corrupts copies of it, so it does not depend on the tree under test
FIXTURE = [{"ev": "reset", "seg": 1, "info": "fixture"}, {"P": 3, "R": 2, "algo": "v1", "dc": [1, 2, 3], "ev": "place", "live": [1, 2, 3], "msg": "", "n": 3, "ns": "ns0", "old": [], "out": [[3, 1], [1, 2], [2, 3]], "out2": [[3, 1], [1, 2], [2, 3]], "outp": [[3, 1], [1, 2], [2, 3]], "res": "ok", "res2": "ok", "resp": "ok"}]


def selftest(ctx, stats):
    """Binding self-test: corrupt single fields of a good trace; TLC must name the clause."""
    base = json.loads(json.dumps(FIXTURE))

    def variant(fn):
        seg = json.loads(json.dumps(base))
        fn(seg[-1])
        return seg

    def dup(e):
        for k in ("out", "out2", "outp"):
            e[k][0][1] = e[k][0][0]

    def short(e):
        for k in ("out", "out2", "outp"):
            e[k][1] = e[k][1][:-1]

    def lead(e):
        for k in ("out", "out2", "outp"):
            e[k][0] = list(e[k][1])

    def nondet(e):
        e["out2"][0] = list(reversed(e["out2"][0]))

    def dead(e):
        e["live"] = [x for x in e["live"] if x != e["out"][0][0]]

    def refuse(e):
        e["R"] = len(e["live"]) + 1

    cases = [("DistinctLiveNodes", dup), ("ExactlyR", short), ("LeaderBalanceV1", lead),
             ("DeterministicRepeat", nondet), ("DistinctLiveNodes", dead), ("RefuseWhenTooFewNodes", refuse)]
    trace = []
    expect = {}
    for want, fn in cases:
        seg = variant(fn)
        trace += seg
        expect[len(trace)] = want
    # and the untouched segment, which must stay clean
    trace += base
    f = os.path.join(ctx.sub("selftest"), "corrupt.ndjson")
    V.write_ndjson(f, trace)
    consumed, mism, res = V.validate_seq_trace(ctx, "ZPlaceTrace", "ZPlaceTrace.cfg", f, tag="selftest")
    got = {line: P.clause_names(exp) for line, exp in mism}
    ok = all(line in got and want in got[line] for line, want in expect.items()) and len(got) == len(expect)
    stats["selftest"] = {"corruptions": len(cases), "rejected": len(got), "ok": ok,
                         "named": {str(k): v for k, v in got.items()}}
    if not ok:
        raise V.Inconclusive("binding self-test failed: expected %s got %s" % (expect, got))


def run(ctx):
    rnd = random.Random(ctx.seed)
    zr = P.harness(ctx, ["placesim.go"])
    # ---- (A) the contract is satisfiable and its premises are not vacuous
    cfgs = ["MC_ZPlace.cfg", "MC_ZPlace_vac1.cfg", "MC_ZPlace_vac2.cfg", "MC_ZPlace_vac3.cfg", "MC_ZPlace_vac4.cfg"]
    if not ctx.quick():
        cfgs.append("MC_ZPlace_3dc.cfg")       # three data centres x two nodes, R in {2,3}
    mres = V.parallel(lambda c: V.tlc(ctx, "MC_ZPlace", c, workers=2, timeout=900, heap="1g"), cfgs, n=6)
    V.require_model_ok(ctx, mres[0], "MC_ZPlace")
    if not ctx.quick():
        V.require_model_ok(ctx, mres[5], "MC_ZPlace_3dc")
    vac = {}
    for c, r in zip(cfgs[1:5], mres[1:5]):
        vac[c] = r.violated
        if r.timed_out:
            ctx.skipped += 1
        elif not r.violated:
            raise V.Inconclusive("%s: a premise of the contract is vacuous in the bounded model (%s)" % (c, r.error))
    ctx.log("model: %d states, %d transitions; vacuity refutations: %s" % (mres[0].distinct, mres[0].generated, vac))

    stats = dict(lines=0, calls=0, segments=0, mismatches=0, topo=set(), layouts=set(),
                 mismatch_signatures={}, runs=[])
    samples = []
    seed = str(ctx.seed)
    quick = ctx.quick()
    # ---- (B) enumeration of small topologies on the real functions
    if quick:
        names = ["@pool"]            # a pool name per work unit (hash residues mod 60 + 32-bit boundary hashes)
        shards, maxn, hist, histn = 4, 5, 3, 4
    else:
        names = ["@pool"] * 3        # fresh layouts under three pool names per unit, history trees under the first
        shards, maxn, hist, histn = 12, 6, 3, 5
    jobs = []
    for s in range(shards):
        jobs.append(("enum-s%d" % s, ["-mode", "enum", "-maxn", str(maxn), "-maxdc", "3", "-maxp", "8", "-maxr", "3",
                                      "-hist", str(hist), "-histn", str(histn), "-multi", "2", "-histns", "1", "-ns", ",".join(names),
                                      "-seed", seed, "-shard", str(s), "-shards", str(shards),
                                      "-parts", "2" if quick else "10"]))
    nrand = 500 if quick else 6000
    rshards = 2 if quick else 8
    for s in range(rshards):
        jobs.append(("rand-s%d" % s, ["-mode", "rand", "-n", str(nrand // rshards), "-seed", str(ctx.seed * 1000 + s),
                                      "-parts", "2" if quick else "4"]))
    # previous layouts with replica lists longer than R (replication factor lowered, balance move in
    # flight) + a node loss: the trigger of finding place-v2-empty-candidates (fixed by ea2d1b6)
    jobs.append(("long-old-lists", ["-mode", "isolate", "-maxn", "4" if quick else "5", "-maxdc", "3", "-maxr", "3",
                             "-ns", names[0], "-seed", seed, "-parts", "1" if quick else "4"]))
    driven = V.parallel(lambda j: (j,) + P.drive(ctx, zr, "placesim", j[0], j[1]), jobs, n=8 if quick else 12)
    for (name, args), d, summ in driven:
        if summ is None:
            ctx.skipped += 1
            continue
        validate(ctx, name, d, summ, stats, samples, script={"placesim": args})
    if stats["calls"] == 0:
        raise V.Inconclusive("no placement call could be validated")
    if not quick or ctx.seed % 4 == 1:
        selftest(ctx, stats)

    tot = lambda k: sum(r.get(k, 0) for r in stats["runs"])
    by_res = {}
    for r in stats["runs"]:
        for k, v in r.get("by_result", {}).items():
            by_res[k] = by_res.get(k, 0) + v
    cov = dict(
        states=mres[0].distinct, transitions=mres[0].generated,
        traces_validated_against_impl=stats["segments"],
        samples=samples or [{"note": "no sample"}],
        model_runs=[dict(cfg=c, **r.summary()) for c, r in zip(cfgs, mres)],
        vacuity_refuted=vac,
        evaluations=stats["calls"], real_invocations=tot("real_invocations"),
        distinct_nontrivial=len(stats["layouts"]),
        distinct_topologies=len(stats["topo"]),
        rule="one evaluation = one recorded call of the real getRebalancedNamespacePartitions (executed 3 times: "
             "again, and with the input map built in another order) judged by TLC against ZPlace; distinct = "
             "different (topology, algorithm, P, R, live set, produced layout)",
        calls_by_result=by_res,
        calls_under_dc_spread_premise=tot("spread_premise_calls"),
        calls_under_v1_balance_premise=tot("balance_premise_calls"),
        calls_with_previous_layout=tot("incremental_calls"),
        calls_with_too_few_nodes=tot("too_few_nodes_calls"),
        calls_on_mixed_tag_node_sets=tot("mixed_tag_calls"),
        calls_with_boundary_hash_namespace=tot("boundary_hash_name_calls"),
        namespace_name_pool="79 names: 60 covering every hash residue mod 60 (every residue mod each node count 1..6) + "
                            "19 whose murmur3.Sum32 is 0,1,2, 2^31-2..2^31+1, 2^32-12..2^32-1 (brute-forced once, "
                            "placesim -mode findns, re-checked at start-up); rotated over the work units by seed",
        max_nodes=max([r.get("max_nodes", 0) for r in stats["runs"]] or [0]),
        max_partitions=max([r.get("max_partitions", 0) for r in stats["runs"]] or [0]),
        enumeration=dict(max_nodes=maxn, max_dcs=3, max_partitions=8, max_replicas=3, history_depth=hist,
                         history_depth_reduced_by_one_above_nodes=histn, max_history_with_multi_node_event=2,
                         namespaces=names, seeded_topologies=nrand),
        contract_violations=stats["mismatches"], violation_signatures=stats["mismatch_signatures"],
        selftest=stats.get("selftest"),
        checker_cmd="tlc -config ZPlaceTrace.cfg ZPlaceTrace (ZR_TRACE=<part>)",
    )
    V.write_evidence(ctx, "model_checking", cov, assumptions=[
        "data-centre premise read in its weakest sound sense: no previous layout is passed, every data centre "
        "with a live node has the same number of live nodes, at least R such data centres; every node carries a "
        "dc_info tag",
        "along an enumerated history the replication factor and partition count stay fixed and the previous "
        "layout is the last layout the function itself produced; previous layouts with replica lists longer "
        "than R (factor lowered by one, one partition extended to R+1) are exercised by stage long-old-lists "
        "with single node losses only",
        "complete enumeration only up to %d nodes / 3 data centres / 8 partitions / R<=3 / histories of <= %d "
        "single-node events (one less above %d nodes when that is not 0), or <= 2 events when one of them changes "
        "several nodes at once (a pair of nodes, a whole data centre); above that seeded sampling up to 40 nodes "
        "/ 4 DCs / 64 partitions / R<=5 with random walks" % (maxn, hist, histn),
        "the contract part (A) is only satisfiability and non-vacuity; the guarantees about the real algorithms "
        "rest on the evaluated calls",
    ])
