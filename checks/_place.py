"""Helpers shared by the placement/migration checks C17 and C18 (family ZPlace / ZCoord)."""
import json
import os
import re

import vcheck as V


def harness(ctx, files):
    """The zrdrive binary built from ctx.repo's working tree with main.go + the given driver files."""
    return V.go_build(ctx, files=files)


def drive(ctx, zr, driver, name, args, timeout=3600):
    """Run one zrdrive driver; returns (scratch dir, summary dict or None)."""
    d = ctx.sub("run-" + name)
    rc, out = V.run(ctx, [zr, driver, "-o", os.path.join(d, "t")] + args, timeout=timeout,
                    env={"ZR_SCRATCH": d})
    summ = [json.loads(l[8:]) for l in out.splitlines() if l.startswith("SUMMARY ")]
    if rc != 0 or not summ:
        ctx.log("%s %s did not complete (rc=%s): %s" % (driver, name, rc, out[-400:]))
        return d, None
    return d, summ[0]


def part_files(d, prefix="t"):
    fs = []
    for f in sorted(os.listdir(d)):
        if f.startswith(prefix + ".") and f.endswith(".ndjson") and os.path.getsize(os.path.join(d, f)) > 0:
            fs.append(os.path.join(d, f))
    return fs


def validate_parts(ctx, module, cfg, files, tag, n=8, timeout=1500, heap="3g"):
    """validate_seq_trace over many part files in parallel, one retry on a timeout.
    Yields (file, consumed, mismatches, TLCResult)."""
    def one(f):
        t = tag + "-" + os.path.basename(f).split(".")[-2]
        r = V.validate_seq_trace(ctx, module, cfg, f, tag=t, timeout=timeout, heap=heap)
        if r[2].timed_out:
            r = V.validate_seq_trace(ctx, module, cfg, f, tag=t + "r", timeout=timeout * 2, heap=heap)
        return (f,) + r
    return V.parallel(one, files, n=n)


_re_set = re.compile(r'"([A-Za-z0-9_:]+)"')


def clause_names(expected_text):
    """{"A", "B"} printed by TLC -> sorted list of names."""
    return sorted(set(_re_set.findall(expected_text)))
