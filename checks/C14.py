"""C14 - a checkpoint restores exactly the state at its log index.

spec/ZCkpt.tla: one replicated log, a store's data = the index it has applied, checkpoints
(term, idx) |-> image, backup as Begin / Cut / Notify / Done, Restore on the same store and on
a store that fetched the directory, Purge below the recorded snapshot index.
(A) TLC exhausts MC_ZCkpt (CheckpointExact, CheckpointImmutable, PurgeKeepsRestorable,
    SnapRestorable) and refutes four spec mutants (one guard removed each).
(B) harness `ckptsim` executes TLC-generated behaviours (-simulate) and seeded random histories
    on real stores (rockredis over pebble and over the memory engine), logging content digests;
    spec/ZCkptTrace.tla (TLC) decides every restore, checkpoint dump, replay and purge.
"""
import json
import os
import random

import vcheck as V
import _ckpt

FILES = ["cklib.go", "ckptsim.go"]
MUTANTS = {                      # cfg -> invariants one of which TLC must report
    "MC_ZCkpt_nocut.cfg": ("CheckpointExact",),
    "MC_ZCkpt_purge.cfg": ("PurgeKeepsRestorable", "SnapRestorable"),
    "MC_ZCkpt_move.cfg": ("PurgeKeepsRestorable", "SnapRestorable"),
    "MC_ZCkpt_shared.cfg": ("CheckpointExact", "CheckpointImmutable"),
}


def drive(ctx, zr, name, eng, args, parts):
    d = ctx.sub("run-" + name)
    for attempt in (1, 2):
        rc, out = V.run(ctx, [zr, "ckptsim", "-eng", eng, "-o", os.path.join(d, "t"), "-parts", str(parts)] + args,
                        timeout=1500, env={"ZR_SCRATCH": d})
        summ = [json.loads(l[8:]) for l in out.splitlines() if l.startswith("SUMMARY ")]
        if rc == 0 and summ:
            files = [os.path.join(d, "t.%d.ndjson" % i) for i in range(parts)]
            return summ[0], [f for f in files if os.path.exists(f) and os.path.getsize(f) > 0]
        ctx.log("ckptsim %s did not complete (rc=%s, attempt %d): %s" % (name, rc, attempt, out[-300:]))
    ctx.skipped += 1
    return None, []


def validate(ctx, name, eng, files, strict, stats, samples, script):
    def one(f):
        return f, V.validate_seq_trace(ctx, "ZCkptTrace", "ZCkptTrace.cfg", f,
                                       tag=name + "-" + os.path.basename(f).split(".")[1], timeout=900)
    for f, (consumed, mism, res) in V.parallel(one, files, n=6):
        events = V.read_ndjson(f)
        mism = _ckpt.parse_mismatches(res.out)
        if res.out.count('"MISMATCH"') != len(mism):
            raise V.Inconclusive("a MISMATCH line of TLC could not be parsed (%s)" % f)
        if not consumed and not mism:
            if res.timed_out:
                ctx.log("TLC timed out on %s; skipped" % f)
                ctx.skipped += 1
                continue
            raise V.Inconclusive("trace validation of %s did not complete: %s" % (f, res.error or res.out[-400:]))
        stats["events"] += len(events)
        stats["segments"] += sum(1 for e in events if e.get("ev") == "reset")
        for k in ("restore", "ckdump", "apply", "fetch", "ls"):
            stats[k] += sum(1 for e in events if e.get("ev") == k)
        if len(samples) < 2 and len(events) > 60:
            pick = [e for e in events if e.get("ev") in ("bbegin", "bnotify", "bdone", "restore", "ckdump", "snap", "fetch")][:8]
            samples.append({"engine": eng, "stage": name, "excerpt": pick})
        for line, exp in mism:
            s, seg = V.segment_of(events, line)
            sig = _ckpt.classify(seg, exp)
            what = "%s (%s): %s line %d: observed %s; ZCkpt expects %s" % (
                name, eng, os.path.basename(f), line, json.dumps(seg[-1], sort_keys=True), exp)
            if not strict:
                print("INFO rocksdb-shim (not a verdict): " + what[:300])
                stats["info_mismatches"] += 1
                continue
            stats["mismatches"] += 1
            stats["classes"][sig["class"]] = stats["classes"].get(sig["class"], 0) + 1
            segf = os.path.join(os.path.dirname(f), "fail-%s-%d.ndjson" % (os.path.basename(f), line))
            V.write_ndjson(segf, seg)
            V.report_failure(ctx, sig, what, files=[segf], script=script)


def selftest(ctx, good, stats):
    """The binding is real: corrupt one logged field / drop one line of an accepted trace and
    require TLC to reject it."""
    ev = V.read_ndjson(good)
    cut = None
    for i, e in enumerate(ev):
        if e.get("ev") == "restore" and e.get("err") == "":
            cut = i
            break
    if cut is None:
        return
    # keep the trace short: the segment that holds the restore
    s, seg = V.segment_of(ev, cut + 1)
    end = cut + 1
    while end < len(ev) and ev[end].get("ev") != "reset":
        end += 1
    seg = ev[s:end]
    k = cut - s
    variants = {}
    a = [dict(e) for e in seg]
    a[k]["dump"] = "0000000000000000"
    variants["restore-dump-corrupted"] = a
    b = [dict(e) for e in seg]
    b[k]["raw"] = "1-0000000000000000"
    variants["restore-raw-corrupted"] = b
    done = [i for i, e in enumerate(seg[:k]) if e.get("ev") == "bdone"]
    if done:
        variants["bdone-line-dropped"] = seg[:done[-1]] + seg[done[-1] + 1:]
    ap = [i for i, e in enumerate(seg[:k]) if e.get("ev") == "apply"]
    if ap:
        variants["apply-line-dropped"] = seg[:ap[0]] + seg[ap[0] + 1:]
    variants["unchanged"] = seg
    d = ctx.sub("selftest")

    def one(item):
        nm, evs = item
        f = os.path.join(d, nm + ".ndjson")
        V.write_ndjson(f, evs)
        consumed, mism, res = V.validate_seq_trace(ctx, "ZCkptTrace", "ZCkptTrace.cfg", f, tag="self-" + nm, timeout=300)
        return nm, consumed, mism, res
    for nm, consumed, mism, res in V.parallel(one, list(variants.items()), n=5):
        if res.timed_out:
            ctx.skipped += 1
            continue
        rejected = bool(_ckpt.parse_mismatches(res.out)) or not consumed
        if nm == "unchanged":
            if rejected:
                raise V.Inconclusive("self-test: the uncorrupted segment is rejected")
        else:
            stats["selftest"][nm] = rejected
            if not rejected:
                raise V.Inconclusive("self-test: trace variant %s was accepted - the trace specification does not bind" % nm)


def run(ctx):
    try:
        _run(ctx)
    except V.Inconclusive as ex:
        if not ctx.violations:
            raise
        # a verdict on the real code exists already; a later stage that could not complete
        # must not turn it into "nothing could run"
        ctx.log("a later stage was inconclusive after a violation had been reported: %s" % ex)


def _run(ctx):
    rnd = random.Random(ctx.seed)
    zr = V.go_build(ctx, files=FILES)
    quick = ctx.quick()

    # ---------------------------------------------------------------- (A) the design
    model_runs = []
    jobs = [("MC_ZCkpt.cfg" if quick else "MC_ZCkpt_big.cfg", None)] + [(c, inv) for c, inv in MUTANTS.items()]

    def mc(job):
        cfg, inv = job
        if inv is None:
            got, r = _ckpt.model_run(ctx, V, "MC_ZCkpt", [cfg] if quick else [cfg, "MC_ZCkpt.cfg"], workers=10, timeout=1200)
            return (got or cfg, inv), r
        return job, V.tlc(ctx, "MC_ZCkpt", cfg, workers=2, timeout=300, heap="2g", tag="mc-" + cfg[:-4])
    main = None
    refuted = {}
    for (cfg, inv), r in V.parallel(mc, jobs, n=5):
        if inv is None:
            V.require_model_ok(ctx, r, cfg)
            main = r
            model_runs.append(dict(cfg=cfg, **r.summary()))
            ctx.log("model %s: %d distinct states, %d transitions, depth %d (%.0fs)" % (cfg, r.distinct, r.generated, r.depth, r.wall))
        else:
            if r.timed_out:
                ctx.skipped += 1
                continue
            if r.violated not in inv:
                raise V.Inconclusive("spec mutant %s is not refuted (%s) - the invariants do not bite" % (cfg, r.violated or r.error or "no error"))
            refuted[cfg] = r.violated
    if main is None or not main.ok:
        raise V.Inconclusive("the exhaustive model run did not complete")
    # behaviours for the driver
    simdir = ctx.sub("sim")
    nsim = 20 if quick else 120
    rs = V.tlc(ctx, "MC_ZCkpt", "MC_ZCkpt_sim.cfg", workers=1, timeout=300, tag="simulate",
               simulate="file=%s,num=%d" % (os.path.join(simdir, "b"), nsim), depth=60, seed=ctx.seed)
    nfiles = len([f for f in os.listdir(simdir) if f.startswith("b_")])
    if nfiles == 0:
        raise V.Inconclusive("tlc -simulate produced no behaviour: %s" % (rs.error or rs.out[-300:]))
    if rs.violated:
        raise V.Inconclusive("simulation of MC_ZCkpt_sim violates %s" % rs.violated)

    # ---------------------------------------------------------------- (B) the code
    seed = str(ctx.seed)
    sim = ["-sim", os.path.join(simdir, "b")]
    n = dict(general=16, mem=50, iso=8, sm=24) if quick else dict(general=150, mem=500, iso=40, sm=240)
    stages = [
        # name, engine, args, strict
        ("pebble-general", "pebble", sim + ["-random", str(n["general"]), "-len", "30", "-seed", seed], True),
        ("mem-general", "mem", sim + ["-random", str(n["mem"]), "-len", "36", "-seed", seed, "-rewindfetch", "-keep", str(2 + ctx.seed % 2)], True),
        # regression stage for ee3b302 (entries applied while the checkpoint is still being written): strict
        ("pebble-inflight", "pebble", ["-random", str(n["iso"]), "-len", "24", "-seed", str(ctx.seed + 40)], True),
        # snapshots through the state machine's own entry point (kvStoreSM.GetSnapshot, what the node's
        # apply loop calls) with the next entries applied at once
        ("mem-viasm", "mem", ["-viasm", "-random", str(n["sm"]), "-len", "30", "-seed", str(ctx.seed + 60)], True),
        ("pebble-viasm", "pebble", ["-viasm", "-random", str(max(4, n["sm"] // 3)), "-len", "30", "-seed", str(ctx.seed + 61)], True),
        # regression stage for 0f1a644: pebble opened with the configuration option disable_wal (strict)
        ("pebble-nowal", "pebble", ["-nowal", "-random", "8" if quick else "80", "-len", "24", "-seed", str(ctx.seed + 70)], True),
        # a consumer polls IsLocalBackupOK during backups of a large store and copies a checkpoint the moment it is
        # reported available: the copy must be the complete image (a checkpoint is never visible half-written)
        ("mem-availrace", "mem", ["-availrace", "1" if quick else "4", "-len", "25" if quick else "40", "-seed", str(ctx.seed + 75)], True),
        ("pebble-availrace", "pebble", ["-availrace", "1" if quick else "4", "-len", "25" if quick else "40", "-seed", str(ctx.seed + 76)], True),
        # large sst files with fixed-length values, restore - rewrite - restore (files of the same name,
        # size and tail but other content in the data directory and in a checkpoint)
        ("pebble-bigsst", "pebble", ["-bigsst", "1" if quick else "6", "-seed", seed], True),
        # isolate stage of the open finding ckpt-local-fetch-overwrites-hardlink; no entries in flight
        # here so that a failure cannot be attributed to anything but the re-used links
        ("pebble-isolate-rewindfetch", "pebble", ["-random", str(n["iso"]), "-len", "36", "-seed", seed, "-inflight=false", "-rewindfetch"], True),
    ]
    if not quick:
        stages.append(("pebble-general-keep3", "pebble", ["-random", "100", "-len", "40", "-seed", str(ctx.seed + 100), "-keep", "3"], True))
        # checkpoints fetched through an rsync daemon started by the driver (the path between hosts), with the
        # trigger of the local-copy finding allowed: rsync unlinks before it writes and deletes extraneous files
        stages.append(("pebble-rsync", "pebble", ["-rsync", "-rewindfetch", "-random", "20", "-len", "30", "-seed", str(ctx.seed + 90)], True))
        stages.append(("rocksdb-info", "rocksdb", ["-random", "40", "-len", "30", "-seed", seed], False))
    stats = dict(events=0, segments=0, restore=0, ckdump=0, apply=0, fetch=0, ls=0, mismatches=0, info_mismatches=0,
                 classes={}, selftest={}, runs=[])
    samples = []
    parts = 4 if quick else 8

    def do(stage):
        name, eng, args, strict = stage
        return stage, drive(ctx, zr, name, eng, args, parts)
    good = None
    for (name, eng, args, strict), (summ, files) in V.parallel(do, stages, n=len(stages)):
        if summ is None:
            if not strict:
                ctx.notes.append("rocksdb-shim informational run did not complete")
                ctx.skipped -= 1
            continue
        summ.pop("sample_dump", None)
        stats["runs"].append(dict(stage=name, **summ))
        try:
            validate(ctx, name, eng, files, strict, stats, samples, {"ckptsim": args, "engine": eng})
        except V.Inconclusive:
            if strict:
                raise
            ctx.notes.append("rocksdb-shim informational validation failed")
        if name == "mem-general" and files:
            good = files[0]
    if stats["segments"] == 0:
        raise V.Inconclusive("no trace segment could be validated")
    if good and not ctx.violations:
        selftest(ctx, good, stats)
    ctx.log("validated %d segments, %d events (%d restores, %d checkpoint dumps); mismatching segments: %d %s" % (
        stats["segments"], stats["events"], stats["restore"], stats["ckdump"], stats["mismatches"], stats["classes"]))

    cov = dict(
        states=main.distinct, transitions=main.generated,
        traces_validated_against_impl=stats["segments"],
        samples=samples or [{"note": "no sample"}],
        model_runs=model_runs, spec_mutants_refuted=refuted,
        simulated_behaviours_executed=nfiles,
        events_validated=stats["events"], entries_applied=stats["apply"], restores_checked=stats["restore"],
        checkpoint_dumps_checked=stats["ckdump"], fetches=stats["fetch"], listings=stats["ls"],
        mismatching_segments=stats["mismatches"], mismatch_classes=stats["classes"],
        rocksdb_shim_info_mismatches=stats["info_mismatches"],
        binding_selftest_rejected=stats["selftest"], driver_runs=stats["runs"],
        rule="every restore (same store / fetching store / repeated / after writes on the restored store), every "
             "read-only dump of every existing checkpoint, every replayed entry and every engine flush is compared by "
             "TLC (ZCkptTrace) with the digest the specification demands for that log index: the logical content of "
             "all types (kv, counters, hash, list, set, zset, expiry flags, HLL counts through the cache) and the raw "
             "engine records; directory listings are checked against Purge's rule",
        checker_cmd="tlc -config ZCkptTrace.cfg ZCkptTrace (ZR_TRACE=<part>)",
    )
    V.write_evidence(ctx, "model_checking", cov, assumptions=[
        "CutBeforeNotify: the engine fixes the checkpoint's view before the apply loop is released. The memory engine "
        "guarantees it by program order, pebble since ee3b302 (notify after Checkpoint() has returned); both are exercised with "
        "entries applied as soon as WaitReady returns. It remains an ASSUMPTION for RocksDB (20 ms timer in engine/rockeng.go), "
        "which is only available through a dependency shim and is informational here",
        "the engine's cut itself is not observable: the bnotify event is validated as BackupCut followed by BackupNotify",
        "checkpoints are fetched through the local-copy path of common.RunFileSync (cp -rp) and, in the thorough tier, through an rsync "
        "daemon started by the driver (rsync://127.0.0.1:<port>/mod/...); there the checkpoints of one store are taken in different "
        "wall-clock seconds, because rsync's quick check takes files of equal size and equal whole-second mtime for unchanged",
        "mem and pebble are the deciding engines; RocksDB is only available through a dependency shim and is informational",
        "stores are driven at the node.KVStore level exactly as the apply loop does (Backup / WaitReady / GetResult / "
        "SetLatestSnapIndex / Restore); the raft snapshot file and WAL marker are C06's subject",
        "expiry times lie 20 years after the log time of the entry, so no key expires during a run; expiry headers are "
        "compared through the raw record digest",
    ])
