"""Shared machinery of the raft checks C01, C02, C03.

(A) exhaustive TLC runs of spec/MC_ZRaft.tla (one cfg per family), spec mutants in the
    thorough tier;
(B) harness `raftsim` drives N real raft.Node instances (seeded phased nemesis, or a script
    derived from a TLC simulation of the same specification), records one event per
    specification action, and spec/ZRaftTrace.tla (TLC) decides every trace with all ZRaft
    invariants evaluated after every real step.
Nothing in here judges: a rejection is TLC's, this module only maps it to the property the
failing guard protects (DESIGN.md Appendix A) and computes a structural signature.
"""
import json
import os
import random
import re
import shutil

import vcheck as V

SPEC = os.path.join(V.VERIF, "spec")

INV_PROP = {
    "ElectionSafety": "C01", "LearnerNeverCampaignsOrVotes": "C01", "VoteOncePerTerm": "C01",
    "LogMatching": "C02", "CommittedNeverTruncated": "C02", "StateMachineSafety": "C02", "ReadStateSafety": "C02",
    "LeaderCompleteness": "C03", "DurableCommit": "C03", "RestartSound": "C03",
}
ELECTION_MSGS = {"MsgVote", "MsgVoteResp", "MsgPreVote", "MsgPreVoteResp", "MsgTimeoutNow", "MsgTransferLeader"}

# spec mutants: guard removed -> (family cfg, overrides, property of the guard, time-out).  Each was
# run to refutation on this box (design/detect-C0x.md); bounds are the ones under which TLC's BFS
# reaches the shortest counterexample.  Not listed because removing them is NOT a safety violation of
# the model (they are guards of the trace layer only: the code must still do what the design says):
# votereset (vote kept across terms), prevoterecord (pre-vote grant recorded as vote) - both only make a
# replica more reluctant; appliedcommit (Advance to commit) - skips entries, which no state invariant
# of the model sees (the hand-out guard of ZRaftTrace does); truncbelowcommit - unreachable unless
# another guard is broken; oldtermcommit (commit of old-term entries by counting) - the Figure-8 schedule
# needs three leaderships with an isolated replica and >= 8 messages in flight with 3 servers: the bounded
# instance with 6 messages completes (979 995 states) without reaching it (milestone probes: the
# "leader of term 4 holding [t2, t4] while another replica holds [t3]" state only exists beyond the message
# bound), with 8 messages the search passes 1.0 M distinct states at depth 15 in 10 min with the queue still
# growing.  The guard is enforced by the trace layer at every step (MaybeCommit/Mci in `recv MsgAppResp` and
# `applyconf`): the code mutant commit-oldterm is rejected in 11 of 20 quick traces.
_Q = lambda f: QUICK_OVERRIDES[f]
SPEC_MUTANTS = [
    ("voteonce", "MC_ZRaft_Election_00.cfg", "Q", "C01", 300),
    ("quorum", "MC_ZRaft_Election_00.cfg", "Q", "C01", 300),
    ("uptodate", "MC_ZRaft_Election_00.cfg", {"MaxDup": "0", "MaxProp": "1", "MaxMsgs": "4"}, "C02", 300),
    ("prevotewins", "MC_ZRaft_Election_10.cfg", "Q", "C01", 300),
    ("novoteload", "MC_ZRaft_Crash.cfg", {}, "C01", 600),
    ("sendbeforepersist", "MC_ZRaft_Crash.cfg", "Q", "C03", 300),
    ("learnerpromotable", "MC_ZRaft_Conf.cfg", "Q", "C01", 300),
    ("learnervote", "MC_ZRaft_Conf.cfg", {}, "C01", 600),
    ("hbcommit", "MC_ZRaft_Log.cfg", {"MaxElect": "2", "MaxProp": "1", "MaxLog": "2", "FHeartbeat": "TRUE", "FSnap": "FALSE"}, "C02", 500),
    ("prevterm", "MC_ZRaft_Log.cfg", {"MaxElect": "3", "MaxTerm": "4", "MaxLog": "2", "MaxProp": "0", "MaxMsgs": "6", "MaxDup": "0",
                                      "MaxAppEnts": "8", "FResend": "FALSE", "FHeartbeat": "FALSE", "FSnap": "FALSE"}, "C02", 900),
    ("readnoquorum", "MC_ZRaft_Read.cfg", {}, "C02", 600),       # needs MaxMsgs 4 (cfg as is): 228 190 states
    ("readnotermcheck", "MC_ZRaft_Read.cfg", {}, "C02", 600),    # 582 167 states
    ("hupconf", "MC_ZRaft_ConfShrink.cfg", {}, "C01", 300),
    ("pendingconf", "MC_ZRaft_ConfShrink.cfg", {}, "C01", 300),
]


def build(ctx):
    return V.go_build(ctx, files=["raftsim.go"])


# ------------------------------------------------------------------ (A) model

def family(ctx, cfg, workers=4, timeout=300, overrides=None, tag=None, coverage=False):
    """Run one exhaustive family; overrides = {constant: 'value'} written into a scratch cfg."""
    src = os.path.join(SPEC, cfg)
    text = open(src).read()
    for k, v in (overrides or {}).items():
        text, n = re.subn(r"(?m)^  %s (=|<-) .*$" % re.escape(k), "  %s = %s" % (k, v), text)
        if n != 1:
            raise V.Inconclusive("cfg %s has no constant %s" % (cfg, k))
    tag = tag or os.path.splitext(cfg)[0]
    tmp = os.path.join(ctx.sub("cfg"), tag + ".cfg")
    open(tmp, "w").write(text)
    # heap 4g: the fingerprint set and the queue are off-heap / on disk; with the default cap (8g) nine
    # concurrent family JVMs of three checks got each other OOM-killed on a 62 GB machine
    res = V.tlc(ctx, "MC_ZRaft", tag + ".cfg", workers=workers, timeout=timeout, tag=tag,
                files={tmp: tag + ".cfg"}, coverage=coverage, heap="4g")
    return res


def run_families(ctx, fams, workers, timeout, par=3, suffix=""):
    """fams: list of (cfg, overrides).  Runs them `par` at a time; each must pass (model theorem)."""
    def one(f):
        cfg, ov = f
        return cfg, family(ctx, cfg, workers=workers, timeout=timeout, overrides=ov,
                           tag=os.path.splitext(cfg)[0] + suffix)
    out = []
    for cfg, res in V.parallel(one, fams, n=par):
        cfg = cfg + suffix
        V.require_model_ok(ctx, res, cfg)
        ctx.log("model %s: %d distinct / %d generated states, depth %d, %.0fs%s" % (
            cfg, res.distinct, res.generated, res.depth, res.wall, " (TIMED OUT)" if res.timed_out else ""))
        out.append(dict(cfg=cfg, **res.summary()))
    return out


def spec_mutants(ctx, props, workers=6, timeout=None):
    """Each mutant removes one guard; TLC must refute an invariant (the invariants bite)."""
    todo = [m for m in SPEC_MUTANTS if m[3] in props]

    def one(m):
        name, cfg, ov, prop, to = m
        ov = dict(QUICK_OVERRIDES[cfg] if ov == "Q" else ov)
        ov["Mut"] = '"%s"' % name
        res = family(ctx, cfg, workers=workers, timeout=timeout or to, overrides=ov, tag="mut-" + name)
        return dict(mutant=name, cfg=cfg, guard_of=prop, refuted_by=res.violated, timed_out=res.timed_out,
                    states=res.distinct, wall_s=round(res.wall, 1), completed=bool(res.ok),
                    error=(res.error or "")[:300])
    out = V.parallel(one, todo, n=2)
    for r in out:
        how = r["refuted_by"] or ("NOT refuted" + (" (timeout)" if r["timed_out"] else
                                                   " (instance completed)" if r["completed"] else
                                                   " (TLC did not finish: %s)" % (r["error"] or "no summary")))
        ctx.log("spec mutant %-18s %-26s -> %s" % (r["mutant"], r["cfg"], how))
    return out


# ------------------------------------------------------------------ (B) conformance

def gen_conf(rnd, prop, k, quick):
    """One driver configuration.  Every property's corpus covers groups of 1..5, both feature
    flags, all message sizes and storages; the emphasis differs."""
    n = rnd.choice([2, 3, 3, 3, 4, 5, 5])
    nv = rnd.choice([x for x in (2, 3, 3, 4, 5) if x <= n])
    c = dict(n=n, voters=list(range(1, nv + 1)), learners=[], prevote=rnd.random() < 0.5, cq=rnd.random() < 0.5,
             maxsz=rnd.choice([0, 30, 120, 1 << 20]), maxcsz=rnd.choice([0, 1, 1, 120]),
             storage=rnd.choice(["memory", "memory", "rocks-mem", "rocks-pebble"]),
             profile=rnd.choice(["mixed", "mixed", "noconf"]), steps=900 if quick else 1500)
    if nv < n and rnd.random() < 0.6:
        c["learners"] = [nv + 1]
    if k % 4 == 0:                      # production settings
        c["prevote"], c["cq"] = True, True
    if k % 4 == 1:
        c["prevote"], c["cq"] = False, False
    if prop == "C01":
        if k % 3 == 0 and n >= 3:
            c["learners"] = [nv + 1] if nv < n else []
            c["profile"] = "mixed"
    elif prop == "C02":
        c["maxsz"] = rnd.choice([0, 0, 30, 120, 1 << 20])
        c["maxcsz"] = rnd.choice([1, 120, 120, 0])
    elif prop == "C03":
        c["storage"] = rnd.choice(["memory", "rocks-mem", "rocks-pebble"])
    if prop in ("C02", "C03") and k % 3 == 2:
        # apply-stall profile: directed scenario scenarioStallCatchup (three times), then the nemesis
        c.update(profile="stall", n=3, voters=[1, 2, 3], learners=[], maxcsz=120, maxsz=rnd.choice([0, 120, 120]),
                 storage=["rocks-pebble", "memory", "rocks-mem"][(k // 3) % 3], steps=400)
    return c


def conf_args(c, seed, out):
    a = ["raftsim", "-seed", str(seed), "-steps", str(c["steps"]), "-o", out, "-n", str(c["n"]),
         "-voters", ",".join(map(str, c["voters"])), "-learners", ",".join(map(str, c["learners"])),
         "-maxsz", str(c["maxsz"]), "-maxcsz", str(c["maxcsz"]), "-storage", c["storage"], "-profile", c["profile"]]
    if c["prevote"]:
        a.append("-prevote")
    if c["cq"]:
        a.append("-cq")
    if c.get("allow1"):
        a.append("-allow1")
    if c.get("script"):
        a += ["-script", c["script"]]
    if c.get("autopipe"):
        a.append("-autopipe")
    if c.get("noavoid"):
        a.append("-noavoid")
    if c.get("nosettle"):
        a.append("-nosettle")
    return a


def drive(ctx, zr, c, seed, tag):
    d = ctx.sub("run-" + tag)
    out = os.path.join(d, "trace.ndjson")
    rc, txt = V.run(ctx, [zr] + conf_args(c, seed, out), timeout=300, env={"ZR_SCRATCH": d})
    summ = [json.loads(l[8:]) for l in txt.splitlines() if l.startswith("SUMMARY ")]
    if rc != 0 or not summ or not os.path.exists(out):
        return None, None, txt[-400:]
    return out, summ[0], ""


_re_hwm = re.compile(r'<<"HWM", (\d+), (\d+)>>')


def trace_env(trace):
    c = json.loads(open(trace).readline())["cfg"]
    return {"ZR_TRACE": trace, "ZR_N": str(c["n"]), "ZR_VOTERS": "".join(map(str, c["voters"])),
            "ZR_PREVOTE": "1" if c["prevote"] else "0", "ZR_CQ": "1" if c["cq"] else "0"}


def validate(ctx, trace, tag, timeout=240, cfg="ZRaftTrace.cfg"):
    """Returns dict(accepted, line, invariant, res)."""
    res = V.tlc(ctx, "ZRaftTrace", cfg, workers=1, timeout=timeout, env=trace_env(trace),
                deque=True, heap="2g", tag="tv-" + tag)
    hw = ln = None
    for p in res.prints:
        m = _re_hwm.match(p)
        if m:
            hw, ln = int(m.group(1)), int(m.group(2))
    if hw is None:
        m = None
        for m in _re_hwm.finditer(res.out):
            pass
        if m:
            hw, ln = int(m.group(1)), int(m.group(2))
    if res.violated:
        # printing the counterexample re-evaluates the initial predicate (register reset): the
        # position is the `l` of the last printed state
        ls = re.findall(r"(?m)^/\\ l = (\d+)", res.out)
        if ls:
            hw = int(ls[-1])
    accepted = bool(res.ok and hw is not None and hw == ln + 1 and not res.violated)
    return dict(accepted=accepted, line=hw, length=ln, invariant=res.violated, res=res)


def attribute(ev, inv, fallback):
    """Guard table (DESIGN.md Appendix A): the properties the failing invariant / guard protects.
    A guard that protects several properties is attributed to the running check's property if
    that is one of them, otherwise to the first one."""
    def pick(props):
        return fallback if fallback in props else props[0]
    if inv in INV_PROP:
        if inv == "LeaderCompleteness":
            return pick(["C03", "C02"])
        return INV_PROP[inv]
    if ev is None:
        return fallback
    k = ev.get("ev")
    mt = ev.get("m", {}).get("t")
    if k == "recv":
        if mt in ("MsgVote", "MsgPreVote"):
            return pick(["C01", "C02", "C03"])       # vote-once / lease / learner; up-to-date check
        if mt in ELECTION_MSGS:
            return "C01"
        return pick(["C02", "C03"])                  # append / commit / snapshot guards
    if k in ("tick", "campaign", "transfer", "applyconf", "proposeconf", "start"):
        return "C01"
    if k in ("propose", "readindex"):
        return "C02"
    if k in ("ready", "advance"):
        return pick(["C02", "C03"])                  # hand-out cursor; what must be persisted
    if k in ("persist", "send", "restart", "crash"):
        return pick(["C03", "C01"])                  # durable term/vote/log/commit
    if k in ("snapshot", "compact", "unsettled", "settled"):
        return "C03"
    if k == "panic":
        s = ev.get("s", "")
        if s.startswith("restart") or s.startswith("persist"):
            return pick(["C03", "C01"])
        if s.startswith("recv") or s.startswith("advance") or s.startswith("poll"):
            return pick(["C02", "C03"])
        return fallback
    return fallback


def signature(events, v, c):
    """Structural signature of a rejection (for known-findings matching)."""
    line = v["line"]
    ev = events[line - 1] if line and 1 <= line <= len(events) else None
    if v["invariant"]:
        # the invariant is violated in the state AFTER the last consumed line
        ev = events[line - 2] if line and line >= 2 and line - 2 < len(events) else ev
    sig = {"kind": "invariant" if v["invariant"] else "step", "invariant": v["invariant"] or "",
           "event": ev.get("ev") if ev else "", "msg": (ev or {}).get("m", {}).get("t", ""),
           "single_voter": False}
    if ev:
        voters = ev.get("post", {}).get("voters") or []
        sig["single_voter"] = len(voters) == 1
        if ev.get("ev") == "ready" and (ev.get("rd", {}).get("reads") or []):
            sig["read_state_released"] = True
            sig["learner_present"] = bool(ev.get("post", {}).get("learners"))
        if ev.get("ev") == "panic":
            sig["panic"] = re.sub(r"[0-9]+", "N", ev.get("s", ""))[:80]
    return sig, ev


def slim(e):
    d = {k: e[k] for k in ("ev", "n") if k in e}
    if e.get("m", {}).get("t") not in (None, "none"):
        d["m"] = {k: v for k, v in e["m"].items() if v not in (0, False, [], None) and k != "snap"}
    if e.get("out"):
        d["out"] = [{k: v for k, v in o.items() if v not in (0, False, []) and k != "snap"} for o in e["out"]][:4]
    if e.get("rd", {}).get("has"):
        d["rd"] = {k: v for k, v in e["rd"].items() if v not in (0, False, []) and k not in ("snap", "msgs")}
    p = e.get("post", {})
    d["post"] = {k: p.get(k) for k in ("term", "vote", "role", "lead", "commit", "applied", "last", "voters", "learners")}
    return d


ANTECEDENTS = {
    "C01": ["transfers", "timeoutnow_campaigns", "forced_votes_granted_while_leader_known", "transfer_aborted_by_timeout", "campaigns", "contested_elections", "elections_with_learner_present", "votes_granted",
            "votes_after_restart", "vote_requests_at_learner", "leaders_elected", "transfers",
            "conf_proposals", "conf_applied", "campaigns_with_unapplied_entries", "phases_isolate_leader"],
    "C02": ["read_requests", "read_states_handed_out", "divergent_suffix_truncations", "snapshot_installs", "snapshot_restores", "paginated_handouts",
            "handouts", "entries_handed_out", "leaders_elected", "proposals", "duplicated_deliveries", "msgsnap_sent"],
    "C03": ["crashes", "restarts", "crash_after_commit_idle", "crash_after_commit_taken", "crash_after_commit_ents",
            "crash_after_commit_persisted", "crash_after_commit_earlysent", "crash_after_commit_sent",
            "unsynced_hardstate_lost", "settled", "unsettled", "settle_rounds", "snapshots_taken", "compactions"],
}


def conformance(ctx, zr, prop, confs, stats, samples, par=8, expect_sig=None):
    """Drive + validate every configuration in confs (list of (tag, conf, seed)).
    expect_sig: for isolate stages - the failure MUST carry this known finding's signature."""
    def one(item):
        tag, c, seed = item
        trace, summ, err = drive(ctx, zr, c, seed, tag)
        if trace is None:
            trace, summ, err = drive(ctx, zr, c, seed, tag)        # retry once
        if trace is None:
            return item, None, None, err
        v = validate(ctx, trace, tag, cfg=c.get("tracecfg", "ZRaftTrace.cfg"))
        if not v["accepted"] and v["res"].timed_out:
            v = validate(ctx, trace, tag, timeout=600, cfg=c.get("tracecfg", "ZRaftTrace.cfg"))
        return item, trace, summ, v
    for item, trace, summ, v in V.parallel(one, confs, n=par):
        tag, c, seed = item
        if trace is None:
            ctx.log("raftsim %s did not complete: %s" % (tag, v))
            ctx.skipped += 1
            continue
        res = v["res"]
        if not v["accepted"] and (res.timed_out or (v["line"] is None and not res.violated)):
            if res.timed_out:
                ctx.log("TLC timed out on %s; skipped" % tag)
                ctx.skipped += 1
                continue
            raise V.Inconclusive("trace validation of %s did not run: %s" % (tag, (res.error or res.out[-500:])))
        stats["traces"] += 1
        stats["events"] += summ["events"]
        stats["scripted_ops"] += summ.get("scripted_ops", 0)
        stats["diverged_ops"] += summ.get("diverged", 0)
        for k, n in summ["counters"].items():
            stats["counters"][k] = stats["counters"].get(k, 0) + n
        if summ["events"] >= 100 and summ["counters"].get("leaders_elected", 0) >= 1:
            stats["nontrivial"] = stats.get("nontrivial", 0) + 1
        key = "n%d/v%d/l%d/pv%d/cq%d/sz%d/%s" % (c["n"], len(c["voters"]), len(c["learners"]), c["prevote"], c["cq"],
                                               c["maxsz"], c["storage"])
        stats["configs"].add(key)
        if v["accepted"]:
            stats["accepted"] += 1
            if len(samples) < 2 and summ["events"] > 60:
                evs = V.read_ndjson(trace)
                samples.append({"trace": tag, "excerpt": [slim(e) for e in evs[40:46]]})
            if expect_sig is not None:
                stats["isolate_passed"] = stats.get("isolate_passed", 0) + 1
            continue
        events = V.read_ndjson(trace)
        sig, ev = signature(events, v, c)
        p = attribute(ev, v["invariant"], prop)
        what = "%s (seed %d, %s): trace line %s of %s %s; event %s" % (
            tag, seed, json.dumps({k: c[k] for k in c if k not in ("script", "tracecfg")}, separators=(",", ":")), v["line"], v["length"],
            ("violates invariant " + v["invariant"]) if v["invariant"] else "is not a step of ZRaft's strict layer",
            json.dumps(slim(ev)) if ev else "?")
        stats["rejected"] += 1
        old = ctx.prop
        ctx.prop = p
        try:
            new = V.report_failure(ctx, sig, what, files=[trace, os.path.join(res.dir, "tlc.out")],
                                   script={"raftsim": conf_args(c, seed, "trace.ndjson")})
        finally:
            ctx.prop = old
        if not new:
            stats["known"] = stats.get("known", 0) + 1


def new_stats():
    return dict(traces=0, accepted=0, rejected=0, events=0, scripted_ops=0, diverged_ops=0, counters={}, configs=set())


# ------------------------------------------------------------------ TLC-generated schedules

_re_lab = re.compile(r"<(\w+)\(([^)]*)\) line")


def tlc_scripts(ctx, cfg, num, depth, seed, overrides=None):
    """tlc -simulate of ZRaft: behaviours -> driver scripts (only action labels are parsed)."""
    src = os.path.join(SPEC, cfg)
    text = open(src).read()
    for k, v in (overrides or {}).items():
        text, n = re.subn(r"(?m)^  %s (=|<-) .*$" % re.escape(k), "  %s = %s" % (k, v), text)
    tag = "sim-" + os.path.splitext(cfg)[0]
    tmp = os.path.join(ctx.sub("cfg"), tag + ".cfg")
    open(tmp, "w").write(text)
    d = ctx.sub("simout-" + tag)
    res = V.tlc(ctx, "MC_ZRaft", tag + ".cfg", workers=2, timeout=120, tag=tag, files={tmp: tag + ".cfg"},
                simulate="file=%s/b,num=%d" % (d, num), depth=depth, seed=seed)
    scripts = []
    for f in sorted(os.listdir(d)):
        ops = []
        for line in open(os.path.join(d, f)):
            m = _re_lab.search(line)
            if not m:
                continue
            op = label_to_op(m.group(1), [a.strip().strip('"') for a in m.group(2).split(",") if a.strip()])
            if op:
                ops.append(op)
        if len(ops) >= 5:
            p = os.path.join(d, f + ".script")
            V.write_ndjson(p, ops)
            scripts.append(p)
    return scripts, res


def label_to_op(name, a):
    def i(k):
        try:
            return int(a[k])
        except (IndexError, ValueError):
            return 0
    simple = {"Timeout": "campaign", "StepDown": "tick", "ClientReq": "propose", "TakeSnap": "snapshot",
              "DoCrash": "crash", "DoRestart": "restart", "Take": "ready", "TakeNone": "ready", "PersistAll": "persist",
              "PersistEntsOnly": "persist", "PersistHSAfter": "persist", "DoSend": "send", "DoAdvance": "advance",
              "DoApplyConf": "applyconf"}
    if name in simple:
        op = {"op": simple[name], "n": i(0)}
        if name == "PersistEntsOnly":
            op["k"] = "ents"
        return op
    if name in ("Xfer",):
        return {"op": "transfer", "n": i(0), "v": i(1)}
    if name in ("DeliverL", "DupDeliverL"):
        return {"op": "deliver" if name == "DeliverL" else "dupdeliver", "n": i(0), "from": i(1), "t": a[2] if len(a) > 2 else ""}
    if name == "ConfReqL":
        return {"op": "proposeconf", "n": i(0), "k": a[1] if len(a) > 1 else "", "v": i(2)}
    return None


# ------------------------------------------------------------------ the plan shared by C01-C03

FAMILIES = {
    "C01": ["MC_ZRaft_Election_00.cfg", "MC_ZRaft_Election_01.cfg", "MC_ZRaft_Election_10.cfg",
            "MC_ZRaft_Election_11.cfg", "MC_ZRaft_Conf.cfg", "MC_ZRaft_ConfShrink.cfg"],
    "C02": ["MC_ZRaft_Log.cfg", "MC_ZRaft_Election_00.cfg", "MC_ZRaft_Read.cfg"],
    "C03": ["MC_ZRaft_Crash.cfg", "MC_ZRaft_Log.cfg"],
}
# quick tier: smaller constants per family (measured: every run below finishes in < 90 s at 3 workers)
QUICK_OVERRIDES = {
    # measured at 8 workers on this box (load ~100): 13-45 s each, 24k-101k distinct states
    "MC_ZRaft_Election_00.cfg": {"MaxDup": "0", "MaxProp": "0", "MaxMsgs": "4"},
    "MC_ZRaft_Election_01.cfg": {"MaxDup": "0", "MaxProp": "1", "MaxMsgs": "3"},
    "MC_ZRaft_Election_10.cfg": {"MaxDup": "0", "MaxProp": "0", "MaxMsgs": "4"},
    "MC_ZRaft_Election_11.cfg": {"MaxDup": "0", "MaxProp": "0", "MaxMsgs": "3"},
    "MC_ZRaft_Log.cfg": {"MaxElect": "2", "MaxProp": "1", "MaxLog": "2", "FHeartbeat": "FALSE", "FSnap": "FALSE"},
    "MC_ZRaft_Crash.cfg": {"MaxElect": "1", "MaxProp": "0", "MaxCrash": "1", "FPartial": "FALSE", "MaxMsgs": "2", "MaxLog": "1"},
    "MC_ZRaft_Read.cfg": {"MaxMsgs": "3", "MaxProp": "0"},   # (with MaxProp 1: 114 082 states, 51 s at 6 workers)
    "MC_ZRaft_Conf.cfg": {"Collapsed": "TRUE", "MaxMsgs": "3"},
    "MC_ZRaft_ConfShrink.cfg": {"Collapsed": "TRUE", "MaxMsgs": "3"},
}
# thorough tier: the quick-bounded instance (must complete) AND the cfg file as it is (may hit its time-out)
THOROUGH_OVERRIDES = {}

ASSUMPTIONS = [
    "timers are not modelled: an election timeout, a heartbeat, a check-quorum step-down or a transfer abort may "
    "happen at any tick; the check-quorum lease is 'may ignore a vote request while a leader is known'",
    "flow control (Progress state, inflights, pause, which append a leader sends when) is outside the strict layer: "
    "any truthful leader message is accepted",
    "the driver steps one input per StepNode call so that every step can be logged; proposals are only issued / "
    "delivered at replicas that know a leader (otherwise raft.node queues them and steps them with a later input)",
    "crash = the raft.Node is dropped and the storage object keeps exactly what the driver had persisted; a hard state "
    "written by a Ready whose MustSync was false may be lost; a Ready that carries a snapshot is persisted atomically "
    "(node/raft.go makes snapshot + hard state effectively atomic through wal.ValidSnapshotEntries); restart uses "
    "Applied = 0 after dropping everything at or below the storage snapshot (what startRaft/replayWAL do); the variant "
    "'restart with the true applied index' is not exercised",
    "replica ids are not reused: a replica whose removal was proposed is never added again",
    "the leader is never asked to remove itself (the driver stops a replica when it applies its own removal, as the "
    "data node does; a leader that stops before the others learn the commit index can leave a group that cannot elect - "
    "observed once with a lagging promoted learner, liveness only)",
    "single-voter configurations are kept out of the general corpus (known finding "
    "raft-single-voter-commit-before-persist) and exercised by a dedicated isolate stage",
    "'eventually applied by every live replica' is decided in logical time: after heal, at most 50 election timeouts of "
    "fair rounds (tick, deliver everything, complete every Ready, apply everything), then AllLiveAppliedAll on the "
    "final state for the members of the leader's configuration",
    "exhaustive TLC runs cover 3 replicas with the per-family bounds listed under model_runs; the canonical leader of "
    "the model sends one append per member after each change, the trace specification accepts any truthful message",
]


def run_check(ctx, prop):
    rnd = random.Random(ctx.seed * 7919 + {"C01": 1, "C02": 2, "C03": 3}[prop])
    zr = build(ctx)
    quick = ctx.quick()
    stats = new_stats()
    samples = []
    fams = [(f, QUICK_OVERRIDES.get(f, {})) for f in FAMILIES[prop]]
    model = {}

    def do_model():
        if os.environ.get("ZR_SKIP_MODEL"):      # development aid for detection tables: (A) does not depend on /repo
            model["runs"] = []
            return
        model["runs"] = run_families(ctx, fams, workers=4, timeout=600, par=3)     # 60-90 s on a quiet machine; 200 s seen at load 130
        late = [r["cfg"] for r in model["runs"] if not r["ok"]]
        if late:
            # the bounded families are sized to complete in 60-90 s; one that does not (busy machine) means the
            # claimed level (model checking) is not supported by this run: inconclusive, never a weaker level
            model["late"] = late
        if not quick:
            # the cfg files as they are; for C01 the three that add something over the bounded runs
            # (pre-vote + check-quorum with duplication, and the two membership families with the
            # explicit Ready pipeline = apply lag), so that the stage is one batch of <= 10 min
            full = [(f, {}) for f in FAMILIES[prop]
                    if prop != "C01" or f in ("MC_ZRaft_Election_11.cfg", "MC_ZRaft_Conf.cfg", "MC_ZRaft_ConfShrink.cfg")]
            model["runs"] += run_families(ctx, full, workers=5, timeout=600, par=3, suffix="-full")

    def do_traces():
        ntr = 14 if quick else 60
        confs = [("t%02d" % k, gen_conf(rnd, prop, k, quick), ctx.seed * 1000 + k) for k in range(ntr)]
        conformance(ctx, zr, prop, confs, stats, samples, par=6 if quick else 8)
        # TLC-generated behaviours steer the driver, the seeded scheduler finishes the run
        try:
            cfgsim = {"C01": "MC_ZRaft_Election_11.cfg", "C02": "MC_ZRaft_Log.cfg", "C03": "MC_ZRaft_Crash.cfg"}[prop]
            scripts, _ = tlc_scripts(ctx, cfgsim, 4 if quick else 20, 60, ctx.seed,
                                     overrides={"MaxTerm": "6", "MaxLog": "6", "MaxElect": "6", "MaxMsgs": "12",
                                                "MaxProp": "4", "MaxCrash": "3"})
            sc = []
            for k, sp in enumerate(scripts):
                c = dict(n=3, voters=[1, 2, 3], learners=[], prevote=cfgsim.endswith("11.cfg"), cq=cfgsim.endswith("11.cfg"),
                         maxsz=0 if prop == "C02" else 1 << 20, maxcsz=0, storage="memory", profile="noconf",
                         steps=150, script=sp, autopipe=(prop != "C03"))
                sc.append(("s%02d" % k, c, ctx.seed * 1000 + 500 + k))
            conformance(ctx, zr, prop, sc, stats, samples, par=6)
            stats["tlc_scripts"] = len(sc)
        except V.Inconclusive as ex:
            ctx.notes.append("TLC-generated schedules skipped: %s" % ex)
            ctx.skipped += 1
        # isolate stage of the recorded finding: a 1-replica group on purpose
        iso = dict(n=1, voters=[1], learners=[], prevote=True, cq=True, maxsz=1 << 20, maxcsz=0, storage="memory",
                   profile="noconf", steps=120)
        before = stats["rejected"]
        conformance(ctx, zr, prop, [("single-voter-isolate", iso, ctx.seed)], stats, samples, par=1, expect_sig=True)
        stats["isolate_rejected"] = stats["rejected"] - before
        if prop in ("C02", "C03"):
            # formerly the isolate stage of finding rocks-applysnapshot-stale-tail (fixed in 4d5b9c4):
            # the schedule that exhibited it is now an ordinary strict stage
            st2 = dict(n=4, voters=[1, 2, 3], learners=[], prevote=False, cq=False, maxsz=0, maxcsz=0,
                       storage="rocks-mem", profile="noconf", steps=1200)
            conformance(ctx, zr, prop, [("rocks-snapshot-over-longer-log", st2, 3006)], stats, samples, par=1)
        if prop == "C02":
            # formerly the isolate stage of finding raft-readindex-counts-learner-acks (fixed): a deposed leader
            # partitioned with its learner is asked for a read; the learner's heartbeat ack must not release it
            isr = dict(n=4, voters=[1, 2, 3], learners=[4], prevote=False, cq=False, maxsz=1 << 20, maxcsz=0,
                       storage="memory", profile="readlearner", steps=0)
            conformance(ctx, zr, prop, [("stale-read-via-learner", isr, ctx.seed)], stats, samples, par=1)
        if prop in ("C02", "C03"):
            # snapshot over a divergent tail (scenarioSnapshotOverDivergentTail, three variants per run):
            # 5 voters, three leaderships, the returning replica's log is longer than the snapshot with a
            # higher-term divergent tail / of equal length / shorter.  The restore rule of ZRaft
            # (HandleSnapshot): ignore at or below commit, fast-forward the commit index ONLY on
            # matchTerm(index, term), otherwise replace the log.
            sd = [("snapshot-divergent-tail-%d" % k,
                   dict(n=5, voters=[1, 2, 3, 4, 5], learners=[], prevote=(k % 2 == 1), cq=False, maxsz=1 << 20, maxcsz=1,
                        storage=["memory", "rocks-pebble", "rocks-mem"][k % 3], profile="snapdiv", steps=150),
                   ctx.seed * 1000 + 800 + k) for k in range(2 if quick else 6)]
            conformance(ctx, zr, prop, sd, stats, samples, par=2 if quick else 6)
        if prop in ("C01", "C03"):
            # grow from one voter + old snapshot + restart (scenarioGrowOne).  The group is a single-voter
            # group for a while, so the one invariant of the open finding raft-single-voter-commit-before-
            # persist (DurableCommit) is not evaluated in this stage (ZRaftTrace_growone.cfg); every
            # guard and every other invariant stays strict.
            g = [("grow-one-%d" % k, dict(n=3, voters=[1], learners=[], prevote=(k % 2 == 1), cq=(k % 2 == 1),
                                         maxsz=1 << 20, maxcsz=1, storage=["memory", "rocks-pebble"][k % 2],
                                         profile="growone", steps=250, allow1=True, tracecfg="ZRaftTrace_growone.cfg"),
                  ctx.seed * 1000 + 900 + k) for k in range(2 if quick else 8)]
            conformance(ctx, zr, prop, g, stats, samples, par=2 if quick else 6)
        if prop == "C01":
            # a vote request at a replica that is a learner in its own applied configuration (scenarioLearnerVote,
            # once per named learner, up front: promotion applied by the voters while the learner is cut off,
            # campaign, delivery).  Rule (HandleVoteReq): a learner answers nothing.  In the random corpus the
            # scenario depends on the nemesis' dice (it got lost at seed 1 when reads were added to every run).
            lv0 = [("learner-vote-%d" % k, dict(n=5, voters=[1, 2, 3], learners=[4, 5], prevote=(k % 2 == 1), cq=(k % 4 >= 2),
                                               maxsz=1 << 20, maxcsz=0, storage=["memory", "rocks-mem"][(k // 2) % 2],
                                               profile="learnervote", steps=100),
                    ctx.seed * 1000 + 970 + k) for k in range(2 if quick else 6)]
            conformance(ctx, zr, prop, lv0, stats, samples, par=2 if quick else 6)
        if prop in ("C01", "C03"):
            # power loss right after a vote was answered, then a second candidate of the same term
            # (scenarioLostVote, both variants per run: vote written with / without a term change).  The
            # trace rule follows the sync decision the real node made (Ready.MustSync as logged); a
            # hard state write that should have been synced and was not shows by what the restarted
            # voter answers next (VoteOncePerTerm, ElectionSafety).
            lv = [("lost-vote-%d" % k, dict(n=5, voters=[1, 2, 3, 4, 5], learners=[], prevote=False, cq=False,
                                            maxsz=1 << 20, maxcsz=0, storage=["memory", "rocks-mem"][k % 2],
                                            profile="lostvote", steps=100),
                   ctx.seed * 1000 + 950 + k) for k in range(2 if quick else 6)]
            conformance(ctx, zr, prop, lv, stats, samples, par=2 if quick else 6)
        if prop == "C03":
            # formerly the isolate stage of finding raft-restarted-learner-rejects-snapshot (fixed in
            # 81aef80): a learner that restarts before its storage names it must catch up by snapshot
            st3 = dict(n=4, voters=[1, 2, 3], learners=[4], prevote=False, cq=True, maxsz=0, maxcsz=1,
                       storage="memory", profile="mixed", steps=600)
            conformance(ctx, zr, prop, [("restarted-learner-catches-up", st3, 8025)], stats, samples, par=1)

    for _ in V.parallel(lambda f: f(), [do_model, do_traces], n=2):
        pass
    if model.get("late") and not ctx.violations:      # a violation found on the code side is still reported (exit 1)
        raise V.Inconclusive("exhaustive instance(s) %s did not complete within the time-out (busy machine?); "
                             "the model-checking level is not supported by this run" % ", ".join(model["late"]))
    extra = {}
    if not quick:
        extra["spec_mutants"] = spec_mutants(ctx, {prop})
        extra["binding_selftest"] = binding_selftest(ctx, zr, prop)
    if stats["traces"] == 0:
        raise V.Inconclusive("no trace could be validated")
    runs = model.get("runs", [])
    done = [r for r in runs if r["ok"]]
    c = stats["counters"]
    cov = dict(
        states=sum(r["distinct"] for r in done), transitions=sum(r["generated"] for r in done),
        traces_validated_against_impl=stats["traces"], traces_accepted=stats["accepted"],
        traces_rejected=stats["rejected"], events_validated=stats["events"],
        samples=samples or [{"note": "no sample"}], model_runs=runs,
        antecedents={k: c.get(k, 0) for k in ANTECEDENTS[prop]},
        driver_counters=c, configurations=sorted(stats["configs"]),
        tlc_generated_schedules=dict(scripts=stats.get("tlc_scripts", 0), ops_executed=stats["scripted_ops"],
                                     ops_diverged=stats["diverged_ops"]),
        isolate_stage=dict(rejected_with_known_signature=stats.get("known", 0), rejected=stats.get("isolate_rejected", 0)),
        invariants_checked_on_every_trace_state=sorted(INV_PROP),
        checker_cmd="tlc -workers 1 -config ZRaftTrace.cfg ZRaftTrace (ZR_TRACE=<trace>, StateDeque)",
        **extra)
    level = "model_checking"      # always the manifest's level; a run that cannot support it is inconclusive (above)
    if not os.environ.get("ZR_SKIP_MODEL") and not ctx.violations and (cov["states"] == 0 or cov["transitions"] == 0):
        raise V.Inconclusive("no exhaustive instance completed")
    V.write_evidence(ctx, level, cov, assumptions=ASSUMPTIONS)


def binding_selftest(ctx, zr, prop):
    """Corrupt one logged field / drop one line of an accepted trace: TLC must reject both."""
    c = dict(n=3, voters=[1, 2, 3], learners=[], prevote=False, cq=False, maxsz=1 << 20, maxcsz=0, storage="memory",
             profile="noconf", steps=400)
    trace, summ, err = drive(ctx, zr, c, ctx.seed, "selftest")
    if trace is None:
        return {"ran": False}
    evs = V.read_ndjson(trace)
    out = {"ran": True, "base_accepted": validate(ctx, trace, "self-base")["accepted"]}
    idx = [k for k, e in enumerate(evs) if e["ev"] == "recv" and e["m"]["t"] == "MsgVote" and e["post"]["vote"] == e["m"]["from"]]
    if idx:
        k = idx[len(idx) // 2]
        bad = [dict(e) for e in evs]
        bad[k] = json.loads(json.dumps(evs[k]))
        bad[k]["post"]["vote"] = 0
        p = os.path.join(os.path.dirname(trace), "corrupt.ndjson")
        V.write_ndjson(p, bad)
        out["corrupted_field_rejected"] = not validate(ctx, p, "self-corrupt")["accepted"]
    idx = [k for k, e in enumerate(evs) if e["ev"] == "persist"]
    if idx:
        k = idx[len(idx) // 2]
        p = os.path.join(os.path.dirname(trace), "dropped.ndjson")
        V.write_ndjson(p, evs[:k] + evs[k + 1:])
        out["dropped_line_rejected"] = not validate(ctx, p, "self-drop")["accepted"]
    return out
