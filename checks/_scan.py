"""Shared helpers of the C12 / C13 checks (drivers scansim, isosim, codecord).

Nothing in here judges: it runs a driver, hands every trace part to TLC and turns TLC's
MISMATCH prints into failure signatures (computed structurally from the recorded events).
"""
import json
import os
import re

import vcheck as V

DRIVER_FILES = ["scansim.go", "isosim.go", "codecord.go", "mergesim.go", "idxsim.go"]

_re_mis = re.compile(r'<<\s*"MISMATCH",\s*(\d+),\s*(.*?)(?=<<\s*"MISMATCH"|\Z)', re.S)


def mismatches(out):
    """All <<"MISMATCH", line, what>> prints of a TLC run; TLC pretty-prints long tuples over
    several lines, so the whole output is searched, not single lines."""
    body = [ln for ln in out.splitlines()
            if not re.match(r"^(Progress\(|Model checking completed|Finished in|\d+ states generated)", ln)]
    txt = "\n".join(body)
    res = []
    for m in _re_mis.finditer(txt):
        what = " ".join(m.group(2).split())
        res.append((int(m.group(1)), what[:1500]))
    return res


def build(ctx):
    return V.go_build(ctx, files=DRIVER_FILES)


def drive(ctx, zr, driver, name, args, parts=4, timeout=1800):
    """Run one driver invocation; returns (summary dict or None, [trace files])."""
    d = ctx.sub("run-" + name)
    argv = [zr, driver, "-o", os.path.join(d, "t")] + args
    if driver != "codecord":
        argv += ["-parts", str(parts)]
    for attempt in (1, 2):
        rc, out = V.run(ctx, argv, timeout=timeout, env={"ZR_SCRATCH": d})
        summ = [json.loads(l[8:]) for l in out.splitlines() if l.startswith("SUMMARY ")]
        if rc == 0 and summ:
            break
        ctx.log("%s %s did not complete (rc=%s, attempt %d): %s" % (driver, name, rc, attempt, out[-300:]))
    else:
        ctx.skipped += 1
        return None, []
    files = sorted(os.path.join(d, f) for f in os.listdir(d) if f.endswith(".ndjson"))
    files = [f for f in files if os.path.getsize(f) > 0]
    return summ[-1], files


def validate(ctx, module, cfg, files, name, timeout=1500, heap="4g", par=6):
    """Validate trace parts in parallel.  Returns a list of (file, events, [(line, what)])
    for every part TLC processed completely; parts that could not be processed are retried
    once, then skipped and counted."""
    def one(f):
        tag = name + "-" + os.path.basename(f).replace(".ndjson", "")
        for attempt in (1, 2):
            res = V.tlc(ctx, module, cfg, workers=1, timeout=timeout, env={"ZR_TRACE": f}, tag=tag, heap=heap)
            mm = mismatches(res.out)
            done = ("Model checking completed" in res.out) and not res.post_false and not res.violated and not res.timed_out
            if done:
                return f, mm, res
        return f, None, res
    out = []
    for f, mm, res in V.parallel(one, files, n=par):
        if mm is None:
            if res.timed_out:
                ctx.log("TLC timed out on %s; skipped" % f)
                ctx.skipped += 1
                continue
            raise V.Inconclusive("trace validation of %s did not complete: %s" % (f, res.error or res.out[-500:]))
        out.append((f, V.read_ndjson(f), mm))
    return out


# ------------------------------------------------------------------ C13 signatures

def scan_signature(eng, policy, seg):
    """seg: events from the segment's reset to the failing line (inclusive)."""
    e = seg[-1]
    b = None
    for x in reversed(seg):
        if x.get("ev") == "begin":
            b = x
            break
    sig = {"driver": "scansim", "engine": eng, "policy": policy, "event": e.get("ev")}
    if b is not None:
        sig["family"] = b.get("sp", "").split(":")[0]
        sig["rev"] = bool(b.get("rev"))
        sig["from_empty_cursor"] = b.get("cur") == 0
        if b.get("sp", "").startswith("merge-"):
            sig["driver"] = "mergesim"
            sig["no_count"] = bool(b.get("nc"))
            sig["count_below_partitions"] = 0 < b.get("count", 0) < 3
            sig["has_pattern"] = bool(b.get("pat"))
    err = e.get("err", "") if e.get("ev") == "page" else ""
    if err:
        sig["class"] = "error-reply"
        for known in ("invalid key size", "init iterator panic"):
            if known in err:
                err = known
        sig["err"] = err if len(err) < 60 else ("PANIC" if "PANIC" in err else err[:60])
    elif b is not None and b.get("pn"):
        sig["class"] = "match-nul-pattern"
    elif e.get("ev") == "page" and -1 in e.get("els", []):
        sig["class"] = "foreign-element"
    elif e.get("ev") == "page" and e.get("next") == -1:
        sig["class"] = "cursor-not-an-element"
    elif e.get("ev") == "end":
        sig["class"] = "not-terminated" if e.get("capped") else "iteration-property"
    else:
        sig["class"] = "wrong-page"
    return sig


# ------------------------------------------------------------------ C12 signatures

NT, NK = 3, 4


def tup_parts(u):
    u -= 1
    return u // (NT * NK) + 1, (u // NK) % NT + 1, u % NK + 1     # type, table, key


def iso_signature(eng, policy, seg, what):
    e = seg[-1]
    reset = seg[0] if seg and seg[0].get("ev") == "reset" else {}
    sig = {"driver": "isosim", "engine": eng, "policy": policy, "op": e.get("op")}
    if e.get("r") == -997:
        sig["class"] = "hang"
        return sig
    # tuples whose dump differs from the specification, from TLC's print: {<<u, <<...>>>>, ...}
    diff = set(int(x) for x in re.findall(r"<<(\d+), <<", what.split("{", 1)[1])) if "{" in what else set()
    op = e.get("op")
    if op == "deltable":
        addressed = set(u for u in range(1, 8 * NT * NK + 1) if tup_parts(u)[1] == e.get("a"))
        if diff:
            sig["left_only_ext_types"] = all(tup_parts(u)[0] >= 6 for u in diff) and diff <= addressed
        tabs = reset.get("tabs", [])
        if 1 <= e.get("a", 0) <= len(tabs):
            try:
                bytes.fromhex(tabs[e["a"] - 1]).decode("utf-8")
                sig["table_utf8"] = True
            except (UnicodeDecodeError, ValueError):
                sig["table_utf8"] = False
    elif op == "delrange":
        lo, hi = (e.get("ks") or [0, 0])[:2]
        addressed = set(u for u in range(1, 8 * NT * NK + 1) if tup_parts(u)[1] == e.get("a") and tup_parts(u)[0] <= 5
                        and (lo == 0 or tup_parts(u)[2] >= lo) and (hi == 0 or tup_parts(u)[2] < hi))
        sig["mixed_key_lengths"] = len(set(reset.get("klens", [0]))) > 1
    elif op in ("mget", "mexists", "mdel", "mset"):
        addressed = set(u for u in (e.get("ks") or []) if u > 0)
    elif op == "runexpiry":
        addressed = None
    elif op == "keys":
        addressed = set()
    else:
        addressed = {e.get("u")}
    # a partial-range delete in a world whose key names differ in length happened earlier in the segment (or is the
    # failing command): the open finding C12-delrange-partial-length-order shows there, at once or when a key is re-created
    if len(set(reset.get("klens", [0]))) > 1 and any(x.get("op") == "delrange" and x.get("r") == 0 for x in seg):
        sig["after_mixed_length_delrange"] = True
    if not diff:
        sig["class"] = "wrong-reply"
    elif addressed is not None and not diff <= addressed:
        sig["class"] = "other-tuple-changed"
    else:
        sig["class"] = "addressed-tuple-wrong"
    return sig
