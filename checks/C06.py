"""C06 - a restarted data node serves exactly the acknowledged state.

(A) spec/ZNode.tla: the node's persist / apply / acknowledge / snapshot / purge / restart
    pipeline as three interleaved processes with Crash between any two steps; TLC exhausts
    the 1-replica view and the "1 of 3" views (<= 4 operations, <= 2 snapshots, 1 crash).
    The old publish-before-persist order (repaired as 8d8be68) is kept as a spec mutant that
    refutes AckedDurable; its counterexample is replayed on the real code (strict stage isolate-s2).
(B) harness crashsim + cmd/vnode: real data-node processes die at every named hook on the
    persist / apply / snapshot / restart / purge path (k-th hit), at random instants, during
    restart and during a snapshot install; they are restarted on the same directory; after a
    write barrier every key is dumped from every replica.  spec/ZNodeTrace.tla (TLC) decides
    every recorded black-box trace: restarted(failed) is no step; the dump must be the fold of
    a log with every acknowledged operation in answer-compatible order plus some unanswered
    ones and nothing else.
"""
import json
import os
import random

import vcheck as V
import _node as N
import _persist as P

RAFT = ["ready.published", "persist.before", "persist.wal", "storage.appended", "raftdone", "ready.advanced"]
APPLY = ["apply.entry", "apply.batch.done", "apply.raftdone"]
SNAP = ["snap.checkpoint.started", "snap.data", "snap.created", "snap.file", "snap.saved",
        "snap.walsynced", "snap.walreleased", "snap.state", "snap.compacted"]
RESTART = ["restart.snaploaded", "restart.restored", "restart.replayed", "purge.file"]
# hooks passed while a lagging follower installs the leader's snapshot (each is passed once per install, so k = 1);
# snap.file lies inside SaveSnap between the snapshot file and its WAL marker
INSTALL = ["apply.snapshot.prepared", "snap.file", "persist.snap", "snap.install.released", "apply.snapshot.restored"]

# raft-goroutine action of ZNode -> the hook that follows it in processReady
HOOK_AFTER = {"TakeReady": "ready.published", "Publish": "ready.published", "WalSave": "persist.wal",
              "StorageAppend": "storage.appended", "RaftDone": "raftdone", "Advance": "ready.advanced"}

MUTANTS = {  # spec mutant -> invariant that must refute it
    "ReleaseBeforeMarker": "PurgeKeepsRestorable", "PurgeCkptIgnoresLatest": "PurgeKeepsRestorable",
    "ReplaySkipsOne": "NoPhantom", "SkipRestore": "NoPhantom", "AckBeforeApply": "TriggerOwnAfterApply",
    "WrongId": "TriggerOwnAfterApply", "DoubleTrigger": "NeverBoth"}


def finding_open(fid):
    return any(f.get("id") == fid and f.get("status") == "open" for f in V.load_known())


def model_stage(ctx, stats, pre=None):
    """(A): exhaustive runs.  Everything here is independent of /repo."""
    runs = []

    def one(item):
        cfg, workers, to = item
        files = None
        if cfg.startswith("q3_"):
            # quick tier: the same instance with 3 instead of 4 operations
            src = open(os.path.join(V.VERIF, "spec", cfg[3:])).read().replace("MaxOps = 4", "MaxOps = 3")
            p = os.path.join(ctx.sub("qcfg"), cfg)
            open(p, "w").write(src)
            files = {p: cfg}
        return cfg, V.tlc(ctx, "MC_ZNode", cfg, workers=workers, timeout=to, tag="mc-" + cfg[:-4], files=files)
    # MC_ZNode_single_safe / leader / follower: the faithful model (SafePublish, code since 8d8be68);
    # MC_ZNode_single_acked: the old publish-before-persist order as a spec mutant that must be refuted
    if ctx.quick():
        items = [("MC_ZNode_single_safe.cfg", 4, 600), ("q3_MC_ZNode_leader.cfg", 2, 600),
                 ("q3_MC_ZNode_follower.cfg", 2, 600), ("MC_ZNode_single_acked.cfg", 1, 300)]
    else:
        items = [("MC_ZNode_single_safe.cfg", 4, 900), ("MC_ZNode_leader.cfg", 4, 1200),
                 ("MC_ZNode_single_acked.cfg", 1, 300), ("MC_ZNode_follower.cfg", 6, 1800), ("MC_ZNode_single_deep.cfg", 4, 900),
                 # install path of a follower (3 operations): the design, and the two orders of the code that refute it
                 ("MC_ZNode_install.cfg", 4, 1200), ("MC_ZNode_install_code.cfg", 4, 1200),
                 ("MC_ZNode_install_torn.cfg", 1, 600), ("MC_ZNode_install_slowpurge.cfg", 2, 900)]
    pre = pre or {}
    res = dict(V.parallel(one, [it for it in items if it[0] not in pre], n=len(items)))
    res.update(pre)
    for cfg, _, _ in items:
        if "acked" in cfg or "deep" in cfg or "install_torn" in cfg or "install_slowpurge" in cfg:
            continue
        V.require_model_ok(ctx, N.soften(res[cfg]), cfg)
        runs.append(dict(cfg=cfg, **res[cfg].summary()))
    acked = N.soften(res["MC_ZNode_single_acked.cfg"])
    if acked.timed_out:
        ctx.skipped += 1
        ctx.notes.append("MC_ZNode_single_acked did not finish (environment); isolate-s2 not derived in this run")
        stats["model_runs"] = runs
        return res["MC_ZNode_single_safe.cfg"], []
    if acked.violated != "AckedDurable":
        raise V.Inconclusive("MC_ZNode_single_acked: expected the faithful 1-replica model to refute AckedDurable, got %s"
                             % (acked.violated or acked.error or "no error"))
    runs.append(dict(cfg="MC_ZNode_single_acked.cfg", expected="AckedDurable refuted", **acked.summary()))
    labels = N.action_labels(acked.out)
    stats["s2_counterexample"] = labels
    if "MC_ZNode_single_deep.cfg" in res:
        deep = res["MC_ZNode_single_deep.cfg"]
        runs.append(dict(cfg="MC_ZNode_single_deep.cfg", expected="PurgeKeepsRestorable refuted (orphan snapshot files)",
                         **deep.summary()))
        if deep.violated != "PurgeKeepsRestorable" and not N.soften(deep).timed_out:
            raise V.Inconclusive("MC_ZNode_single_deep: expected PurgeKeepsRestorable to be refuted, got %s" % deep.violated)
        stats["orphan_counterexample"] = N.action_labels(deep.out)[-8:]
    for cfg, what in (("MC_ZNode_install_torn.cfg", "restore copies files in place (known finding c06-torn-restore-blocks-engine-open)"),
                      ("MC_ZNode_install_slowpurge.cfg", "the code's order of UpdateSnapshotState WITHOUT the assumption that a local "
                       "backup's purge runs before a later install finishes its fetch (checkpointDirLock hand-off; settled on real code: purge first)")):
        if cfg in res:
            r = N.soften(res[cfg])
            runs.append(dict(cfg=cfg, expected="refuted: " + what, **r.summary()))
            if not r.timed_out and r.violated not in ("PurgeKeepsRestorable", "Recoverable"):
                raise V.Inconclusive("%s: expected a restorability invariant to be refuted, got %s" % (cfg, r.violated or r.error))
            stats.setdefault("install_counterexamples", {})[cfg] = N.action_labels(r.out)[-10:]
    if not ctx.quick():
        # the install path's own guard: restore only after the snapshot is persisted
        p = os.path.join(ctx.sub("mutcfg"), "zz_inst.cfg")
        open(p, "w").write(open(os.path.join(V.VERIF, "spec", "MC_ZNode_install.cfg")).read().replace('Mutant = ""', 'Mutant = "RestoreBeforePersist"'))
        r = N.soften(V.tlc(ctx, "MC_ZNode", "zz_inst.cfg", workers=2, timeout=600, tag="mut-RestoreBeforePersist", files={p: "zz_inst.cfg"}))
        if r.timed_out:
            ctx.skipped += 1
        elif not r.violated:
            raise V.Inconclusive("spec mutant RestoreBeforePersist was not refuted")
        else:
            stats["spec_mutants_refuted"].append("RestoreBeforePersist" if r.violated == "InstalledDurable" else "RestoreBeforePersist (by %s)" % r.violated)
    if not ctx.quick():
        # spec mutants: each removes one guard and must be refuted by the named invariant
        base = open(os.path.join(V.VERIF, "spec", "MC_ZNode_single_safe.cfg")).read()

        def mut(m):
            p = os.path.join(ctx.sub("mutcfg"), "zz_%s.cfg" % m)
            open(p, "w").write(base.replace('Mutant = ""', 'Mutant = "%s"' % m).replace("Persistent = FALSE", "Persistent = TRUE"))
            return m, V.tlc(ctx, "MC_ZNode", "zz_%s.cfg" % m, workers=2, timeout=600, tag="mut-" + m,
                            files={p: "zz_%s.cfg" % m})
        for m, r in V.parallel(mut, list(MUTANTS), n=4):
            if N.soften(r).timed_out:
                ctx.skipped += 1
                continue
            if not r.violated or r.violated == "Deadlock":
                raise V.Inconclusive("spec mutant %s was not refuted (expected %s, got %s)" % (m, MUTANTS[m], r.violated or r.error))
            # (with several workers TLC reports whichever violated invariant it meets first)
            stats["spec_mutants_refuted"].append(m if r.violated == MUTANTS[m] else "%s (by %s)" % (m, r.violated))
    stats["model_runs"] = runs
    return res["MC_ZNode_single_safe.cfg"], labels


def hold_script(labels):
    """Map the counterexample (action labels only) to a hold-mode schedule."""
    if "Crash" not in labels:
        return None
    pre = labels[:labels.index("Crash")]
    raft = [a for a in pre if a in HOOK_AFTER]
    if not raft:
        return None
    return dict(point=HOOK_AFTER[raft[-1]], waitack="Trigger" in pre)


def classify(ctx, events, v, n, tag, trace_path):
    """Structural signature of a rejected trace (v = validate() result)."""
    sig = {"replicas": n}
    if v["violated"]:
        sig["class"] = "replicas-differ" if v["violated"] == "AllReplicasEqual" else v["violated"]
        return sig, "invariant %s violated" % v["violated"]
    e = events[v["hw"] - 1] if v["hw"] and v["hw"] <= len(events) else {}
    sig["event"] = e.get("ev")
    # the crashes since the last settle barrier before the failing line
    died = []
    for x in events[:v["hw"]]:
        if x.get("ev") == "died":
            died.append(x)
        elif x.get("ev") == "settle":
            died = []
    sig["last_point"] = died[-1]["point"] if died else None
    if e.get("ev") == "replayed":
        sig["class"] = "replay-drops-wal-entries"
        return sig, ("node %s restarted with raft last index %s although its WAL returned entries up to %s: entries above "
                     "the persisted commit index were dropped at replay" % (e.get("n"), e.get("raft_last"), e.get("wal_last")))
    if e.get("ev") == "appended":
        sig["class"] = "ready-entries-not-in-raft-log"
        return sig, ("node %s: after the append of a Ready (snapshot %s) raft's log ends at %s although the Ready's last entry is %s"
                     % (e.get("n"), e.get("snap"), e.get("raft_last"), e.get("ents_last")))
    if e.get("ev") == "published":
        sig["class"] = "publish-before-save"
        return sig, ("node %s handed entry %s to the apply loop while the largest index saved to its WAL was %s"
                     % (e.get("n"), e.get("pub"), e.get("saved")))
    if e.get("ev") == "sent":
        sig["class"] = "send-before-persist"
        return sig, ("node %s: processReady sent the messages of a Ready that changes term/vote before persisting it, and it was "
                     "not the Ready in which it became leader (%d times)" % (e.get("n"), e.get("count", 0)))
    if e.get("ev") == "restarted":
        sig["class"] = "restart-failed"
        sig["why"] = e.get("why", "")
        sig["orphan_chain"] = sum(1 for x in died if x.get("point") == "snap.file") >= 2
        return sig, "restart failed after crashes at %s" % [x.get("point") for x in died]
    if e.get("ev") == "read":
        sig["class"] = "dump-mismatch"
        if n == 1 and not events[0].get("weak"):
            # would the same trace be accepted if answers counted only once confirmed by a later
            # answered operation?  (TLC decides again; then only unconfirmed answers were lost)
            p2 = trace_path + ".weak"
            N.rewrite(trace_path, p2, lambda ev: [dict(ev[0], weak=True)] + ev[1:])
            v2 = N.validate(ctx, "ZNodeTrace", p2, tag + "-weak")
            if v2 and v2["accepted"]:
                sig["class"] = "unconfirmed-ack-lost"
        return sig, "dump of node %s differs from every fold of the acknowledged log: %s" % (e.get("n"), json.dumps(e.get("st")))
    sig["class"] = "reply-not-linearizable" if e.get("ev") == "ok" else "other"
    if e.get("ev") == "ok":
        op = next((x["op"] for x in events[:v["hw"]] if x.get("ev") == "inv" and x.get("id") == e.get("id")), {})
        sig["op"] = "pop" if op.get("t") in ("lpop", "rpop") else op.get("t")
        sig["reply"] = "nil" if e.get("res") == 0 and sig["op"] == "pop" else "value"
        # answered from a local pre-check without going through raft?
        sig["shortcut"] = e.get("res") == 0 and op.get("t") in ("lpop", "rpop", "setnx")
        sig["del_zero"] = e.get("res") == 0 and op.get("t") == "del"
        sig["read"] = op.get("t") in ("get", "hget", "llen")
    return sig, "line %s cannot be a step: %s" % (v["hw"], json.dumps(e))


def run(ctx):
    rnd = random.Random(ctx.seed)
    stats = dict(scenarios=0, accepted=0, rejected=0, triggered=0, events=0, acked=0, unanswered=0,
                 points_hit={}, died_modes={}, spec_mutants_refuted=[], selftest=[], process_starts=0,
                 snapshots_crossed=0, not_triggered=[], whitebox={})
    samples = []
    vnode, zr = N.build(ctx)
    # stage persist-shapes: Ready shapes of ZPersist handed to the real processReady by direct call
    stats["persist_shapes"] = P.stage(ctx)
    ctx.log("persist-shapes: %s" % {k: v for k, v in stats["persist_shapes"].items() if k not in ("rule", "checker_cmd")})
    weak = finding_open("c06-single-replica-ack-before-persist")
    orphan_open = finding_open("c06-orphan-snapshot-files-purge")
    # while c14-pebble-checkpoint-release-timer was open, pebble scenarios of the general corpus took no
    # checkpoints and the ones that do ran as an isolate stage; since ee3b302 they are all strict
    pebble_avoid = finding_open("c14-pebble-checkpoint-release-timer")

    # ---- scenario list -------------------------------------------------------------
    sc = []

    isoc = []

    def add(name, n, engine, kind, extra, w=None, iso=False):
        a = ["-vnode", vnode, "-n", str(n), "-engine", engine, "-kind", kind, "-seed", str(ctx.seed * 1000 + len(sc))]
        if (weak if w is None else w) and n == 1:
            a.append("-weak")
        ck = True
        if not pebble_avoid and engine == "pebble":
            iso = False        # c14-pebble-checkpoint-release-timer is repaired: pebble is strict everywhere
        if engine == "pebble" and not iso and pebble_avoid:
            extra = extra + ["-snapcount", "1000000"]   # avoid rule of c14-pebble-checkpoint-release-timer
            ck = False
        (isoc if iso else sc).append(dict(name=name, n=n, engine=engine, kind=kind, ckpt=ck, args=a + extra))

    engines = ["mem"] if ctx.quick() else ["mem", "pebble"]
    ks = [1] if ctx.quick() else [1, 3]
    for eng in engines:
        for k in ks:
            for j, p in enumerate(RAFT + APPLY + SNAP):
                # KeepBackup 1 is legal for checkpoints (snapshot files then keep 10): every other scenario uses it
                # (slow clients, so that snapshots do not overlap, and a short delay at the hook, so that the
                # checkpoint purge that follows a backup has run when the process dies)
                kb = ["-keepbackup", "1", "-think", "25", "-delay", "25"] if (j + k + ctx.seed) % 2 == 0 else []
                add("p1-%s-%s-k%d" % (eng, p, k), 1, eng, "point", ["-point", p, "-k", str(k)] + kb,
                    iso=(eng == "pebble" and p in SNAP))
            for p in (RESTART if k == ks[0] else []):      # these hooks are passed once per start: k = 1 only
                add("r1-%s-%s-k%d" % (eng, p, 1), 1, eng, "restart", ["-point", p, "-k", "1", "-ops", "45", "-walseg", "512"],
                    iso=(eng == "pebble" and p != "restart.replayed"))
            if not ctx.quick() and ((eng == "mem" and k == 1) or (eng == "pebble" and k == 3)):
                for role in (("leader", "follower") if eng == "mem" else ("leader",)):
                    for p in RAFT + APPLY + SNAP:
                        add("p3%s-%s-%s-k%d" % (role[0], eng, p, k), 3, eng, "point",
                            ["-point", p, "-k", str(k), "-victim", role], iso=(eng == "pebble" and p in SNAP))
                    for p in RESTART[:3]:
                        add("r3%s-%s-%s-k%d" % (role[0], eng, p, 1), 3, eng, "restart",
                            ["-point", p, "-k", "1", "-victim", role, "-ops", "40"],
                            iso=(eng == "pebble" and p != "restart.replayed"))
        # snap.install.released races with the restore of the installed snapshot: known finding
        # c06-torn-restore-blocks-engine-open, isolate stage only
        gen_install = [p for p in INSTALL if p != "snap.install.released"]
        for p in (gen_install if not ctx.quick() else [gen_install[ctx.seed % len(gen_install)]]):
            add("i3-%s-%s" % (eng, p), 3, eng, "install", ["-point", p], iso=(eng == "pebble"))
        # the same gates with KeepBackup 1 (the checkpoint purge keeps one checkpoint only); at persist.snap - between
        # "snapshot file + WAL marker written, store told the new latest index" and wal.Save - the dying goroutine waits
        # 300 ms so that anything concurrent (a local backup's purge) lands inside the window
        for p in (gen_install if not ctx.quick() else (["persist.snap"] if eng == "mem" else [])):
            add("i3-%s-%s-kb1" % (eng, p), 3, eng, "install",
                ["-point", p, "-keepbackup", "1"] + (["-delay", "300"] if p == "persist.snap" else []), iso=False)
        if eng == "mem":
            add("isolate-torn-restore", 3, "mem", "install", ["-point", "snap.install.released"], iso=True)
            # slow checkpoints: 24 MB of unmodelled bulk written after the hook is armed, so that the engine checkpoint of
            # the snapshot that hits the hook takes far longer (copy + fsync) than writing the snapshot file and the WAL
            # marker; the node dies at a gate behind the marker (ZNode: CkptDone comes before SaveSnapFile / WalSnapMarker -
            # a snapshot is only recorded once its checkpoint is complete).  1 replica: nobody to fetch a checkpoint from
            for p in (["snap.saved"] if ctx.quick() else ["snap.saved", "snap.walsynced", "snap.walreleased", "snap.state", "snap.compacted"]):
                add("b1-mem-%s-ballast" % p, 1, "mem", "point", ["-point", p, "-k", "1", "-ballast", "24"], iso=False)
            # directed: two snapshots with a restart between them and one after the second - start, writes until a whole
            # snapshot S1 has been taken (hook snap.compacted = its last step), die, restart, writes until S2, die, restart;
            # kill -9 at the hook and clean stop (SIGTERM once the hook has been passed) variants, 1 and 3 replicas.  The
            # third incarnation must come up with a usable configuration and serve the acknowledged state
            for n, role in ((1, "leader"), (3, "leader"), (3, "follower")):
                add("dsnap%d-mem-kill-%s" % (n, role), n, "mem", "chain",
                    ["-chain", "snap.compacted,snap.compacted", "-ops", "40", "-victim", role], iso=False)
                add("dsnap%d-mem-term-%s" % (n, role), n, "mem", "chain",
                    ["-chain", "term@snap.compacted,term@snap.compacted", "-ops", "40", "-victim", role], iso=False)
    if ctx.quick():
        pick = rnd.sample(RAFT + APPLY + SNAP, 4)
        add("p3l-mem-" + pick[0], 3, "mem", "point", ["-point", pick[0], "-victim", "leader"])
        add("p3f-mem-" + pick[1], 3, "mem", "point", ["-point", pick[1], "-victim", "follower"])
        add("p3l-mem-" + pick[2], 3, "mem", "point", ["-point", pick[2], "-victim", "leader", "-k", "2"])
        add("p1-pebble-" + pick[3], 1, "pebble", "point", ["-point", pick[3]], iso=(pick[3] in SNAP))
        add("p1-pebble-snap", 1, "pebble", "point", ["-point", SNAP[ctx.seed % len(SNAP)]], iso=True)
        # two crashes in a row at different hooks, one per incarnation (never snap.file twice: known finding)
        hooks2 = RAFT + APPLY + SNAP + ["kill"]
        for i in range(2):
            a, b = rnd.sample(hooks2, 2)
            add("chain1-%d-%s-%s" % (i, a, b), 1, "mem", "chain", ["-chain", "%s,%s" % (a, b), "-ops", "40"])
        a, b = rnd.sample(RAFT + APPLY + ["kill"], 2)
        add("chain3-%s-%s" % (a, b), 3, "mem", "chain", ["-chain", "%s,%s" % (a, b), "-ops", "40", "-victim", "any"])
        add("rand1-mem", 1, "mem", "random", ["-cycles", "3"])
        # bursts of proposals per Ready (unrecorded noise clients) with a tiny max_committed_size_per_ready: the
        # committed entries of a Ready lag behind and straddle its new entries (white-box rule TPublished)
        add("rand1-mem-straddle-a", 1, "mem", "random", ["-cycles", "2", "-noise", "12", "-maxcommitted", "400"])
        add("rand1-mem-straddle-b", 1, "mem", "random", ["-cycles", "2", "-noise", "24", "-maxcommitted", "1500"])
        # optimized_fsync: the WAL is flushed to the OS but not fsynced on most saves; a process kill must lose nothing
        add("rand1-mem-optfsync", 1, "mem", "random", ["-cycles", "3", "-optfsync"])
        add("p1-mem-optfsync-" + pick[0], 1, "mem", "point", ["-point", pick[0], "-k", "3", "-optfsync"])
        add("rand3-mem", 3, "mem", "random", ["-cycles", "2"])
        add("rand1-pebble", 1, "pebble", "random", ["-cycles", "2", "-snapcount", "1000000"])   # restarts before the first snapshot
        add("rand1-pebble-snap", 1, "pebble", "random", ["-cycles", "2"])
        add("rand3-pebble-ckpt", 3, "pebble", "random", ["-cycles", "2"], iso=True)
    else:
        for i in range(10):
            eng = engines[i % 2]
            add("rand1-%s-%d" % (eng, i), 1, eng, "random", ["-cycles", "4"] + (["-snapcount", "1000000"] if i % 4 == 1 else []))
            add("rand3-%s-%d" % (eng, i), 3, eng, "random", ["-cycles", "4"])
        for i, p in enumerate(RAFT + APPLY):
            add("p1-mem-optfsync-%s" % p, 1, "mem", "point", ["-point", p, "-k", str(1 + i % 4), "-optfsync"])
        for i in range(6):
            add("rand%d-straddle-%d" % ([1, 1, 3][i % 3], i), [1, 1, 3][i % 3], engines[i % 2], "random",
                ["-cycles", "2", "-noise", str([12, 24, 32][i % 3]), "-maxcommitted", str([400, 1500, 800][i % 3])])
        for i in range(4):
            add("rand1-optfsync-%d" % i, 1, engines[i % 2], "random", ["-cycles", "4", "-optfsync"])
        for i in range(4):
            add("term3-%d" % i, 3, engines[i % 2], "term", ["-cycles", "2"])
            # two crashes in a row at different hooks (never snap.file twice: known finding)
            a, b = rnd.sample(RAFT + APPLY + SNAP + ["kill"], 2)
            add("chain1-%d" % i, 1, engines[i % 2], "chain", ["-chain", "%s,%s" % (a, b), "-ops", "40"])
        for i in range(8):      # the 2-crash general corpus
            a, b = rnd.sample(RAFT + APPLY + SNAP + ["kill"], 2)
            add("chain1x-%d-%s-%s" % (i, a, b), 1, engines[i % 2], "chain", ["-chain", "%s,%s" % (a, b), "-ops", "40"])
        for i in range(4):
            a, b = rnd.sample(RAFT + APPLY + ["kill"], 2)
            add("chain3x-%d-%s-%s" % (i, a, b), 3, engines[i % 2], "chain",
                ["-chain", "%s,%s" % (a, b), "-ops", "40", "-victim", ["leader", "follower"][i % 2]])

    # ---- (A) model runs: the small refuted instance first (its counterexample is the schedule of
    # stage isolate-s2), the exhaustive ones in a thread next to the scenarios ------------------
    import threading
    mres = {}
    acked_res = V.tlc(ctx, "MC_ZNode", "MC_ZNode_single_acked.cfg", workers=1, timeout=300, tag="mc-MC_ZNode_single_acked")
    labels0 = N.action_labels(acked_res.out) if acked_res.violated == "AckedDurable" else []

    def mrun():
        try:
            mres["ok"] = model_stage(ctx, stats, pre={"MC_ZNode_single_acked.cfg": acked_res})
        except Exception as ex:      # re-raised below in the main thread
            mres["err"] = ex
    mt = threading.Thread(target=mrun)
    mt.start()

    # ---- (B) run and validate ---------------------------------------------------------
    def do(s):
        summ, tr, d = N.run_scenario(ctx, zr, "crashsim", s["name"], s["args"])
        if summ is None:
            return s, None, None, None, d
        v = N.validate(ctx, "ZNodeTrace", tr, "v-" + s["name"])
        return s, summ, tr, v, d

    def account(s, summ, tr, v, d, expect_sig=None):
        if summ is None:
            return
        if v is None:
            ctx.skipped += 1
            ctx.notes.append("TLC could not decide trace of %s" % s["name"])
            return
        events = V.read_ndjson(tr)
        stats["scenarios"] += 1
        stats["events"] += len(events)
        for e in events:
            if e.get("ev") in ("sent", "replayed", "published", "appended"):
                stats["whitebox"][e["ev"]] = stats["whitebox"].get(e["ev"], 0) + 1
        stats["acked"] += summ["ok"]
        stats["unanswered"] += summ["fail"]
        stats["process_starts"] += summ["process_starts"]
        stats["snapshots_crossed"] += 1 if summ.get("last_snap_index", 0) > 0 else 0
        for dd in summ.get("died") or []:
            stats["points_hit"][dd["point"]] = stats["points_hit"].get(dd["point"], 0) + 1
            stats["died_modes"][dd["mode"]] = stats["died_modes"].get(dd["mode"], 0) + 1
        if summ.get("triggered"):
            stats["triggered"] += 1
        elif s["kind"] in ("point", "restart", "install"):
            stats["not_triggered"].append(s["name"])
        if v["accepted"]:
            stats["accepted"] += 1
            if len(samples) < 2 and summ.get("triggered") and len(events) > 30:
                i = next((j for j, e in enumerate(events) if e.get("ev") == "died"), 10)
                samples.append({"scenario": s["name"], "excerpt": events[max(1, i - 5):i + 4]})
            return
        stats["rejected"] += 1
        sig, what = classify(ctx, events, v, s["n"], "v-" + s["name"], tr)
        sig["engine"] = s["engine"]
        sig["checkpoints"] = bool(s.get("ckpt"))
        sig["pebble_ckpt_family"] = s["engine"] == "pebble" and bool(s.get("ckpt")) and sig.get("class") != "restart-failed"
        what = "%s (%s engine, %d replica(s), kind %s): %s" % (s["name"], s["engine"], s["n"], s["kind"], what)
        V.report_failure(ctx, sig, what, files=[tr] + [os.path.join(d, "data", f) for f in os.listdir(os.path.join(d, "data"))
                                                      if f.endswith(".log")][:8],
                         script={"crashsim": s["args"][2:]})

    # ---- isolate / strict stages with a fixed schedule, run together with the general corpus --------
    hs = hold_script(labels0)
    iso = []
    if hs:
        a = ["-vnode", vnode, "-n", "1", "-engine", "mem", "-kind", "hold", "-point", hs["point"], "-seed", str(ctx.seed)]
        if not hs["waitack"]:
            a.append("-waitack=false")
        iso.append(dict(name="isolate-s2", n=1, engine="mem", kind="hold", args=a))
    iso += isoc
    iso.append(dict(name="isolate-orphans", n=1, engine="mem", kind="chain",
                    args=["-vnode", vnode, "-n", "1", "-engine", "mem", "-kind", "chain", "-chain", "snap.file,snap.file,snap.file",
                          "-ops", "60", "-pre", "45", "-walseg", "512", "-seed", str(ctx.seed)] + (["-weak"] if weak else [])))
    isonames = set(x["name"] for x in iso)
    stats["isolate"] = {}
    stats["s2_replay"] = hs

    par = 8
    for r in V.parallel(do, sc + iso, n=par):
        account(*r)
        s_, summ, tr, v, d = r
        if s_["name"] in isonames and summ is not None and v is not None:
            stats["isolate"][s_["name"]] = dict(reproduced=not v["accepted"], summary_notes=summ.get("notes"),
                                                schedule=s_["args"][6:])
    ctx.log("corpus + stages: %d scenarios, %d accepted, %d rejected, %d skipped" % (
        stats["scenarios"], stats["accepted"], stats["rejected"], ctx.skipped))

    mt.join()
    if "err" in mres:
        raise mres["err"]
    r1, labels = mres["ok"]

    # ---- self-test of the binding (thorough): corrupted good traces must be rejected ----
    if not ctx.quick():
        good = None
        for s in sc:
            p = os.path.join(ctx.scratch, "run-%s-1" % s["name"], "trace.ndjson")
            if os.path.exists(p) and s["kind"] == "point" and s["n"] == 3:
                good = p
                break
        if good:
            def drop_op(ev):
                i = next(j for j, e in enumerate(ev) if e.get("ev") == "ok" and any(
                    x.get("ev") == "inv" and x["id"] == e["id"] and x["op"]["t"] == "hincrby" for x in ev))     # a hash field is never overwritten: the loss stays visible
                idd = ev[i]["id"]
                return [e for e in ev if not (e.get("id") == idd and e.get("ev") in ("inv", "ok"))]

            def bump_read(ev):
                out, done = [], False
                for e in ev:
                    if e.get("ev") == "read" and not done:
                        e = json.loads(json.dumps(e))
                        e["st"]["h1f1"] += 1
                        done = True
                    out.append(e)
                return out

            def fail_restart(ev):
                return [dict(e, ok=False) if e.get("ev") == "restarted" else e for e in ev]
            for nm, fn in (("drop-acked-op", drop_op), ("bump-one-read-value", bump_read), ("restart-failed", fail_restart)):
                p = os.path.join(ctx.sub("selftest"), nm + ".ndjson")
                try:
                    N.rewrite(good, p, fn)
                except StopIteration:
                    continue
                v = N.validate(ctx, "ZNodeTrace", p, "self-" + nm)
                if v is None:        # TLC did not finish the (exhaustive) rejection in time: environment
                    ctx.skipped += 1
                    ctx.notes.append("binding self-test %s not decided in time" % nm)
                    continue
                if v["accepted"]:
                    raise V.Inconclusive("binding self-test: corrupted trace %s was not rejected" % nm)
                stats["selftest"].append(nm)

    if stats["scenarios"] == 0:
        raise V.Inconclusive("no crash scenario could be run and validated")
    distinct = len([p for p in stats["points_hit"] if p != "none"]) + (1 if stats["points_hit"].get("none") else 0)
    cov = dict(
        states=r1.distinct, transitions=r1.generated,
        traces_validated_against_impl=stats["scenarios"],
        evaluations=stats["scenarios"], distinct_nontrivial=distinct,
        rule="one evaluation = one crash scenario on real data-node processes (boot, write, die at a named hook / "
             "k-th hit / random instant / during restart or snapshot install, restart on the same directory, write "
             "barrier, dump of every key from every replica, more writes, dump) whose black-box trace TLC validated "
             "against ZNodeTrace; distinct = different hook names at which a process really died (+1 for plain kills)",
        samples=samples or [{"note": "no sample"}],
        exhaustive=not ctx.quick(),
        model_runs=stats.get("model_runs"),
        s2_model_counterexample=stats.get("s2_counterexample"), s2_replay_schedule=stats.get("s2_replay"),
        orphan_model_counterexample_tail=stats.get("orphan_counterexample"),
        install_model_counterexample_tails=stats.get("install_counterexamples"),
        isolate=stats.get("isolate"),
        spec_mutants_refuted=stats["spec_mutants_refuted"], binding_selftest_rejected=stats["selftest"],
        scenarios=stats["scenarios"], accepted=stats["accepted"], rejected=stats["rejected"],
        crash_hook_triggered=stats["triggered"], hooks_not_reached=stats["not_triggered"][:40],
        died_at=stats["points_hit"], died_modes=stats["died_modes"],
        events_validated=stats["events"], acked_ops=stats["acked"], unanswered_ops=stats["unanswered"],
        process_starts=stats["process_starts"], scenarios_with_snapshot=stats["snapshots_crossed"],
        whitebox_events=dict(stats["whitebox"], note="reports of the processReady / restart hooks that reached a trace: sent = Ready "
                             "whose messages left before its persist; replayed = restart summaries; published = Ready published "
                             "above the saved index; appended = Readys carrying a snapshot AND entries (rule TAppended)"),
        persist_shapes=stats.get("persist_shapes"),
        weak_ack_rule_on_single_replica=weak,
        checker_cmd="tlc -config ZNodeTrace.cfg ZNodeTrace (ZR_TRACE=<trace>, workers 1, StateDeque)",
    )
    assumptions = [
        "crash model = process kill (SIGKILL of the data-node process); power loss / torn sectors are C05's business",
        "the black-box trace cannot show the pipeline's internal steps; it is validated against the observable contract "
        "(Recoverable, AckedDurable, NoPhantom) that TLC establishes for the pipeline model ZNode",
        "3-replica groups: the restarted node rejoins the live group (raft re-sends what it lost); its state is compared "
        "with the other replicas after a write barrier and equal applied indexes",
        "after the barrier an unanswered operation of a dead process is assumed not to take effect any more",
        "mem and pebble engines; values of the ZOps model only (2 string keys, 2 hash fields, 1 list, 1 HyperLogLog key with 8 fixed elements; PFADD answers are not checked, PFCOUNT is)",
        "wall-clock time-outs (a node that does not come up or never settles) are skipped and counted, never judged",
    ]
    if weak:
        assumptions.append("1-replica groups: an answer counts as durable only once a later-invoked operation has been answered too "
                           "(known finding c06-single-replica-ack-before-persist is open)")
    else:
        assumptions.append("every answered operation must survive the death of the only replica (strict since 8d8be68)")
    V.write_evidence(ctx, "model_checking", cov, assumptions=assumptions)
