"""Helpers shared by C07 (determinism of apply) and C11 (robustness against client input).

Nothing in here judges: it runs the Go drivers, hands their traces to TLC and turns TLC's
MISMATCH lines into structural signatures for vcheck.report_failure.
"""
import json
import os

import vcheck as V

import re
_re_known = re.compile(r'^<<"KNOWN", (\d+), (.*)>>$')

_re_mis_ml = re.compile(r'^<<\s*"MISMATCH",\s*(\d+),\s*(.*?)\s*>>\s*$', re.S | re.M)
_re_known_ml = re.compile(r'^<<\s*"KNOWN",\s*(\d+),\s*(.*?)\s*>>\s*$', re.S | re.M)

DRIVER_FILES = ["detlib.go", "detsim.go", "inputsim.go", "repsim.go"]
BATCHABLE = {"set", "setex", "hmset", "del"}


def build(ctx):
    return V.go_build(ctx, files=[f for f in DRIVER_FILES
                                  if os.path.exists(os.path.join(V.VERIF, "harness", "cmd", "zrdrive", f))])


def summaries(out):
    res = []
    for l in out.splitlines():
        if l.startswith("SUMMARY "):
            try:
                res.append(json.loads(l[8:]))
            except ValueError:
                pass
    return res


def drive(ctx, zr, driver, name, args, parts, timeout=None, prefix="t"):
    """Run one driver invocation; returns (summary dict or None, [trace files])."""
    d = ctx.sub("run-" + name)
    argv = [zr, driver, "-o", os.path.join(d, prefix), "-parts", str(parts)] + args
    if timeout is None:
        timeout = 900 if ctx.quick() else 3000
    for attempt in (1, 2):
        rc, out = V.run(ctx, argv, timeout=timeout, env={"ZR_SCRATCH": d})
        summ = summaries(out)
        if rc == 0 and summ:
            files = [os.path.join(d, "%s.%d.ndjson" % (prefix, i)) for i in range(parts)]
            files = [f for f in files if os.path.exists(f) and os.path.getsize(f) > 0]
            return summ[-1], files
        ctx.log("%s %s did not complete (rc=%s, attempt %d): %s" % (driver, name, rc, attempt, out[-400:]))
    ctx.skipped += 1
    return None, []


def validate(ctx, module, cfg, files, name, reset_ev, n=8, timeout=900):
    """TLC on every trace file.  Yields (file, events, [(line, expected, segment)...])."""
    def one(f):
        return f, V.validate_seq_trace(ctx, module, cfg, f, tag=name + "-" + os.path.basename(f).replace(".ndjson", ""),
                                       timeout=timeout)
    out = []
    for f, (consumed, mism, res) in V.parallel(one, files, n=n):
        if not consumed and not mism and not _re_mis_ml.search(res.out):
            # retry once (JVM start under load), then skip and count
            consumed, mism, res = V.validate_seq_trace(ctx, module, cfg, f, tag=name + "-retry", timeout=timeout)
            if not consumed and not mism:
                if res.timed_out:
                    ctx.log("TLC timed out on %s; skipped" % f)
                    ctx.skipped += 1
                    continue
                raise V.Inconclusive("trace validation of %s did not complete: %s" % (f, res.error or res.out[-400:]))
        events = V.read_ndjson(f)
        # TLC wraps a printed tuple over several lines when it is longer than about 80 columns;
        # vcheck only sees single-line tuples, so the output is parsed again here across lines
        mism = [(int(m.group(1)), " ".join(m.group(2).split())) for m in _re_mis_ml.finditer(res.out)]
        fails = []
        for line, exp in mism:
            s, seg = V.segment_of(events, line, reset_ev=reset_ev)
            fails.append((line, exp, seg))
        known = []
        for m in _re_known_ml.finditer(res.out):
            ln = int(m.group(1))
            s, seg = V.segment_of(events, ln, reset_ev=reset_ev)
            known.append((ln, " ".join(m.group(2).split()), seg))
        out.append((f, events, fails, known))
    return out


# ------------------------------------------------------------------ C07 signatures

def _names(logev):
    m = {}
    for s in logev.get("names", []):
        p = s.split(" ")
        m[int(p[0])] = (p[1], int(p[-1]), p[2] if len(p) > 3 else "")
    return m


def classify_det(seg, stage, expected=None):
    """Signature of a failing ZDetTrace segment (seg[0] = log event, seg[-1] = failing line)."""
    logev, e = seg[0], seg[-1]
    runs = [x for x in seg if x.get("ev") == "run"]
    names = _names(logev)
    sig = {"stage": stage, "event": e.get("ev"), "kind": logev.get("kind", "").split(":")[0]}
    if e.get("ev") == "hung":
        sig["class"] = "hung"
        return sig
    if e.get("ev") == "panic":
        sig["class"] = "panic"
        sig["cmd"] = names.get(e.get("idx"), ("?", 0))[0]
        return sig
    on_hll = (e.get("ev") == "reply" and names.get(e.get("idx"), ("?", 0, ""))[2].startswith("Qt:")) or \
        (e.get("ev") == "dump" and ("Qt:" in str(e.get("k")) or "51743a" in str(e.get("k"))))
    if on_hll and stage == "isolate-hll":
        # isolate stage only (unrestricted SET on HLL keys); in every other stage a mismatch on an
        # HLL key is judged like any other
        sig["class"] = "hll-cache"
        return sig
    if stage == "isolate-syncer" and logev.get("kind") == "syncer" and e.get("ev") in ("reply", "dump", "dumpn"):
        # finding C07-syncer-conflict-filter: whether a syncer entry is ignored or executed depends on
        # the replay flag, on the pending write batch (the filter reads committed modify times) and
        # on a per-process time; the first visible difference may be the ignored entry's own reply or
        # a later command on the same key.  Only this stage (unrestricted syncer entries) is excused;
        # the general corpus carries syncer entries in the conflict-free shape and stays strict.
        sig["class"] = "syncer-conflict"
        return sig
    if sig["kind"] == "straddle":
        sig["class"] = "wallclock"
        sig["cmd"] = names.get(e.get("idx"), ("dump", 0))[0] if e.get("ev") == "reply" else "dump"
        return sig
    # finding C07-batch-abort-on-apply-error, narrowed to its exact shape: the failing line is the
    # REPLY of a batchable command, exactly one of (observed, first seen) is an error, and a
    # batchable command LATER in the log failed in its apply handler in some run (the abort hands
    # that command's error to every earlier command of the same write batch)
    def batchable(i):
        nm, argc = names.get(i, ("?", 0, ""))[:2]
        return nm in BATCHABLE and not (nm == "del" and argc > 2)
    if e.get("ev") == "reply" and batchable(e.get("idx")) and expected is not None:
        obs_err = str(e.get("r", "")).startswith("e:")
        exp_err = expected.lstrip('"').startswith("e:")
        later_fail = any(x.get("ev") == "reply" and str(x.get("r", "")).startswith("e:") and x["idx"] > e["idx"]
                         and batchable(x["idx"]) for x in seg)
        if obs_err != exp_err and later_fail:
            sig["class"] = "batch-abort"
            return sig
    if runs and runs[0].get("eng") != runs[-1].get("eng"):
        sig["class"] = "engine-diff"
        sig["engine"] = runs[-1].get("eng")
        return sig
    sig["class"] = "other"
    sig["restart"] = runs[-1].get("restart") if runs else ""
    return sig


# ------------------------------------------------------------------ binding self-test

def selftest_binding(ctx, module, cfg, good_file, corruptions, name):
    """DESIGN 4.5(a): corrupt one logged field / drop one line of an accepted trace; TLC has to
    reject every corrupted copy.  corruptions: list of (label, fn(events) -> events or None).
    Returns {label: rejected?}.  A copy that is still accepted makes the check inconclusive
    (the binding would be vacuous), never a verdict on the code."""
    events = V.read_ndjson(good_file)
    res = {}
    for label, fn in corruptions:
        ev2 = fn([dict(e) for e in events])
        if ev2 is None:
            continue
        p = os.path.join(os.path.dirname(good_file), "selftest-%s-%s.ndjson" % (name, label))
        V.write_ndjson(p, ev2)
        consumed, mism, r = V.validate_seq_trace(ctx, module, cfg, p, tag="selftest-%s-%s" % (name, label))
        res[label] = bool(mism) or bool(_re_mis_ml.search(r.out)) or not consumed
    bad = [k for k, v in res.items() if not v]
    if bad:
        raise V.Inconclusive("binding self-test: corrupted trace(s) %s were accepted by %s" % (bad, module))
    return res


def det_corruptions():
    def second_run_idx(ev, kind):
        runs = 0
        for i, e in enumerate(ev):
            if e.get("ev") == "log":
                runs = 0
            if e.get("ev") == "run":
                runs += 1
            if runs >= 2 and e.get("ev") == kind:
                return i
        return None

    def reply_changed(ev):
        i = second_run_idx(ev, "reply")
        if i is None:
            return None
        ev[i]["r"] = ev[i]["r"] + "x"
        return ev

    def dump_changed(ev):
        i = second_run_idx(ev, "dump")
        if i is None:
            return None
        ev[i]["v"] = ev[i]["v"] + "0"
        return ev

    def dump_dropped(ev):
        i = second_run_idx(ev, "dump")
        if i is None:
            return None
        del ev[i]
        return ev

    def panic_inserted(ev):
        i = second_run_idx(ev, "reply")
        if i is None:
            return None
        ev.insert(i, {"ev": "panic", "idx": 0, "msg": "selftest"})
        return ev
    return [("reply-changed", reply_changed), ("dump-value-changed", dump_changed), ("dump-line-dropped", dump_dropped),
            ("panic-inserted", panic_inserted)]


def input_corruptions():
    def first(ev, pred):
        for i, e in enumerate(ev):
            if e.get("ev") == "cmd" and pred(e):
                return i
        return None

    def err_changed(ev):
        i = first(ev, lambda e: e["cls"] == "err")
        if i is None:
            return None
        ev[i]["dg"] = "ffff" + ev[i]["dg"][4:]
        for j in range(i + 1, len(ev)):       # keep the chain consistent: only this step is wrong
            if ev[j].get("ev") == "cmd":
                ev[j]["pre"] = ev[i]["dg"]
                break
        return ev

    def line_dropped(ev):
        i = first(ev, lambda e: e["cls"] == "ok" and e["nchg"] > 0 and e["seq"] > 5)
        if i is None:
            return None
        del ev[i]
        return ev

    def foreign_added(ev):
        i = first(ev, lambda e: e["cls"] == "ok" and e["rw"] == "w" and e["seq"] > 5)
        if i is None:
            return None
        ev[i]["foreign"] = ["00ff"]
        return ev

    def died_inserted(ev):
        i = first(ev, lambda e: e["seq"] > 5)
        ev.insert(i, {"ev": "died", "seq": 0, "path": "client", "name": "x", "mut": "x", "args": [], "cause": "selftest",
                      "prev": [], "trig": ""})
        return ev

    def probe_reply(ev):
        i = first(ev, lambda e: e.get("probe") and e["cls"] == "ok")
        if i is None:
            return None
        ev[i]["r"] = "i:7"
        return ev
    return [("err-store-changed", err_changed), ("line-dropped", line_dropped), ("foreign-key", foreign_added),
            ("died-inserted", died_inserted), ("probe-reply", probe_reply)]


def model_run(ctx, module, cfg, tag, timeout, workers=None, coverage=False, heap="4g"):
    """Exhaustive TLC run of a design model; a run that ends without any verdict (JVM killed,
    machine overloaded) is retried once."""
    r = None
    for attempt in (1, 2):
        r = V.tlc(ctx, module, cfg, timeout=timeout, workers=workers, tag="%s-%d" % (tag, attempt), coverage=coverage, heap=heap)
        if r.ok or r.violated or r.timed_out:
            return r
        ctx.log("%s/%s ended without a verdict (attempt %d): %s" % (module, cfg, attempt, (r.error or r.out[-200:]).strip()[:200]))
    r.timed_out = True      # environmental: require_model_ok counts it as not run
    return r
