"""Helpers shared by C07 (determinism of apply) and C11 (robustness against client input).

Nothing in here judges: it runs the Go drivers, hands their traces to TLC and turns TLC's
MISMATCH lines into structural signatures for vcheck.report_failure.
"""
import json
import os

import vcheck as V

DRIVER_FILES = ["detlib.go", "detsim.go", "inputsim.go"]
BATCHABLE = {"set", "setex", "hmset", "del"}


def build(ctx):
    return V.go_build(ctx, files=[f for f in DRIVER_FILES
                                  if os.path.exists(os.path.join(V.VERIF, "harness", "cmd", "zrdrive", f))])


def summaries(out):
    res = []
    for l in out.splitlines():
        if l.startswith("SUMMARY "):
            try:
                res.append(json.loads(l[8:]))
            except ValueError:
                pass
    return res


def drive(ctx, zr, driver, name, args, parts, timeout=1800, prefix="t"):
    """Run one driver invocation; returns (summary dict or None, [trace files])."""
    d = ctx.sub("run-" + name)
    argv = [zr, driver, "-o", os.path.join(d, prefix), "-parts", str(parts)] + args
    for attempt in (1, 2):
        rc, out = V.run(ctx, argv, timeout=timeout, env={"ZR_SCRATCH": d})
        summ = summaries(out)
        if rc == 0 and summ:
            files = [os.path.join(d, "%s.%d.ndjson" % (prefix, i)) for i in range(parts)]
            files = [f for f in files if os.path.exists(f) and os.path.getsize(f) > 0]
            return summ[-1], files
        ctx.log("%s %s did not complete (rc=%s, attempt %d): %s" % (driver, name, rc, attempt, out[-400:]))
    ctx.skipped += 1
    return None, []


def validate(ctx, module, cfg, files, name, reset_ev, n=8, timeout=900):
    """TLC on every trace file.  Yields (file, events, [(line, expected, segment)...])."""
    def one(f):
        return f, V.validate_seq_trace(ctx, module, cfg, f, tag=name + "-" + os.path.basename(f).replace(".ndjson", ""),
                                       timeout=timeout)
    out = []
    for f, (consumed, mism, res) in V.parallel(one, files, n=n):
        if not consumed and not mism:
            # retry once (JVM start under load), then skip and count
            consumed, mism, res = V.validate_seq_trace(ctx, module, cfg, f, tag=name + "-retry", timeout=timeout)
            if not consumed and not mism:
                if res.timed_out:
                    ctx.log("TLC timed out on %s; skipped" % f)
                    ctx.skipped += 1
                    continue
                raise V.Inconclusive("trace validation of %s did not complete: %s" % (f, res.error or res.out[-400:]))
        events = V.read_ndjson(f)
        fails = []
        for line, exp in mism:
            s, seg = V.segment_of(events, line, reset_ev=reset_ev)
            fails.append((line, exp, seg))
        out.append((f, events, fails))
    return out


# ------------------------------------------------------------------ C07 signatures

def _names(logev):
    m = {}
    for s in logev.get("names", []):
        p = s.split(" ")
        m[int(p[0])] = (p[1], int(p[-1]))
    return m


def classify_det(seg, stage):
    """Signature of a failing ZDetTrace segment (seg[0] = log event, seg[-1] = failing line)."""
    logev, e = seg[0], seg[-1]
    runs = [x for x in seg if x.get("ev") == "run"]
    names = _names(logev)
    sig = {"stage": stage, "event": e.get("ev"), "kind": logev.get("kind", "").split(":")[0]}
    if e.get("ev") == "panic":
        sig["class"] = "panic"
        sig["cmd"] = names.get(e.get("idx"), ("?", 0))[0]
        return sig
    if sig["kind"] == "straddle":
        sig["class"] = "wallclock"
        sig["cmd"] = names.get(e.get("idx"), ("dump", 0))[0] if e.get("ev") == "reply" else "dump"
        return sig
    # did a batchable command fail in the apply handler in any run of this log?
    failing = set()
    for x in seg:
        if x.get("ev") == "reply" and str(x.get("r", "")).startswith("e:"):
            nm, argc = names.get(x["idx"], ("?", 0))
            if nm in BATCHABLE and not (nm == "del" and argc > 2):
                failing.add(nm)
    if failing:
        sig["class"] = "batch-abort"
        return sig
    if runs and runs[0].get("eng") != runs[-1].get("eng"):
        sig["class"] = "engine-diff"
        sig["engine"] = runs[-1].get("eng")
        return sig
    sig["class"] = "other"
    sig["restart"] = runs[-1].get("restart") if runs else ""
    return sig
