"""Shared plan of the data-model checks C08, C09, C10 (spec/ZKV.tla, harness smsim).

One family, three verdicts.  Every stage produces real traces (smsim drives the real state
machine) and TLC (spec/ZKVTrace.tla) decides each line.  A failing line is classified
structurally and belongs to exactly one property:
  early   - the local-deletion scan removed a key whose given expiry had not passed -> C10
  expiry involved (the touched record carries an expiry or pending expiry in the MODEL
          state, the command is an expiry command, the key was given an expiry earlier
          in the segment, or a compaction / scan ran just before the failing line) -> C10
  otherwise (reply, state, panic)                                             -> C08
  counts  - the pure C09 predicate is false on an observation line -> C09 in addition
          (the data then also differ from the model, so C08 or C10 names it as well)
A check reports (VIOLATION / KNOWN-FINDING) the failures of its own property; failures of
a sibling property seen in its corpus are printed as INFO and counted (the sibling's own
check, which runs the same generators, decides them).
"""
import json
import os
import random
import re
import shutil
import time

import vcheck as V

TYPES = ["kv", "h", "l", "s", "z", "b"]
LETTER = {"kv": "k", "h": "h", "l": "l", "s": "s", "z": "z", "b": "b"}
PREFIX_FREE_POOLS = [0, 6, 7]          # name pools the memory (radix) engine is run with
ALL_POOLS = [0, 1, 2, 3, 4, 5, 6, 7]
DRIVER_FILES = ["smsim.go"]
CHECKS = os.path.dirname(os.path.abspath(__file__))

_re_mis = re.compile(r'^"MISMATCH\|(\d+)\|(\w+)\|(\w+)\|(.*)"$')
_re_out = re.compile(r'^"OUTOFMODEL\|(\d+)"$')


def new_stats():
    return dict(events=0, segments=0, cmds=0, obs=0, mismatches=0, foreign=0, outofmodel=0,
                known=0, runs=[], graph_edges=0, graph_edges_replayed=0, scans=0, scan_gone=0,
                compactions=0, compaction_dropped=0, dead_met_by_write=0, expiry_met_by_write=0,
                expiry_met_by_read=0, panics=0, per_cmd={}, shrunk=[])


# ------------------------------------------------------------------ model side (A)

def model_stage(ctx, types, dup=False, theorems=True, workers=4, timeout=900):
    """Exhaustive TLC run of the per-type instances; returns {type: (TLCResult, dot path)}.
    The dumped graph is what smsim walks edge by edge."""
    out = {}

    def one(t):
        cfg = "MC_ZKV_%s%s.cfg" % (t, "_dup" if dup else "")
        dot = os.path.join(ctx.scratch, "g_%s%s.dot" % (t, "_dup" if dup else ""))
        files = None
        if not theorems:
            # same instance without the (expensive) state theorems: only the graph is wanted
            src = open(os.path.join(V.VERIF, "spec", cfg)).read()
            src = re.sub(r"(?m)^INVARIANTS.*$", "INVARIANTS TypeOK", src)
            p = os.path.join(ctx.scratch, "noinv_" + cfg)
            open(p, "w").write(src)
            files = {p: "noinv_" + cfg}
            cfg = "noinv_" + cfg
        r = V.tlc(ctx, "MC_ZKV", cfg, workers=workers, timeout=timeout, files=files,
                  extra=["-dump", "dot,actionlabels", dot], tag="mc-%s%s" % (t, "-dup" if dup else ""))
        return t, r, dot
    for t, r, dot in V.parallel(one, types, n=3):
        V.require_model_ok(ctx, r, "MC_ZKV_" + t)
        out[t] = (r, dot)
        ctx.log("model %s%s: %d distinct states, %d transitions, %.0fs" % (t, " (dup)" if dup else "", r.distinct, r.generated, r.wall))
    return out


# ------------------------------------------------------------------ failures

def _type_of(c):
    if c in ("rpush", "rpush2", "rpop"):
        return "l"
    if c in ("setbit", "getbit", "bitcount", "bitcount2", "bitclear", "bkeyexist", "bexpire", "bttl", "bpersist"):
        return "b"
    if c[0] in "hlz":
        return c[0]
    if c[0] == "s":
        return "k" if c in ("set", "setx", "setex", "setnx", "setrange", "strlen") else "s"
    return "k"


def _keys_of(e):
    c, a = e["c"], e.get("a", [])
    if c in ("exists2", "mget", "del2"):
        return [e["k"], a[0]]
    if c == "mset":
        return [e["k"], a[1]]
    return [e["k"]]


IMAX, IMAX1, IMIN = 2000000001, 2000000002, -2000000001


def _int_extreme(seg, e):
    """the delta is an int64 extreme, or the value the command met (its last observation) is one"""
    if any(x in (IMAX, IMIN) for x in e.get("a", [])):
        return True
    for x in reversed(seg[:-1]):
        if e["c"] == "hincrby":
            if x.get("ev") == "obs_h" and x["k"] == e["k"]:
                return any(f == e["a"][0] and len(v) >= 19 for f, v in x["fv"])
        elif x.get("ev") == "obs_k" and x["k"] == e["k"]:
            return len(x["get"]) >= 20
    return False


def _expire_extreme(seg, ty, keys):
    """an expire-family command with the duration code IMAX on the failing key earlier in (or at the end of) the segment"""
    for x in seg:
        if x.get("ev") == "cmd" and x["c"] in ("expire", "hexpire", "lexpire", "sexpire", "zexpire", "setex") \
                and x.get("a", [0])[0] == IMAX and _type_of(x["c"]) == ty and (set(_keys_of(x)) & set(keys)):
            return True
    return False


def _bitmap_over_string(seg, keys):
    """a string write and a SETBIT on the failing key in this segment (legacy bitmap conversion)"""
    sw = sb = False
    for x in seg:
        if x.get("ev") in ("cmd", "panic") and "c" in x and (set(_keys_of(x)) & set(keys)):
            if x["c"] == "setbit":
                sb = True
            elif _type_of(x["c"]) == "k" and x["c"] not in ("get", "strlen", "exists", "exists2", "mget", "getrange", "ttl"):
                sw = True
    return sw and sb


def _noncanon(v):
    """symbols of a decimal numeral with a leading zero (01, -0, -01)"""
    if len(v) >= 2 and v[0] == 11:
        v = v[1:]
        return all(0 <= x <= 9 for x in v) and v[0] == 0
    return len(v) > 1 and all(0 <= x <= 9 for x in v) and v[0] == 0


def _noncanon_before(seg, e):
    """was the value the failing INCR-like command met (last observation of it) a non-canonical numeral ?"""
    for x in reversed(seg[:-1]):
        if e["c"] == "hincrby":
            if x.get("ev") == "obs_h" and x["k"] == e["k"]:
                for f, v in x["fv"]:
                    if f == e["a"][0]:
                        return _noncanon(v)
                return False
        elif x.get("ev") == "obs_k" and x["k"] == e["k"]:
            return x["get"][:1] == [3] and _noncanon(x["get"][1:])
    return False


def classify(seg, cls, expinv):
    """Structural signature of a failing segment (its last event is the failing line)."""
    e = seg[-1]
    ev = e.get("ev")
    sig = {"class": cls, "trigger": "none"}
    # the (type, key) the failing line is about
    if ev == "cmd" or (ev == "panic" and "c" in e):
        ty, keys = _type_of(e["c"]), _keys_of(e)
        sig["cmd"] = e["c"]
    elif ev.startswith("obs_"):
        ty, keys = ev[4:], [e["k"]]
        j = len(seg) - 2
        while j >= 0 and seg[j].get("ev") != "cmd":
            j -= 1
        sig["cmd"] = seg[j]["c"] if j >= 0 else ""
    else:
        ty, keys = "", []
        sig["cmd"] = ev
    if ev == "cmd" and e["c"] == "bitcount2":
        sig["trigger"] = "bitcount-range"
    elif ty in ("b", "k") and keys and _bitmap_over_string(seg, keys):
        sig["trigger"] = "bitmap-over-string"
    elif ev == "cmd" and e["c"] in ("decr", "decrby") and e.get("r") == [4]:
        sig["trigger"] = "decr-unregistered"
    elif ev == "cmd" and e["c"] in ("incr", "incrby", "hincrby") and e.get("r", [0])[0] == 1 and _int_extreme(seg, e):
        # an increment at the int64 extremes answered a (wrapped) integer
        sig["trigger"] = "int64-overflow"
    elif _expire_extreme(seg, ty, keys):
        sig["trigger"] = "expire-duration-overflow"
    elif ev == "cmd" and e["c"] in ("incr", "incrby", "hincrby") and e.get("r", [0])[0] == 1 and _noncanon_before(seg, e):
        # the store accepted a numeral with leading zeros that Redis rejects
        sig["trigger"] = "noncanonical-numeral"
    else:
        # two earlier writes on the failing key carrying the same nanosecond timestamp
        seen = set()
        for x in seg:       # the failing command itself counts: it may be the re-creation
            if x.get("ev") != "cmd" or "ns" not in x:
                continue
            if _type_of(x["c"]) != ty or not (set(_keys_of(x)) & set(keys)):
                continue
            stamp = (x["t"], x["ns"])
            if stamp in seen:
                sig["trigger"] = "equal-ns-same-key"
                break
            seen.add(stamp)
    # expiry is involved if TLC says so from the model state, or if the failing key was ever given an
    # expiry earlier in this segment (e.g. GETSET that failed to clear it: the model record has none)
    if not expinv and keys:
        for x in seg:
            if x.get("ev") == "cmd" and _type_of(x["c"]) == ty and (set(_keys_of(x)) & set(keys)):
                if x["c"] in ("setex", "expire", "hexpire", "lexpire", "sexpire", "zexpire") or (x["c"] == "setx" and x["a"][1] > 0):
                    expinv = True
                    break
    # background work (simulated compaction / local-deletion scan) between the last command and the
    # failing observation: whatever got lost, got lost by expiry machinery
    j = len(seg) - 2
    while j >= 0 and seg[j].get("ev") != "cmd":
        if seg[j].get("ev") in ("compact", "scan"):
            expinv = True
        j -= 1
    sig["expiry"] = bool(expinv)
    # C08 and C10 partition the failures by "expiry involved"; a false C09 predicate ("counts") is
    # in addition a C09 failure (the data also differ from the model, so C08 / C10 name it too)
    if cls == "early" or expinv:
        prop = "C10"
    else:
        prop = "C08"
    if cls == "counts":
        prop = prop + "+C09"
    if sig["trigger"] == "equal-ns-same-key":
        # the recorded finding is filed under C10 (also C09, C08): let the check that sees it name it
        prop = "known-any"
    return prop, sig


def _script_of(seg):
    out = [{"ev": "reset"}]
    for e in seg:
        if e.get("ev") == "cmd":
            out.append({"ev": "cmd", "c": e["c"], "k": e["k"], "a": e.get("a", []), "t": e.get("t", 0), "p": e.get("p", 0),
                        "g": e.get("g", 0)})
        elif e.get("ev") in ("scan", "compact"):
            out.append({"ev": e["ev"]})
    return out


def validate_file(ctx, path, policy, tag, timeout=1200, module="ZKVTrace", cfg=None):
    """TLC on one trace part -> (ok, [(line, class, expinv, expected)], [outofmodel lines], TLCResult)"""
    res = V.tlc(ctx, module, cfg or "ZKVTrace_%s.cfg" % policy, workers=1, timeout=timeout,
                env={"ZR_TRACE": path}, tag=tag, heap="3g")
    mism, oom = [], []
    for line in res.out.splitlines():
        m = _re_mis.match(line.strip())
        if m:
            mism.append((int(m.group(1)), m.group(2), m.group(3) == "TRUE", m.group(4)))
            continue
        m = _re_out.match(line.strip())
        if m:
            oom.append(int(m.group(1)))
    return res.ok, mism, oom, res


def run_driver(ctx, zr, d, args, timeout=3600):
    rc, out = V.run(ctx, [zr, "smsim"] + args, timeout=timeout, env={"ZR_SCRATCH": d})
    summ = [json.loads(l[8:]) for l in out.splitlines() if l.startswith("SUMMARY ")]
    return rc, out, summ


def shrink(ctx, zr, seg, sig, base_args, policy, budget_s=90):
    """Delta debugging over the command list of a failing segment: re-execute on the real store,
    re-validate with TLC, keep a sub-list if it still fails with the same class and command."""
    script = _script_of(seg)[1:]
    t0 = time.time()
    d = ctx.sub("shrink-%d" % (ctx._nrep + 1))
    n_try = [0]

    def fails(cmds):
        n_try[0] += 1
        sp = os.path.join(d, "s%d.ndjson" % n_try[0])
        V.write_ndjson(sp, [{"ev": "reset"}] + cmds)
        op = os.path.join(d, "o%d" % n_try[0])
        rc, out, summ = run_driver(ctx, zr, d, base_args + ["-script", sp, "-o", op, "-parts", "1"], timeout=120)
        tp = op + ".0.ndjson"
        if rc != 0 or not os.path.exists(tp):
            return None
        ok, mism, oom, res = validate_file(ctx, tp, policy, "shrink-%d-%d" % (ctx._nrep + 1, n_try[0]), timeout=120)
        if not mism:
            return None
        ev = V.read_ndjson(tp)
        line, cls, expinv, exp = mism[0]
        _, s2 = classify(ev[:line], cls, expinv)
        if s2.get("class") == sig.get("class") and s2.get("cmd") == sig.get("cmd"):
            return tp
        return None
    best, best_trace = script, None
    n = 2
    while len(best) >= 2 and time.time() - t0 < budget_s:
        chunk = max(1, len(best) // n)
        reduced = False
        for i in range(0, len(best), chunk):
            if time.time() - t0 > budget_s:
                break
            cand = best[:i] + best[i + chunk:]
            if not cand:
                continue
            tp = fails(cand)
            if tp:
                best, best_trace, reduced = cand, tp, True
                n = max(n - 1, 2)
                break
        if not reduced:
            if chunk == 1:
                break
            n = min(n * 2, len(best))
    return best, best_trace, n_try[0]


def drive_and_validate(ctx, zr, name, args, policy, stats, samples, parts=6, strict=True, do_shrink=True,
                       val_timeout=1500):
    """One smsim run + TLC validation of all its parts.  strict=False: informational only."""
    d = ctx.sub("run-" + name)
    base = [a for a in args]
    rc, out, summ = run_driver(ctx, zr, d, base + ["-o", os.path.join(d, "t"), "-parts", str(parts)])
    if rc != 0 or not summ:
        ctx.log("smsim %s did not complete (rc=%s): %s" % (name, rc, out[-400:]))
        ctx.skipped += 1
        return
    s = summ[0]
    st = s["stats"]
    files = [os.path.join(d, "t.%d.ndjson" % i) for i in range(parts)]
    files = [f for f in files if os.path.exists(f) and os.path.getsize(f) > 0]

    def one(f):
        return f, validate_file(ctx, f, policy, name + "-" + os.path.basename(f).split(".")[1], timeout=val_timeout)
    nfail = 0
    for f, (ok, mism, oom, res) in V.parallel(one, files, n=6):
        events = V.read_ndjson(f)
        if not ok and not mism:
            if res.timed_out:
                ctx.log("TLC timed out on %s; skipped" % f)
                ctx.skipped += 1
                continue
            raise V.Inconclusive("trace validation of %s did not complete: %s" % (f, res.error or res.out[-600:]))
        stats["events"] += len(events)
        stats["segments"] += sum(1 for e in events if e.get("ev") == "reset")
        stats["outofmodel"] += len(oom)
        if len(samples) < 2 and len(events) > 30:
            samples.append({"run": name, "excerpt": events[1:7]})
        for line, cls, expinv, exp in mism:
            s0, seg = V.segment_of(events, line)
            prop, sig = classify(seg, cls, expinv)
            sig.update(engine=s["engine"], policy=s["policy"])
            what = "%s %s/%s %s line %d: real %s ; ZKV expects %s" % (
                name, s["engine"], s["policy"], os.path.basename(f), line,
                json.dumps(seg[-1], sort_keys=True)[:500], exp[:300])
            stats["mismatches"] += 1
            if ctx.prop not in prop.split("+") and prop != "known-any":
                stats["foreign"] += 1
                if stats["foreign"] <= 5:
                    print("INFO foreign-mismatch (decided by check %s, not a verdict of %s): %s" % (prop, ctx.prop, what[:400]), flush=True)
                continue
            if not strict:
                print("INFO (not a verdict): " + what[:300])
                continue
            known = V.match_known(ctx.prop, sig)
            if prop == "known-any" and known is None:
                # an equal-timestamp collision signature that is not (any longer) a recorded open
                # finding of this property: it belongs to the check whose class it is
                prop2 = ("C10" if (sig.get("expiry") or cls == "early") else "C08") + ("+C09" if cls == "counts" else "")
                if ctx.prop not in prop2.split("+"):
                    stats["foreign"] += 1
                    continue
            nfail += 1
            segf = os.path.join(d, "fail-%s-%d.ndjson" % (os.path.basename(f), line))
            V.write_ndjson(segf, seg)
            scriptf = os.path.join(d, "script-%s-%d.ndjson" % (os.path.basename(f), line))
            V.write_ndjson(scriptf, _script_of(seg))
            bundle = [segf, scriptf]
            rerun = list(base)
            # strip the generator flags, keep the execution conditions
            keep, skip = [], 0
            gen_flags = {"-dot": 1, "-random": 1, "-len": 1, "-limit": 1, "-script": 1, "-gtype": 1, "-compact": 1, "-scan": 1,
                         "-types": 1, "-window": 1, "-maxt": 1, "-group": 1, "-maxrun": 1, "-savescript": 1}
            i = 0
            while i < len(rerun):
                a = rerun[i]
                if a in gen_flags:
                    i += 1 + gen_flags[a]
                    continue
                if a.startswith("-expiry") or a.startswith("-dup") or a.startswith("-full"):
                    i += 1
                    continue
                keep.append(a)
                i += 1
            if known is None and do_shrink and nfail <= 2 and seg[-1].get("ev") != "scan":
                try:
                    best, best_trace, tries = shrink(ctx, zr, seg, sig, keep, policy)
                    if best_trace:
                        sf = os.path.join(d, "shrunk-%s-%d.ndjson" % (os.path.basename(f), line))
                        V.write_ndjson(sf, [{"ev": "reset"}] + best)
                        bundle += [sf, best_trace]
                        stats["shrunk"].append({"from": len(_script_of(seg)) - 1, "to": len(best), "tries": tries})
                        what += " ; shrunk to %d commands: %s" % (len(best), json.dumps(best)[:600])
                except Exception as ex:          # shrinking is a convenience, never a verdict
                    ctx.notes.append("shrinking failed: %r" % ex)
            if known is not None:
                stats["known"] += 1
            V.report_failure(ctx, sig, what, files=bundle,
                             script={"smsim": keep, "replay": "zrdrive smsim <smsim args> -script script-*.ndjson -o out -parts 1 ; "
                                                             "ZR_TRACE=out.0.ndjson tlc -config ZKVTrace_%s.cfg ZKVTrace" % policy})
    for k_src, k_dst in (("Cmds", "cmds"), ("Obs", "obs"), ("Scans", "scans"), ("ScanGone", "scan_gone"),
                         ("Compactions", "compactions"), ("Dropped", "compaction_dropped"),
                         ("DeadMetByWrite", "dead_met_by_write"), ("ExpiryMetByWrite", "expiry_met_by_write"),
                         ("ExpiryMetByRead", "expiry_met_by_read"), ("Panics", "panics")):
        stats[k_dst] += st.get(k_src, 0)
    for c, n in (st.get("PerCmd") or {}).items():
        stats["per_cmd"][c] = stats["per_cmd"].get(c, 0) + n
    if s.get("mode") == "graph":
        stats["graph_edges"] += s["edges"]
        stats["graph_edges_replayed"] += s["edges_covered"]
    ctx.log("%s: %d commands, %d observation lines, %d segments validated" % (name, st["Cmds"], st["Obs"], st["Segments"]))
    stats["runs"].append(dict(name=name, mode=s["mode"], engine=s["engine"], policy=s["policy"], pool=s["pool"],
                              cmds=st["Cmds"], obs=st["Obs"], segments=st["Segments"], edges=s["edges"],
                              edges_covered=s["edges_covered"]))


# ------------------------------------------------------------------ big collections, spec mutants

def big_stage(ctx, zr, stats, samples, configs, n=5200):
    """Collections of more than 5000 elements (RangeDeleteNum / MAX_BATCH_NUM): LTRIM, the clears and
    ZREMRANGEBY* take other code paths there.  spec/ZBigTrace.tla (interval model + pure C09 predicate
    on counts-only observation lines) decides."""
    for cfg in configs:
        eng, pol = cfg[0], cfg[1]
        idx = len(cfg) > 2 and cfg[2]
        # idx: a secondary hash index is registered on the table first (clears / deletes of indexed tables
        # walk the fields instead of range-deleting them)
        name = "big-%s-%s%s" % (eng, pol, "-idx" if idx else "")
        d = ctx.sub("run-" + name)
        rc, out, summ = run_driver(ctx, zr, d, ["-eng", eng, "-policy", pol, "-big", str(n), "-seed", str(ctx.seed),
                                                "-o", os.path.join(d, "t"), "-parts", "1"] + (["-bigindex"] if idx else []), timeout=900)
        f = os.path.join(d, "t.0.ndjson")
        if rc != 0 or not summ or not os.path.exists(f):
            ctx.log("smsim %s did not complete (rc=%s): %s" % (name, rc, out[-300:]))
            ctx.skipped += 1
            continue
        ok, mism, oom, res = validate_file(ctx, f, pol, name, timeout=600, module="ZBigTrace", cfg="ZBigTrace.cfg")
        events = V.read_ndjson(f)
        if not ok and not mism:
            if res.timed_out:
                ctx.skipped += 1
                continue
            raise V.Inconclusive("trace validation of %s did not complete: %s" % (f, res.error or res.out[-600:]))
        stats["events"] += len(events)
        stats["segments"] += sum(1 for e in events if e.get("ev") == "reset")
        stats["outofmodel"] += len(oom)
        stats["cmds"] += summ[0]["stats"]["Cmds"]
        stats["obs"] += summ[0]["stats"]["Obs"]
        stats["runs"].append(dict(name=name, mode="big", engine=eng, policy=pol, elements=n, cmds=summ[0]["stats"]["Cmds"],
                                  obs=summ[0]["stats"]["Obs"], segments=summ[0]["stats"]["Segments"]))
        for line, cls, expinv, exp in mism:
            s0, seg = V.segment_of(events, line)
            prop = "C08+C09" if cls == "counts" else "C08"
            stats["mismatches"] += 1
            what = "%s line %d: real %s ; ZBigTrace expects %s ; segment: %s" % (
                name, line, json.dumps(seg[-1], sort_keys=True)[:400], exp[:200],
                json.dumps([e for e in seg if e.get("ev") == "bop"])[:300])
            if ctx.prop not in prop.split("+"):
                stats["foreign"] += 1
                print("INFO foreign-mismatch (decided by check %s): %s" % (prop, what[:300]), flush=True)
                continue
            segf = os.path.join(d, "fail-%d.ndjson" % line)
            V.write_ndjson(segf, seg)
            sig = {"class": cls, "trigger": "none", "cmd": "big-" + str(seg[-1].get("op") or seg[-1].get("ev")),
                   "engine": eng, "policy": pol, "expiry": False}
            V.report_failure(ctx, sig, what, files=[segf],
                             script={"replay": "zrdrive smsim -eng %s -policy %s -big %d%s -o out -parts 1 ; ZR_TRACE=out.0.ndjson "
                                               "tlc -config ZBigTrace.cfg ZBigTrace" % (eng, pol, n, " -bigindex" if idx else "")})


SPEC_MUTANTS = [("overwrite_keeps_expiry", "OverwriteClearsExpiry"), ("modify_clears_expiry", "ModifyKeepsExpiry"),
                ("recreate_keeps_members", "NewGenerationIsEmpty"), ("count_ignores_expiry", "CountsAgree"),
                ("expired_visible", "ExpiredIsDead")]


def spec_mutants(ctx):
    """Each MC_ZKV_mut_<rule>.cfg removes one rule of ZKV (constant Mut); TLC must refute the theorem that
    states the rule.  A mutant that passes means the theorems do not bite: a broken specification."""
    out = {}

    def one(m):
        name, inv = m
        r = V.tlc(ctx, "MC_ZKV", "MC_ZKV_mut_%s.cfg" % name, workers=2, timeout=600, tag="mut-" + name)
        return name, inv, r
    for name, inv, r in V.parallel(one, SPEC_MUTANTS, n=5):
        if r.timed_out:
            ctx.skipped += 1
            out[name] = "timeout"
            continue
        if r.violated != inv:
            raise V.Inconclusive("spec mutant %s was not refuted by %s (TLC: ok=%s violated=%s error=%s)" % (
                name, inv, r.ok, r.violated, (r.error or "")[:200]))
        out[name] = "refuted by " + inv
    return out


# ------------------------------------------------------------------ the plan

def corrupt_selftest(ctx, zr, stats):
    """Binding self-test (DESIGN 4.5a): a good trace with one corrupted reply, one corrupted
    observation and one dropped write line must be rejected at exactly those places."""
    d = ctx.sub("selftest")
    rc, out, summ = run_driver(ctx, zr, d, ["-eng", "pebble", "-policy", "wc", "-seed", str(ctx.seed), "-random", "3", "-len", "60",
                                             "-nk", "2", "-ns", "3", "-o", os.path.join(d, "g"), "-parts", "1"])
    f = os.path.join(d, "g.0.ndjson")
    if rc != 0 or not os.path.exists(f):
        ctx.skipped += 1
        return None
    ev = V.read_ndjson(f)
    ok, mism, oom, res = validate_file(ctx, f, "wc", "selftest-good", timeout=300)
    if not ok or mism:
        return None            # the general corpus reports such a failure itself
    rnd = random.Random(ctx.seed)
    results = {}
    # (1) corrupt one integer reply
    idx = [i for i, e in enumerate(ev) if e.get("ev") == "cmd" and e["r"][:1] == [1]]
    i = rnd.choice(idx)
    bad = json.loads(json.dumps(ev))
    bad[i]["r"][1] += 1
    p = os.path.join(d, "bad1.ndjson")
    V.write_ndjson(p, bad)
    ok, mism, _, _ = validate_file(ctx, p, "wc", "selftest-bad1", timeout=300)
    results["corrupted_reply_rejected"] = bool(mism) and mism[0][0] == i + 1
    # (2) corrupt the count of one observation
    idx = [i for i, e in enumerate(ev) if e.get("ev") in ("obs_h", "obs_s", "obs_l", "obs_z")]
    i = rnd.choice(idx)
    bad = json.loads(json.dumps(ev))
    bad[i]["n"] += 1
    p = os.path.join(d, "bad2.ndjson")
    V.write_ndjson(p, bad)
    ok, mism, _, _ = validate_file(ctx, p, "wc", "selftest-bad2", timeout=300)
    results["corrupted_count_rejected"] = bool(mism) and mism[0][0] == i + 1 and mism[0][1] == "counts"
    # (3) drop a write that changed something: a later line must disagree
    idx = [i for i, e in enumerate(ev) if e.get("ev") == "cmd" and e["c"] in ("hset", "sadd", "rpush", "zadd", "set") and e["r"] in ([1, 1], [2])]
    if idx:
        i = rnd.choice(idx)
        bad = ev[:i] + ev[i + 1:]
        p = os.path.join(d, "bad3.ndjson")
        V.write_ndjson(p, bad)
        ok, mism, _, _ = validate_file(ctx, p, "wc", "selftest-bad3", timeout=300)
        results["dropped_write_rejected"] = bool(mism)
    if not all(results.values()):
        raise V.Inconclusive("binding self-test failed: %r" % results)
    return results


def run_family(ctx, prop):
    """The stage plan.  prop in C08 | C09 | C10 shifts the emphasis; the machinery is shared."""
    rnd = random.Random(ctx.seed * 7919 + {"C08": 1, "C09": 2, "C10": 3}[prop])
    zr = V.go_build(ctx, files=DRIVER_FILES)
    stats = new_stats()
    samples = []
    seed = str(ctx.seed)
    quick = ctx.quick()
    # development knob: run the thorough plan (all types, all configurations, self-test) at quick sizes
    smoke = bool(os.environ.get("VERIF_KV_SMOKE")) and not quick

    # ---- (A) model: exhaustive per-type instances + theorems; graphs for the walks
    rot = (ctx.seed + {"C08": 0, "C09": 2, "C10": 3}[prop]) % 6
    if quick:
        gtypes = [TYPES[rot], TYPES[(rot + 1 + (ctx.seed // 6) % 3) % 6]]
        if gtypes[0] == gtypes[1]:
            gtypes[1] = TYPES[(rot + 1) % 6]
    else:
        gtypes = list(TYPES)
    dup = (prop == "C09")      # C09 walks the instance in which commands may repeat a member
    models = model_stage(ctx, gtypes, dup=dup, theorems=True, workers=4 if quick else 6, timeout=600 if quick else 1800)
    mstates = sum(r.distinct for r, _ in models.values())
    mtrans = sum(r.generated for r, _ in models.values())
    ld_model = None
    if prop == "C10":
        ld_model = V.tlc(ctx, "MC_ZKV", "MC_ZKV_ld.cfg", workers=4, timeout=600, tag="mc-ld")
        V.require_model_ok(ctx, ld_model, "MC_ZKV_ld")
        mstates += ld_model.distinct
        mtrans += ld_model.generated

    # ---- (B) conformance
    pool = rnd.choice(ALL_POOLS)
    mpool = rnd.choice(PREFIX_FREE_POOLS)
    glimit = ("5000" if prop == "C08" else "4000") if quick else ("1500" if smoke else "0")
    g2limit = "1500" if smoke else "30000"
    # thorough: every edge of the h, l and s graphs; the two big graphs (kv, z: ~300 000 edges each) are
    # covered by a seeded walk of 120 000 steps per run (different edges for different seeds)
    big_graph_limit = "120000"
    for t in gtypes:
        r, dot = models[t]
        if not (r.ok and os.path.exists(dot)):
            continue
        # pebble / wait_compact: the primary configuration, reader's clock inside the window
        drive_and_validate(ctx, zr, "graph-%s-pebble-wc" % t,
                           ["-eng", "pebble", "-policy", "wc", "-dot", dot, "-gtype", LETTER[t], "-seed", seed, "-pool", str(pool),
                            "-limit", glimit if (quick or smoke or t not in ("kv", "z")) else big_graph_limit,
                            "-nk", "2", "-ns", "2", "-nowtick", "2"], "wc", stats, samples,
                           parts=6 if quick else 12)
        if not quick:
            drive_and_validate(ctx, zr, "graph-%s-mem-wc" % t,
                               ["-eng", "mem", "-policy", "wc", "-dot", dot, "-gtype", LETTER[t], "-seed", seed, "-pool", str(mpool),
                                "-limit", g2limit, "-nk", "2", "-ns", "2", "-nowtick", "5"], "wc", stats, samples, parts=8)
            drive_and_validate(ctx, zr, "graph-%s-pebble-ld" % t,
                               ["-eng", "pebble", "-policy", "ld", "-dot", dot, "-gtype", LETTER[t], "-seed", seed,
                                "-pool", str((pool + 1) % 8), "-limit", g2limit, "-nk", "2", "-ns", "2", "-nowtick", "2"],
                               "ld", stats, samples, parts=8)
    nw = 1 if (quick or smoke) else 8

    def R(x):       # number of random walks of a stage (C09 / C10 run more stages: a bit smaller each in quick)
        return str(max(2, int(x * nw * (0.6 if (quick and prop != "C08") else 1))))
    if prop == "C08":
        walks = [
            ("rand-pebble-wc-noexp", "wc", ["-eng", "pebble", "-policy", "wc", "-random", R(30), "-len", "200", "-expiry=false", "-dup",
                                            "-group", "3", "-pool", str((pool + 2) % 8), "-nowtick", "5"]),
            ("rand-pebble-wc", "wc", ["-eng", "pebble", "-policy", "wc", "-random", R(20), "-len", "300", "-dup", "-group", "2",
                                      "-pool", str((pool + 3) % 8), "-nowtick", "20"]),
            ("rand-mem-wc", "wc", ["-eng", "mem", "-policy", "wc", "-random", R(20), "-len", "200", "-dup", "-group", "3",
                                   "-pool", str(mpool), "-nowtick", "41"]),
            ("rand-pebble-ld", "ld", ["-eng", "pebble", "-policy", "ld", "-random", R(15), "-len", "200", "-dup", "-expiry=false",
                                      "-pool", str((pool + 4) % 8), "-nowtick", "12"]),
        ]
    elif prop == "C09":
        walks = [
            ("rand-pebble-wc-dup", "wc", ["-eng", "pebble", "-policy", "wc", "-random", R(30), "-len", "250", "-dup", "-group", "3",
                                          "-types", "hlsz", "-pool", str((pool + 2) % 8), "-nowtick", "20", "-obsall", "4"]),
            ("rand-pebble-wc-compact", "wc", ["-eng", "pebble", "-policy", "wc", "-random", R(15), "-len", "300", "-dup", "-compact", "5",
                                              "-types", "hlsz", "-pool", str((pool + 5) % 8), "-nowtick", "41", "-obsall", "4"]),
            ("rand-mem-wc-dup", "wc", ["-eng", "mem", "-policy", "wc", "-random", R(20), "-len", "250", "-dup", "-group", "3",
                                       "-types", "hlsz", "-pool", str(mpool), "-nowtick", "20", "-obsall", "4"]),
            ("rand-pebble-ld-scan", "ld", ["-eng", "pebble", "-policy", "ld", "-random", R(15), "-len", "200", "-dup", "-scan", "5",
                                           "-types", "hlsz", "-pool", str((pool + 4) % 8), "-nowtick", "12", "-obsall", "4"]),
        ]
    else:
        walks = [
            # reader's clock after every log time (the realistic placement), compaction between commands
            ("rand-pebble-wc-compact", "wc", ["-eng", "pebble", "-policy", "wc", "-random", R(25), "-len", "300", "-dup", "-compact", "6",
                                              "-pool", str((pool + 2) % 8), "-nowtick", "41"]),
            # reader's clock in the middle of the walk: reads see some expiries passed, some not
            ("rand-pebble-wc-mid", "wc", ["-eng", "pebble", "-policy", "wc", "-random", R(20), "-len", "300", "-group", "2",
                                          "-pool", str((pool + 3) % 8), "-nowtick", "20"]),
            # small window: same tick / exactly at / one ns before an expiry instant, many times
            ("rand-pebble-wc-window", "wc", ["-eng", "pebble", "-policy", "wc", "-random", R(25), "-len", "150", "-window", "4",
                                             "-nk", "2", "-ns", "2", "-pool", str((pool + 6) % 8), "-nowtick", "2"]),
            ("rand-mem-wc-compact", "wc", ["-eng", "mem", "-policy", "wc", "-random", R(15), "-len", "300", "-compact", "6",
                                           "-pool", str(mpool), "-nowtick", "41"]),
            ("rand-pebble-ld-scan", "ld", ["-eng", "pebble", "-policy", "ld", "-random", R(20), "-len", "250", "-scan", "8",
                                           "-pool", str((pool + 4) % 8), "-nowtick", "12"]),
            # the memory engine's write batch holds the engine-wide writer from its first operation
            # (recorded finding C12-mem-expiry-pass-deadlock): no local-deletion scan on mem
            ("rand-mem-ld", "ld", ["-eng", "mem", "-policy", "ld", "-random", R(10), "-len", "200",
                                   "-pool", str(mpool), "-nowtick", "12"]),
        ]
    # range reads (LIMIT offset count with every small offset and negative / zero / large counts, index ranges) dense
    if prop == "C08":
        walks.append(("rand-pebble-wc-ranges", "wc", ["-eng", "pebble", "-policy", "wc", "-random", R(15), "-len", "200", "-types", "zl",
                                                      "-expiry=false", "-dup", "-nk", "2", "-pool", str((pool + 5) % 8), "-nowtick", "5"]))
    # bitmaps: a keyspace of their own (no string under the same key: finding kv-bitmap-legacy-conversion)
    walks.append(("rand-pebble-wc-bitmap", "wc", ["-eng", "pebble", "-policy", "wc", "-random", R(12), "-len", "200", "-types", "b",
                                                  "-group", "2", "-nk", "2", "-pool", str((pool + 1) % 8), "-nowtick", "20"]))
    if not quick:
        walks.append(("rand-mem-wc-bitmap", "wc", ["-eng", "mem", "-policy", "wc", "-random", R(8), "-len", "200", "-types", "b",
                                                   "-nk", "2", "-pool", str(mpool), "-nowtick", "41", "-compact", "5"]))
        walks.append(("rand-pebble-ld-bitmap", "ld", ["-eng", "pebble", "-policy", "ld", "-random", R(8), "-len", "200", "-types", "b",
                                                      "-nk", "2", "-pool", str(pool), "-nowtick", "12", "-scan", "5"]))
    # several commands (also on the SAME key) applied as one raft entry: the apply loop shares one
    # write batch among set/setex/del/hmset and must cut it before a key is touched twice
    walks.append(("rand-pebble-wc-batch", "wc", ["-eng", "pebble", "-policy", "wc", "-random", R(20), "-len", "200", "-dup",
                                                 "-cmds", "set,setex,del,hmset,hset,hdel,append,setnx,hclear,expire,incr,del2,mset",
                                                 "-group", "4", "-nk", "2", "-ns", "2", "-pool", str((pool + 7) % 8), "-nowtick", "20"]))
    for name, pol, a in walks:
        a = list(a)
        if "-nk" not in a:
            a += ["-nk", "3"]
        if "-ns" not in a:
            a += ["-ns", "4"]
        drive_and_validate(ctx, zr, name, a + ["-seed", seed], pol, stats, samples, parts=4 if quick else 10)

    # ---- regression script: the triggers of the repaired findings, fully strict
    # pebble: always pool 1 (it has the EMPTY field/member name and prefix-related keys)
    for eng, pl in (("pebble", "1"), ("mem", str(mpool))):
        drive_and_validate(ctx, zr, "regress-" + eng,
                           ["-eng", eng, "-policy", "wc", "-script", os.path.join(CHECKS, "kv_regress.ndjson"), "-seed", seed,
                            "-pool", pl, "-nk", "2", "-ns", "3", "-nowtick", "2", "-obsall", "3"], "wc", stats, samples, parts=1)

    # ---- re-creation: every command that can create a key x every way of emptying / clearing / expiring it x every
    # creating command again (other member): the new generation must be empty.  State-graph walks do not force this
    # history (the state after a clear IS the initial state, its edges are mostly taken from there).
    for eng, pol, pl in ((("pebble", "wc", str(pool)), ("pebble", "ld", str(pool))) if quick
                         else (("pebble", "wc", str(pool)), ("pebble", "ld", str(pool)), ("mem", "wc", str(mpool)))):
        drive_and_validate(ctx, zr, "recreate-%s-%s" % (eng, pol),
                           ["-eng", eng, "-policy", pol, "-script", os.path.join(CHECKS, "kv_recreate.ndjson"), "-seed", seed,
                            "-pool", pl, "-nk", "1", "-ns", "3", "-nowtick", "5", "-obsall", "0"], pol, stats, samples, parts=2)

    # ---- numeric extremes (int64 min/max values, deltas, durations, indexes) as a script: fully strict
    # except for the recorded findings kv-incr-overflow-wraps / kv-expire-duration-overflow
    for eng, pol, pl in ((("pebble", "wc", "1"), ("mem", "wc", str(mpool)), ("pebble", "ld", str(pool))) if prop != "C09" else ()):
        drive_and_validate(ctx, zr, "extremes-%s-%s" % (eng, pol),
                           ["-eng", eng, "-policy", pol, "-script", os.path.join(CHECKS, "kv_extremes.ndjson"), "-seed", seed,
                            "-pool", pl, "-nk", "2", "-ns", "3", "-nowtick", "2"], pol, stats, samples, parts=1, do_shrink=False)
        if pol == "wc":
            # expire durations near int64 max: value-header policy only (under local deletion the repository's own
            # tests give random 63-bit durations and expect success)
            drive_and_validate(ctx, zr, "extremes-expire-%s-%s" % (eng, pol),
                               ["-eng", eng, "-policy", pol, "-script", os.path.join(CHECKS, "kv_extremes_expire.ndjson"), "-seed", seed,
                                "-pool", pl, "-nk", "2", "-ns", "3", "-nowtick", "2"], pol, stats, samples, parts=1, do_shrink=False)

    # ---- isolate stages of the recorded (open) findings of this family
    if prop in ("C09", "C10"):
        drive_and_validate(ctx, zr, "isolate-equalns",
                           ["-eng", "pebble", "-policy", "wc", "-random", "40" if quick else "300", "-len", "80", "-types", "hlsz",
                            "-nk", "1", "-ns", "3", "-equalns", "-window", "3", "-nowtick", "1", "-seed", seed, "-pool", str(pool)],
                           "wc", stats, samples, parts=2, do_shrink=False)
    if prop in ("C08", "C10"):
        # legacy bitmap layout (a string read / adopted as a bitmap): recorded finding under wait_compact,
        # fully strict under local deletion
        for pol in ("wc", "ld"):
            drive_and_validate(ctx, zr, "isolate-bitmap-legacy-" + pol,
                               ["-eng", "pebble", "-policy", pol, "-script", os.path.join(CHECKS, "kv_isolate_bitmap_legacy.ndjson"),
                                "-seed", seed, "-nk", "2", "-ns", "2", "-pool", "0", "-nowtick", "2"], pol, stats, samples, parts=1, do_shrink=False)
    if prop == "C08":
        drive_and_validate(ctx, zr, "isolate-bitcount",
                           ["-eng", "pebble", "-policy", "wc", "-script", os.path.join(CHECKS, "kv_bitcount_ranges.ndjson"), "-seed", seed,
                            "-nk", "2", "-ns", "2", "-nowtick", "2"], "wc", stats, samples, parts=1, do_shrink=False)
        drive_and_validate(ctx, zr, "isolate-numeral",
                           ["-eng", "pebble", "-policy", "wc", "-script", os.path.join(CHECKS, "kv_isolate_numeral.ndjson"), "-seed", seed,
                            "-nk", "2", "-ns", "2", "-nowtick", "2"], "wc", stats, samples, parts=1, do_shrink=False)
        drive_and_validate(ctx, zr, "isolate-decr",
                           ["-eng", "pebble", "-policy", "wc", "-script", os.path.join(CHECKS, "kv_isolate_decr.ndjson"), "-seed", seed,
                            "-nk", "2", "-ns", "2", "-nowtick", "2"], "wc", stats, samples, parts=1, do_shrink=False)
    # ---- collections above the 5000-element thresholds (counts-only observations)
    if prop in ("C08", "C09"):
        big_stage(ctx, zr, stats, samples,
                  [("pebble", "wc"), ("pebble", "ld"), ("pebble", "ld", True)] if (quick or smoke)
                  else [("pebble", "wc"), ("pebble", "ld"), ("mem", "wc"), ("mem", "ld"), ("pebble", "wc", True), ("pebble", "ld", True), ("mem", "ld", True)])
    selftest = None
    mutants = None
    if not quick:
        selftest = corrupt_selftest(ctx, zr, stats)
        mutants = spec_mutants(ctx)

    if stats["segments"] == 0:
        raise V.Inconclusive("no trace segment could be validated")
    cov = dict(
        states=mstates, transitions=mtrans,
        traces_validated_against_impl=stats["segments"],
        samples=samples or [{"note": "no sample"}],
        exhaustive=False,      # the model runs are exhaustive; the replay covers every edge of h, l, s (thorough) and samples kv, z
        model_runs=[dict(type=t, **r.summary()) for t, (r, _) in models.items()] + ([dict(type="ld", **ld_model.summary())] if ld_model else []),
        graph_types=gtypes, graph_edges=stats["graph_edges"], graph_edges_replayed=stats["graph_edges_replayed"],
        events_validated=stats["events"], commands_executed=stats["cmds"], observation_lines=stats["obs"],
        mismatching_segments=stats["mismatches"], foreign_mismatches=stats["foreign"], known_finding_hits=stats["known"],
        segments_left_by_model_bounds=stats["outofmodel"],
        antecedents=dict(write_met_record_with_expiry=stats["expiry_met_by_write"], write_met_dead_record=stats["dead_met_by_write"],
                         read_met_record_with_expiry=stats["expiry_met_by_read"], local_deletion_scans=stats["scans"],
                         keys_removed_by_scans=stats["scan_gone"], simulated_compactions=stats["compactions"],
                         pairs_dropped_by_compaction=stats["compaction_dropped"]),
        per_command=stats["per_cmd"], driver_runs=stats["runs"], shrunk=stats["shrunk"], binding_selftest=selftest, spec_mutants=mutants,
        rule="every write edge of TLC's state graph of the bounded per-type instances is executed on the real state machine "
             "(node.NewStateMachine + ApplyRaftRequest, hand-built log entries, chosen log timestamps) from a state reached by real "
             "commands, with the product of read commands on the first visit of each state; plus seeded random walks (advancing, "
             "non-monotone log clock; one raft entry batch of up to 3 commands; simulated compaction; local-deletion scans); after "
             "every write an observation line per touched key, periodically for all keys; TLC (ZKVTrace) decides every line",
        checker_cmd="tlc -config ZKVTrace_<policy>.cfg ZKVTrace (ZR_TRACE=<part>)",
    )
    V.write_evidence(ctx, "model_checking", cov, assumptions=[
        "commands are applied through the state machine's apply path (what every replica executes); the leader-side argument checks "
        "and pre-checks of node/*.go are not in the path (C11 compares the two layers)",
        "reads go through the store's read API that the redis read handlers call; the reader's clock is the wall clock, the driver logs "
        "the clock tick it observed before and after each read (one tick = 7200 s, so no read is nearer than 1 h to an expiry instant)",
        "expiry instants are whole seconds of log time: a key given d seconds by an entry logged in second s is dead for entries logged "
        "in second s+d or later (sub-second remainders are not kept by the store); TTL answers < 0 are not distinguished (-1 / -2), "
        "GETRANGE nil / empty string are not distinguished",
        "enumeration order of HGETALL/HKEYS/HVALS/SMEMBERS is required to be the byte order of the fields/members (what the store's "
        "ordered keyspace gives and what cursor scans rely on)",
        "local deletion: a key name may be removed at any expiry instant ever given to that name and not yet fired (user guide: an "
        "expiry, once set, cannot be changed or cancelled); a scan that removes less is accepted, one that removes early is not",
        "simulated compaction applies the real compaction filter's decision to every stored pair with the filter's clock at "
        "(48 h lazy window) + the earliest log time any remaining command uses; the readers' clock is never behind the log clock in "
        "those runs - the filter is sound only under that production assumption",
        "mem engine: prefix-free name pools only (recorded finding mem-radix-prefix-keys, C20); no local-deletion scan on mem "
        "(recorded finding C12-mem-expiry-pass-deadlock)",
        "numerals longer than 8 digits are outside the model (TLC integers): such a segment is left at that point and counted",
    ])
