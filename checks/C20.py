"""C20 - all storage engines implement the same key-value contract.

spec/ZEngine.tla is the sorted-map reference.  (A) TLC exhausts the bounded instance
MC_ZEngine and dumps its complete labelled state graph.  (B) harness `engsim` walks every
edge of that graph on each real engine (one implementation test per transition), fires the
product of read operations / iterator options, adds seeded random sequences over all key
positions, and spec/ZEngineTrace.tla (TLC) decides every recorded read.
"""
import json
import os
import random

import vcheck as V

POOLS = 8
PREFIX_FREE = [0, 6, 7]      # pools in which no key is a proper prefix of another one
RANGE = {"delrange"}


def _dep_batches(seg):
    """True if a batch committed in this segment contains an operation that depends on an
    earlier operation of the same batch (the trigger of known finding mem-batch-order)."""
    last = {}
    dep = False
    hit = False
    for e in seg:
        ev = e.get("ev")
        if ev == "bput":
            last[e["k"]] = "put"
        elif ev == "bdel":
            last[e["k"]] = "del"
        elif ev == "bmerge":
            if last.get(e["k"]) in ("del", "delrange"):
                dep = True
            last[e["k"]] = "merge"
        elif ev == "bdelrange":
            for k in range(e["lo"], e["hi"]):
                if last.get(k) in ("put", "merge"):
                    dep = True
                last[k] = "delrange"
        elif ev == "commit":
            if dep:
                hit = True
            last, dep = {}, False
        elif ev in ("clear", "reset"):
            last, dep = {}, False
    return hit


def classify(eng, poolhex, seg):
    """Structural signature of a failing segment (last event = the failing line)."""
    e = seg[-1]
    sig = {"engine": eng, "event": e.get("ev")}
    if e.get("ev") not in ("iter", "get", "exist", "mget"):
        sig["class"] = "write-error"
        return sig
    pool = [bytes.fromhex(h) for h in poolhex]
    if any(a != b and b.startswith(a) for a in pool for b in pool):
        # radix iterators (also used inside the batch's DeleteRange) over keys that are
        # prefixes of each other; the event kind stays part of the signature
        sig["class"] = "prefix-related-keys"
        sig.pop("event")
        return sig
    if _dep_batches(seg):
        # (a fixed finding: kept as information in the signature, suppresses nothing)
        sig["after_dependent_batch"] = True
    sig["class"] = "other"
    return sig


def drive_and_validate(ctx, zr, eng, name, args, strict, stats, samples):
    """Run one engsim invocation and validate all its parts.  strict=False marks the
    informational rocksdb-shim configuration (never a verdict)."""
    d = ctx.sub("run-" + name)
    parts = 8
    rc, out = V.run(ctx, [zr, "engsim", "-eng", eng, "-o", os.path.join(d, "t"), "-parts", str(parts)] + args,
                    timeout=3600, env={"ZR_SCRATCH": d})
    summ = [json.loads(l[8:]) for l in out.splitlines() if l.startswith("SUMMARY ")]
    if rc != 0 or not summ:
        ctx.log("engsim %s did not complete (rc=%s): %s" % (name, rc, out[-300:]))
        ctx.skipped += 1
        return
    poolhex = summ[0]["poolhex"]
    files = [os.path.join(d, "t.%d.ndjson" % i) for i in range(parts)]
    files = [f for f in files if os.path.getsize(f) > 0]

    def one(f):
        return f, V.validate_seq_trace(ctx, "ZEngineTrace", "ZEngineTrace.cfg", f,
                                       tag=name + "-" + os.path.basename(f).split(".")[1])
    for f, (consumed, mism, res) in V.parallel(one, files, n=8):
        events = V.read_ndjson(f)
        nseg = sum(1 for e in events if e.get("ev") == "reset")
        if not consumed and not mism:
            if res.timed_out:
                ctx.log("TLC timed out on %s; skipped" % f)
                ctx.skipped += 1
                continue
            raise V.Inconclusive("trace validation of %s did not complete: %s" % (f, res.error or res.out[-400:]))
        stats["events"] += len(events)
        stats["segments"] += nseg
        stats["reads"] += sum(1 for e in events if e.get("ev") in ("get", "exist", "mget", "iter"))
        if not samples and len(events) > 40:
            samples.append({"engine": eng, "excerpt": events[1:9]})
        for line, exp in mism:
            s, seg = V.segment_of(events, line)
            sig = classify(eng, poolhex, seg)
            what = "%s engine: %s line %d: observed %s, ZEngine expects %s" % (
                eng, os.path.basename(f), line, json.dumps(seg[-1], sort_keys=True), exp)
            if not strict:
                print("INFO rocksdb-shim (not a verdict): " + what[:300])
                stats["info_mismatches"] += 1
                continue
            segf = os.path.join(d, "fail-%s-%d.ndjson" % (os.path.basename(f), line))
            V.write_ndjson(segf, seg)
            stats["mismatches"] += 1
            V.report_failure(ctx, sig, what, files=[segf], script={"engsim": args, "engine": eng})
    for s in summ:
        if s.get("mode") == "graph":
            stats["edges_covered"] = max(stats["edges_covered"], s["edges_covered"])
            stats["graph_edges"] = max(stats["graph_edges"], s["edges"])
            stats["steps"] += s["steps"]
        stats["runs"].append({k: s[k] for k in s if k != "poolhex"})


def conc_stage(ctx, zr, eng, stats, samples):
    """Atomic visibility under concurrency: one writer, several iterating readers; TLC
    (ZEngineConc, internal linearization steps) must find an explanation of every read."""
    d = ctx.sub("conc-" + eng)
    rounds = "6" if ctx.quick() else "40"
    nfiles = 1 if ctx.quick() else 4
    for i in range(nfiles):
        f = os.path.join(d, "c%d.ndjson" % i)
        rc, out = V.run(ctx, [zr, "engconc", "-eng", eng, "-o", f, "-rounds", rounds, "-seed", str(ctx.seed * 10 + i),
                              "-readers", "3", "-commits", "40"], timeout=600, env={"ZR_SCRATCH": d})
        summ = [json.loads(l[8:]) for l in out.splitlines() if l.startswith("SUMMARY ")]
        if rc != 0 or not summ:
            ctx.skipped += 1
            continue
        res = V.tlc(ctx, "ZEngineConc", "ZEngineConc.cfg", workers=1, timeout=900, env={"ZR_TRACE": f},
                    deque=True, heap="4g", tag="conc-%s-%d" % (eng, i))
        hwm = None
        for p in res.prints:
            if p.startswith('<<"HWM"'):
                hwm = [int(x) for x in p.strip("<>").split(",")[1:]]
        if res.timed_out or hwm is None:
            ctx.log("conc validation of %s did not complete; skipped" % f)
            ctx.skipped += 1
            continue
        stats["conc_events"] += summ[0]["events"]
        stats["conc_reads"] += summ[0]["reads"]
        stats["conc_reads_overlapping_commit"] += summ[0]["reads_overlapping_a_commit"]
        stats["segments"] += summ[0]["segments"]
        if hwm[0] != hwm[1] + 1:
            events = V.read_ndjson(f)
            line = hwm[0]          # first line no behaviour could consume
            s0, seg = V.segment_of(events, line)
            segf = os.path.join(d, "fail-c%d-%d.ndjson" % (i, line))
            V.write_ndjson(segf, seg)
            what = ("%s engine, concurrent writer/readers: no placement of the commit-effect and view-fix points "
                    "explains line %d %s (a batch was seen partially, a cleared batch was seen, or a view moved)"
                    % (eng, line, json.dumps(seg[-1], sort_keys=True)[:300]))
            V.report_failure(ctx, {"engine": eng, "class": "concurrent-visibility", "event": seg[-1].get("ev")},
                             what, files=[segf], script={"engconc": eng, "seed": ctx.seed * 10 + i})
            stats["mismatches"] += 1


def emptykey_flush_stage(ctx, zr, stats):
    """Isolate stage of the recorded finding pebble-empty-key-flush: with the empty key stored,
    a memtable flush (manual compaction here) of the vendored pebble never completes.  The
    general corpus leaves flushing maintenance calls out of pools that hold the empty key."""
    d = ctx.sub("run-pebble-isolate-emptyflush")
    args = ["-random", "4", "-len", "60", "-seed", str(ctx.seed), "-pool", "2", "-defwb", "-emptyflush"]
    rc, out = V.run(ctx, [zr, "engsim", "-eng", "pebble", "-o", os.path.join(d, "t"), "-parts", "1"] + args,
                    timeout=120, env={"ZR_SCRATCH": d})
    stats["runs"].append({"mode": "isolate-emptyflush", "rc": rc})
    if rc == 124 and "keys must be added in order" in out:
        V.report_failure(ctx, {"engine": "pebble", "class": "empty-key-flush"},
                         "pebble engine: manual compaction with the empty key stored never returns "
                         "(background error: keys must be added in order)", script={"engsim": args, "engine": "pebble"})
    elif rc != 0:
        ctx.log("isolate-emptyflush did not complete (rc=%s) without the finding's signature; skipped" % rc)
        ctx.skipped += 1


def run(ctx):
    rnd = random.Random(ctx.seed)
    zr = V.go_build(ctx, files=["engsim.go", "engconc.go"])
    # (A) exhaustive model runs + graph dumps
    g_full = os.path.join(ctx.scratch, "g_full.dot")
    r1 = V.tlc(ctx, "MC_ZEngine", "MC_ZEngine.cfg", timeout=600, extra=["-dump", "dot,actionlabels", g_full], tag="mc-full")
    V.require_model_ok(ctx, r1, "MC_ZEngine")
    ctx.log("model: %d distinct states, %d transitions" % (r1.distinct, r1.generated))

    stats = dict(events=0, segments=0, reads=0, mismatches=0, info_mismatches=0, edges_covered=0,
                 graph_edges=0, steps=0, runs=[], conc_events=0, conc_reads=0, conc_reads_overlapping_commit=0)
    samples = []
    seed = str(ctx.seed)
    if ctx.quick():
        pools = [ctx.seed % POOLS]
        mpools = [PREFIX_FREE[ctx.seed % len(PREFIX_FREE)]]
        limit, nrand, full = "30000", "300", "1"
    else:
        pools = list(range(POOLS))
        mpools = PREFIX_FREE
        limit, nrand, full = "0", "1500", "1"
    for p in pools:
        ps = str(p)
        # pebble: everything, fully strict
        # the complete read product on every distinct content is the expensive part: in the
        # thorough tier pools 0..3 get it, the others get sampled reads (3 per write step)
        pf = full if (ctx.quick() or p < 4) else "0"
        drive_and_validate(ctx, zr, "pebble", "pebble-graph-p" + ps,
                           ["-dot", g_full, "-seed", seed, "-pool", ps, "-limit", limit, "-full", pf, "-reads", "3"],
                           True, stats, samples)
        drive_and_validate(ctx, zr, "pebble", "pebble-rand-p" + ps,
                           ["-random", nrand, "-len", "80", "-seed", seed, "-pool", ps, "-defwb"],
                           True, stats, samples)
    if ctx.quick() and 2 not in pools:
        # the empty key as a STORED key exists only in pool 2 (random mode stores every position):
        # always give it a short run, whatever pool the seed selected
        drive_and_validate(ctx, zr, "pebble", "pebble-rand-emptykey",
                           ["-random", "200", "-len", "60", "-seed", seed, "-pool", "2", "-defwb"],
                           True, stats, samples)
    for p in mpools:
        ps = str(p)
        # mem: general corpus with the trigger of the recorded finding kept out
        # (prefix-free key pools); fully strict on everything else
        drive_and_validate(ctx, zr, "mem", "mem-graph-p" + ps,
                           ["-dot", g_full, "-seed", seed, "-pool", ps, "-limit", limit, "-full", full],
                           True, stats, samples)
        drive_and_validate(ctx, zr, "mem", "mem-rand-p" + ps,
                           ["-random", nrand, "-len", "80", "-seed", seed, "-pool", ps, "-defwb"],
                           True, stats, samples)
    # isolate stage: produce the recorded finding's trigger on purpose; a failure that does
    # not carry the finding's signature is a VIOLATION
    drive_and_validate(ctx, zr, "mem", "mem-isolate-prefix",
                       ["-random", "100" if ctx.quick() else "1000", "-len", "80", "-seed", seed,
                        "-pool", str([1, 4, 2, 3, 5][ctx.seed % 5]), "-indep"],
                       True, stats, samples)
    emptykey_flush_stage(ctx, zr, stats)
    for eng in ("pebble", "mem"):
        conc_stage(ctx, zr, eng, stats, samples)
    if not ctx.quick():
        # informational only: RocksDB through the dependency shim is not the patched 6.4.6
        try:
            drive_and_validate(ctx, zr, "rocksdb", "rocksdb-info",
                               ["-dot", g_full, "-seed", seed, "-pool", "0", "-limit", "20000", "-full", "1"],
                               False, stats, samples)
        except V.Inconclusive as ex:
            ctx.notes.append("rocksdb-shim informational run failed: %s" % ex)
    if stats["segments"] == 0:
        raise V.Inconclusive("no trace segment could be validated")
    cov = dict(
        states=r1.distinct, transitions=r1.generated,
        traces_validated_against_impl=stats["segments"],
        samples=samples or [{"note": "no sample"}],
        exhaustive=not ctx.quick(),
        model_runs=[dict(cfg="MC_ZEngine.cfg", **r1.summary())],
        graph_edges=stats["graph_edges"], graph_edges_replayed=stats["edges_covered"],
        events_validated=stats["events"], read_results_checked=stats["reads"],
        mismatching_segments=stats["mismatches"],
        concurrent_stage=dict(events=stats["conc_events"], iterator_reads=stats["conc_reads"],
                              reads_overlapping_a_commit=stats["conc_reads_overlapping_commit"],
                              spec="ZEngineConc: begin/end of every call logged, effect/view-fix are internal steps"), rocksdb_shim_info_mismatches=stats["info_mismatches"],
        driver_runs=stats["runs"],
        rule="every edge of TLC's state graph of MC_ZEngine is executed on the real engine from a state "
             "reached by real operations; on the first visit of each distinct committed content the full "
             "product of reads (get/exist/multiget, iterator min x max x 4 bound types x direction x "
             "offset x count) is fired; plus seeded random batches over all 7 key positions; TLC "
             "(ZEngineTrace) compares every read with ZEngine",
        checker_cmd="tlc -config ZEngineTrace.cfg ZEngineTrace (ZR_TRACE=<part>)",
    )
    V.write_evidence(ctx, "model_checking", cov, assumptions=[
        "mem and pebble are the deciding engines; RocksDB is only available through a dependency shim "
        "(stock 7.8 instead of youzan's patched 6.4.6) and is informational",
        "keys are instantiated from 6 ordered pools of 7 byte strings (plain, 0x00/0xff, empty key as a bound, "
        "shared 300-byte prefixes, table-like separators)",
        "single-threaded use of an engine; concurrent snapshot isolation is not covered",
    ])
