"""C11 - no client input can crash a replica or leave a partial write behind.

(A) spec/ZInput.tla: any command is answered by ErrReply (store and default write batch
unchanged) or OkWrite (havoc of the addressed keys only); panic/died/hung have no action.
TLC exhausts the abstract machine and three mutants (partial write, leaky error, panic), each
of which violates exactly one invariant.
(B) harness `inputsim`: mutated argument vectors of every registered read/write/merge command
(enumerated from the node's own registration tables) are sent to a real single-replica server
running as a memory-limited child (path "client": dump before/after, a valid probe after every
erroring vector, liveness), and the vectors the leader-side checks accepted are fed to real
state machines directly under recover, with a twin that skips erroring vectors (path
"apply").  spec/ZInputTrace.tla (TLC) decides.  Level: exploration.
"""
import json
import os

import vcheck as V
import _det as D

MUTANTS = {"partial": "ErrorChangesNothing", "leak": "NothingLeaks", "panic": "NoPanic"}

ISOLATE = [
    ("isolate-json", ["-isolate", "huge-json-index", "-mem", "2500"]),
    ("isolate-nonutf8", ["-isolate", "nonutf8-table"]),
    ("isolate-setrange", ["-isolate", "vecs", "-vecs", json.dumps(
        [["setrange", "default:ta:kvA2", "-1", "zz"], ["get", "default:ta:kvA2"], ["get", "default:ta:kvA2"]])]),
    ("isolate-setrange-max", ["-isolate", "vecs", "-vecs", json.dumps(
        [["setrange", "default:ta:kvA2", "9223372036854775807", "zz"], ["get", "default:ta:kvA2"], ["get", "default:ta:kvA2"]])]),
    ("isolate-scan-count", ["-isolate", "vecs", "-vecs", json.dumps(
        [["advscan", "default:ta:", "kv", "count", "-9223372036854775808", "match", "kv*"], ["get", "default:ta:kvA1"],
         ["get", "default:ta:kvA1"]])]),
    ("isolate-bitset", ["-isolate", "vecs", "-vecs", json.dumps(
        [["set", "default:ta:", "abc"], ["setbitv2", "default:ta:", "13", "1"], ["get", "default:ta:"]])]),
]


def classify(seg, exp, stage):
    e = seg[-1]
    sig = {"stage": stage, "path": e.get("path"), "trig": e.get("trig", "")}
    ev = e.get("ev")
    if ev in ("died", "hung"):
        sig["class"] = "down"
    elif ev == "panic":
        sig["class"] = "panic"
    elif ev == "cmd":
        why = exp.strip('"')
        if "error reply but the store changed" in why:
            sig["class"] = "err-changed"
        elif "did not address" in why:
            sig["class"] = "foreign-key-changed"
        elif "twin" in why:
            # the twin skipped the erroring vectors: a difference means one of them changed the store
            # (seen per vector as "error reply but the store changed", per apply group only here)
            sig["class"] = "err-changed"
        elif "read command" in why:
            sig["class"] = "read-changed"
        elif "probe" in why:
            sig["class"] = "probe-failed"
        else:
            sig["class"] = "reply-differs"
    else:
        sig["class"] = "other"
    sig["cmd"] = e.get("name")
    return sig


def run(ctx):
    zr = D.build(ctx)
    quick = ctx.quick()
    seed = str(ctx.seed)
    model = {}

    def model_stage(_):
        model["design"] = D.model_run(ctx, "ZInput", "MC_ZInput.cfg", "mc-design", timeout=300, workers=2, coverage=True, heap="1g")
        for m in MUTANTS:
            model["mut_" + m] = D.model_run(ctx, "ZInput", "MC_ZInput_mut_%s.cfg" % m, "mut-" + m, timeout=300, workers=2, heap="1g")

    stages = []
    if quick:
        pol = ["compact", "local"][(ctx.seed // 2) % 2]
        extra = (["-hidx"] if ctx.seed % 2 == 0 else []) + (["-expired"] if pol == "compact" else [])
        stages.append(("general", ["-seed", seed, "-n", "400", "-eng", ["pebble", "mem"][ctx.seed % 2], "-policy", pol] + extra, 3))
    else:
        stages.append(("general", ["-seed", seed, "-n", "2500", "-eng", "pebble", "-policy", "compact"], 5))
        stages.append(("general-mem", ["-seed", str(ctx.seed + 500), "-n", "1500", "-eng", "mem", "-policy", "local"], 3))
        # prior states with expired / nearly expired objects, secondary hash indexes (HIDX) on the table,
        # path 2 at apply-group sizes 1, 3 and 7
        stages.append(("general-hidx-expired", ["-seed", str(ctx.seed + 900), "-n", "1500", "-eng", "pebble", "-policy", "compact",
                                                "-hidx", "-expired", "-http"], 5))
    for name, args in ISOLATE:
        stages.append((name, ["-seed", seed] + args, 2))

    def driver_stage(st):
        name, args, parts = st
        summ, files = D.drive(ctx, zr, "inputsim", name, args, parts)
        return st, summ, files

    res = V.parallel(lambda x: model_stage(x) if x == "model" else driver_stage(x), ["model"] + stages, n=5)
    stats = dict(events=0, mismatches=0, evaluations=0, distinct=0, children=0, died=0, hung=0, panics=0, cmd_client=0,
                 cmd_apply=0, err_client=0, err_apply=0, probes_after_error=0, avoided=0, registered=0, mutations_total=0,
                 without_template=0, segments=0, driver_runs=[], fatal=[])
    samples, per_command = [], {}
    good_files = []
    for item in res[1:]:
        (name, args, parts), summ, files = item
        if summ is None:
            continue
        s = summ["stats"]
        stats["children"] += s.get("children", 0)
        stats["died"] += s.get("died", 0)
        stats["hung"] += s.get("hung", 0)
        stats["panics"] += s.get("panic", 0)
        stats["cmd_client"] += s.get("cmd_client", 0)
        stats["cmd_apply"] += s.get("cmd_apply", 0)
        stats["err_client"] += s.get("cls_err", 0) + s.get("cls_noreply", 0) + s.get("cls_closed", 0)
        stats["err_apply"] += s.get("apply_cls_err", 0)
        stats["avoided"] += s.get("avoided_known_triggers", 0)
        if name.startswith("general"):
            stats["distinct"] += summ.get("distinct_nontrivial", 0)
            stats["registered"] = max(stats["registered"], s.get("registered_commands", 0))
            stats["mutations_total"] = max(stats["mutations_total"], s.get("mutations_total", 0))
            stats["without_template"] = max(stats["without_template"], s.get("commands_without_template", 0))
            if name == "general":
                per_command = summ.get("per_command", {})
                samples.extend(summ.get("samples", [])[:5])
        stats["fatal"].extend([dict(stage=name, **f) for f in (summ.get("fatal") or [])][:4])
        stats["driver_runs"].append(dict(stage=name, **{k: v for k, v in s.items()}))
        for f, events, fails, _known in D.validate(ctx, "ZInputTrace", "ZInputTrace.cfg", files, name, "reset"):
            if not fails and name == "general" and len(events) > 500 and f.endswith(".0.ndjson"):
                good_files.append(f)
            stats["events"] += len(events)
            stats["segments"] += sum(1 for e in events if e.get("ev") == "reset")
            stats["probes_after_error"] += sum(1 for e in events if e.get("ev") == "cmd" and e.get("probe"))
            for line, exp, seg in fails:
                stats["mismatches"] += 1
                sig = classify(seg, exp, name)
                e = seg[-1]
                what = "%s path, %s: %s -> %s; %s" % (
                    e.get("path"), e.get("ev"), json.dumps(e.get("args") or [e.get("name"), e.get("mut")])[:300],
                    (e.get("cause") or e.get("r") or "")[:200], exp[:160])
                if e.get("prev"):
                    what += "; previous vectors: " + json.dumps(e.get("prev"))[:300]
                segf = os.path.join(os.path.dirname(f), "fail-%s-%d.ndjson" % (os.path.basename(f), line))
                V.write_ndjson(segf, seg[-40:])
                V.report_failure(ctx, sig, what, files=[segf], script={"inputsim": args, "stage": name})
    selftest = {}
    if not quick and good_files:
        selftest = D.selftest_binding(ctx, "ZInputTrace", "ZInputTrace.cfg", good_files[0], D.input_corruptions(), "input")
    V.require_model_ok(ctx, model["design"], "ZInput")
    for m, inv in MUTANTS.items():
        mr = model["mut_" + m]
        if mr.violated != inv:
            if mr.timed_out:
                ctx.skipped += 1
                continue
            raise V.Inconclusive("spec mutant %s: expected %s to be violated, TLC said %s" % (m, inv, mr.violated))
    stats["evaluations"] = stats["cmd_client"] + stats["cmd_apply"]
    if stats["cmd_client"] == 0:
        raise V.Inconclusive("no command could be sent to a child server")
    ctx.log("commands: %d client + %d apply, %d error replies, %d children, died %d hung %d panic %d, mismatches %d" % (
        stats["cmd_client"], stats["cmd_apply"], stats["err_client"] + stats["err_apply"], stats["children"],
        stats["died"], stats["hung"], stats["panics"], stats["mismatches"]))
    cov = dict(
        evaluations=stats["evaluations"], distinct_nontrivial=stats["distinct"],
        rule="vectors are derived from one valid instance of each of the %d registered read/write/merge commands "
             "(enumerated from the node's registration tables by reflection) by dropping/duplicating/appending "
             "arguments, replacing numbers (non-numeric, empty, overflowing, negative, huge, float, inf/nan), sub-keys "
             "(empty, over-long, binary, option-like), keys (missing namespace/table/key, over-long, binary, other "
             "type) and options; %d mutations exist, the tier samples from them by seed.  distinct_nontrivial counts "
             "distinct (command, mutation class, outcome class) triples of mutated (not valid, not probe) vectors sent "
             "to the real server" % (stats["registered"], stats["mutations_total"]),
        samples=samples or [{"note": "no sample"}],
        states=model["design"].distinct, transitions=model["design"].generated,
        traces_validated_against_impl=stats["segments"],
        model_runs={k: v.summary() for k, v in model.items()},
        binding_selftest=selftest,
        spec_mutants={m: model["mut_" + m].violated for m in MUTANTS},
        registered_commands=stats["registered"], commands_without_valid_template=stats["without_template"],
        vectors_sent_as_client=stats["cmd_client"], vectors_fed_to_apply=stats["cmd_apply"],
        error_replies_client=stats["err_client"], error_replies_apply=stats["err_apply"],
        probes_after_error=stats["probes_after_error"], children_started=stats["children"],
        died=stats["died"], hung=stats["hung"], panics_under_recover=stats["panics"],
        known_triggers_avoided=stats["avoided"], events_validated=stats["events"], mismatches=stats["mismatches"],
        fatal_inputs=stats["fatal"], per_command_outcomes=per_command, driver_runs=stats["driver_runs"],
        checker_cmd="tlc -config ZInputTrace.cfg ZInputTrace (ZR_TRACE=<part>); tlc -config MC_ZInput.cfg ZInput",
    )
    V.write_evidence(ctx, "exploration", cov, assumptions=[
        "prior states: the base objects of every family, collections beyond 128 elements, (stage/seed dependent) objects "
        "whose expiry has passed or passes during the run, and two secondary hash indexes (int on f1, string on f2) "
        "walked to the ready state; path 2 applies the accepted vectors in apply groups of 1, 3 or 7 entries",
        "one replica, one partition, one namespace; the child is limited with ulimit -v (3 GB, 2.5 GB for the JSON "
        "isolate stage) and every command has a deadline (3 s reads, 8 s writes)",
        "'store unchanged' is the digest of the complete raw engine content (HyperLogLog keys through PFCOUNT because "
        "of the in-memory HLL write cache); 'only the addressed key changed' attributes raw entries to user keys by a "
        "substring test on distinctive pool/probe key names (first 7 bytes for long names)",
        "a connection closed by the server's recover() on the connection path and a command that gets no reply are "
        "treated like error replies (the store must not change), not as crashes",
        "path 2 feeds exactly the vectors the child's state machine was handed (recorded by a decorator around the real "
        "state machine), except the one being applied when a child died; slow-command limiter is nil there",
        "known triggers of the open findings are kept out of the general corpus by inpKnownTrigger (exactly the "
        "triggering vector shapes) and produced on purpose by the isolate stages; non-UTF-8 table names are avoided on "
        "path 1 only and exercised on path 2 (renamed table, collections < 100 elements, no slow limiter)",
    ])
