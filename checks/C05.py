"""C05 - WAL reopen after a crash returns exactly a durable prefix.

spec/ZWal.tla is the design of the write-ahead log as a record sequence with hand-over and
sync points.  (A) TLC exhausts bounded instances (MC_ZWal*.cfg): every save history x every
crash image x every snapshot to open at, and refutes spec mutants.  (B) harness `walsim`
executes TLC-generated (tlc -simulate on MC_ZWal_gen.cfg) and seeded save histories on the
real `wal` package, builds crash images of the directory after every call (process crash;
power loss: truncation offsets of the unsynced tail, zero-filled sector variants; single bit
flips in the synced region) and reopens each the way node/raft.go openWAL does;
spec/ZWalTrace.tla (TLC) decides every logged call and every reopened image.
"""
import json
import os
import random
import threading

import vcheck as V

FILES = ["walsim.go"]
MUTANTS = ["no-flush-on-entries", "no-fsync-on-vote", "header-without-state", "rewrite-below-commit",
           "release-keeps-one-less", "release-anywhere", "snap-sets-enti"]


def _misnamed(seg):
    """True if the history rolled a segment after a restart whose newest snapshot marker was
    ahead of the last saved entry, before any entry was saved again (trigger of known finding
    C05-segment-misnamed-after-restart)."""
    last_ent, max_mark, lost = 0, 0, False
    for e in seg:
        ev = e.get("ev")
        if ev == "snap":
            max_mark = max(max_mark, e["i"])
        elif ev == "restart":
            lost = max_mark > last_ent
        elif ev == "save":
            if lost and e.get("cut"):
                return True
            if e["ents"]:
                last_ent = e["ents"][-1]["i"]
                lost = False
    return False


def _zero_after_restart_roll(seg):
    """True if, after a clean restart, the segment was rolled before any Save carried a hard
    state (trigger of known finding C05-header-without-state-after-restart)."""
    pending = False
    for e in seg:
        ev = e.get("ev")
        if ev == "restart":
            pending = True
        elif ev == "save":
            hs = e["hs"]
            if hs["t"] or hs["v"] or hs["c"]:
                pending = False
            elif pending and e.get("cut"):
                return True
    return False


def classify(seg):
    """Structural signature of a failing segment (last event = the failing line)."""
    e = seg[-1]
    ev = e.get("ev")
    sig = {"event": ev}
    if ev == "image":
        sig["kind"] = e.get("how")
        res = e.get("res", {})
        if e.get("panic"):
            sig["class"] = "panic"
        elif e.get("segfirst") and e.get("how") in ("hole", "flip"):
            # the first file read kept nothing but its leading crc record, or that record's
            # length field reads 0 ("empty file"): running CRC 0, the chain check against the
            # next segment is skipped
            sig["class"] = "crc-chain-vacuous-after-first-crc"
            sig.pop("kind")
        elif e.get("how") == "flip" and e.get("where") in ("type", "typetag"):
            # the record type is outside the CRC: a flipped type byte re-types an intact record
            sig["class"] = "record-type-unprotected"
        elif e.get("snapon") and e.get("picked") not in ({"i": -1, "t": -1},) and not any(
                f["ok"] and f["i"] == e["picked"]["i"] and f["t"] == e["picked"]["t"] and f["x"] == e.get("pdata") for f in e.get("files", [])):
            sig["class"] = "snapshot-pick"
        elif res.get("err"):
            sig["class"] = "repairable-image-refused"
        elif e.get("res2") != res:
            sig["class"] = "second-reopen-differs"
        else:
            sig["class"] = "not-a-durable-prefix"
    elif ev in ("save", "snap", "close", "create"):
        sig["class"] = "sync-policy-or-call-error"
    else:
        sig["class"] = "other"
    return sig


def drive(ctx, zr, name, args, parts, stats, samples, timeout=2400):
    """Run `parts` walsim processes in parallel and validate every trace part with TLC."""
    d = ctx.sub("run-" + name)

    def one(i):
        out = os.path.join(d, "t%d.ndjson" % i)
        rc, o = V.run(ctx, [zr, "walsim", "-o", out, "-parts", str(parts), "-part", str(i)] + args,
                      timeout=timeout, env={"ZR_SCRATCH": d})
        summ = [json.loads(l[8:]) for l in o.splitlines() if l.startswith("SUMMARY ")]
        if rc != 0 or not summ:
            return out, None, o[-300:]
        return out, summ[0], ""

    runs = V.parallel(one, list(range(parts)), n=parts)
    files = []
    for out, summ, err in runs:
        if summ is None:
            ctx.log("walsim %s part did not complete: %s" % (name, err))
            ctx.skipped += 1
            continue
        for k in ("histories", "sim_histories", "calls", "cuts", "restarts", "images", "repaired", "big_entries",
                  "segments_purged", "releases", "syncs", "concurrent_batches", "second_lives", "snapshot_dir_images"):
            stats[k] = stats.get(k, 0) + summ.get(k, 0)
        stats["max_entry_bytes"] = max(stats.get("max_entry_bytes", 0), summ.get("max_entry_bytes", 0))
        for k in ("by_kind", "by_tail", "by_outcome", "by_snapshot_damage"):
            for kk, v in summ.get(k, {}).items():
                stats[k][kk] = stats[k].get(kk, 0) + v
        if os.path.getsize(out) > 0:
            files.append(out)

    def val(f):
        return f, V.validate_seq_trace(ctx, "ZWalTrace", "ZWalTrace.cfg", f,
                                       tag=name + "-" + os.path.basename(f).split(".")[0], timeout=1800)
    nmis = 0
    for f, (consumed, mism, res) in V.parallel(val, files, n=8):
        events = V.read_ndjson(f)
        if not consumed and not mism:
            if res.timed_out:
                ctx.log("TLC timed out on %s; skipped" % f)
                ctx.skipped += 1
                continue
            raise V.Inconclusive("trace validation of %s did not complete: %s" % (f, res.error or res.out[-400:]))
        stats["events"] += len(events)
        stats["segments"] += sum(1 for e in events if e.get("ev") == "reset")
        stats["images_validated"] += sum(1 for e in events if e.get("ev") == "image")
        if not samples:
            for i, e in enumerate(events):
                if e.get("ev") == "image" and e.get("how") == "trunc" and e.get("rep") and len(e["res"]["ents"]) >= 2:
                    calls = [x for x in events[max(0, i - 60):i] if x.get("ev") != "image"][-3:]
                    samples.append({"calls_before": calls, "image": e})
                    break
        for line, exp in mism:
            s, seg = V.segment_of(events, line)
            sig = classify(seg)
            what = "%s line %d: observed %s; ZWal: %s" % (os.path.basename(f), line,
                                                          json.dumps(seg[-1], sort_keys=True)[:700], exp)
            calls = [x for x in seg if x.get("ev") != "image"] + [seg[-1]]
            segf = os.path.join(d, "fail-%s-%d.ndjson" % (os.path.basename(f), line))
            V.write_ndjson(segf, calls)
            nmis += 1
            stats["mismatches"] += 1
            V.report_failure(ctx, sig, what, files=[segf], script={"walsim": args, "stage": name})
    return nmis, files


def selftest(ctx, good, stats):
    """The binding is real: a good trace with one logged field changed / one line dropped
    must be rejected by ZWalTrace."""
    events = V.read_ndjson(good)
    rnd = random.Random(ctx.seed)
    d = ctx.sub("selftest")
    cases = []
    img = [i for i, e in enumerate(events) if e.get("ev") == "image" and e["res"]["err"] == "" and len(e["res"]["ents"]) >= 1]
    sav = [i for i, e in enumerate(events) if e.get("ev") == "save" and e["ents"]]
    if img:
        i = rnd.choice(img)
        ev = json.loads(json.dumps(events))
        ev[i]["res"]["ents"][-1]["x"] += 1000          # a returned entry that was never written
        ev[i]["res2"] = ev[i]["res"]
        cases.append(("entry-payload", ev))
        i = rnd.choice(img)
        ev = json.loads(json.dumps(events))
        ev[i]["res"]["hs"]["c"] += 7                   # a hard state that was never saved
        ev[i]["res2"] = ev[i]["res"]
        cases.append(("hardstate", ev))
    if sav:
        i = rnd.choice(sav)
        ev = json.loads(json.dumps(events))
        del ev[i]                                      # a save the model does not see
        cases.append(("dropped-save", ev))
        # a Save (no roll) that returned before anything of it was handed to the OS
        plain = [i for i in sav if not events[i].get("cut")]
        if plain:
            i = rnd.choice(plain)
            ev = json.loads(json.dumps(events))
            prev = [e for e in ev[:i] if e.get("ev") not in ("image", "reset")]
            ev[i]["nrec"] = prev[-1]["nrec"] if prev else 0
            ev[i]["dur"] = min(ev[i]["dur"], ev[i]["nrec"])
            cases.append(("under-flushed", ev))
    rejected = 0
    for name, ev in cases:
        f = os.path.join(d, name + ".ndjson")
        V.write_ndjson(f, ev)
        consumed, mism, res = V.validate_seq_trace(ctx, "ZWalTrace", "ZWalTrace.cfg", f, tag="self-" + name)
        if mism:
            rejected += 1
        else:
            ctx.notes.append("self-test: corrupted trace '%s' was not rejected" % name)
    stats["selftest_cases"] = len(cases)
    stats["selftest_rejected"] = rejected
    if cases and rejected < len(cases):
        raise V.Inconclusive("binding self-test failed: %d of %d corrupted traces accepted" % (len(cases) - rejected, len(cases)))


def run(ctx):
    zr = V.go_build(ctx, files=FILES)
    q = ctx.quick()
    seed = str(ctx.seed)
    models = {}

    # (A) exhaustive model runs, in the background while the drivers work
    def model(cfg, workers, timeout):
        models[cfg] = V.tlc(ctx, "MC_ZWal", cfg, workers=workers, timeout=timeout, tag="mc-" + cfg[:-4])
    plan = [("MC_ZWal_crash.cfg", 4, 200), ("MC_ZWal.cfg", 6, 240)] if q else \
           [("MC_ZWal_crash.cfg", 4, 900), ("MC_ZWal.cfg", 4, 1200), ("MC_ZWal_mid.cfg", 6, 1800),
            ("MC_ZWal_purge.cfg", 6, 1800), ("MC_ZWal_snap.cfg", 4, 1200)]
    threads = [threading.Thread(target=model, args=a) for a in plan]
    for t in threads:
        t.start()

    # histories generated by TLC from the same module
    simdir = ctx.sub("sim")
    nsim = 16 if q else 100
    rs = V.tlc(ctx, "MC_ZWal", "MC_ZWal_gen.cfg", workers=1, timeout=300,
               simulate="file=%s,num=%d" % (os.path.join(simdir, "b"), nsim), depth=14, seed=ctx.seed, tag="sim")
    nfiles = len(os.listdir(simdir))
    if nfiles == 0:
        ctx.notes.append("tlc -simulate wrote no behaviours: %s" % (rs.error or rs.out[-200:]))
        ctx.skipped += 1

    stats = dict(events=0, segments=0, images_validated=0, mismatches=0, by_kind={}, by_tail={}, by_outcome={},
                 by_snapshot_damage={})
    samples = []
    parts = 8
    if q:
        _, files = drive(ctx, zr, "general", ["-seed", seed, "-sim", simdir, "-random", "12", "-len", "12",
                                               "-maximg", "10"], parts, stats, samples)
    else:
        _, files = drive(ctx, zr, "general", ["-seed", seed, "-sim", simdir, "-random", "50", "-len", "14",
                                               "-maximg", "40", "-lifeall"], parts, stats, samples)
        # every byte offset of the unsynced tail, every bit of every synced record header
        drive(ctx, zr, "dense", ["-seed", str(ctx.seed + 100), "-random", "12", "-len", "8",
                                  "-dense", "-imgevery", "2"], parts, stats, samples)
        # entries larger than the 1 MB encode buffers (sampled offsets)
        drive(ctx, zr, "big", ["-seed", seed, "-random", "4", "-len", "7", "-big", "-maximg", "10", "-imgevery", "3"],
              4, stats, samples)
    # entries just below / at / above the size thresholds the wal code knows (4 KB page and 128 KB
    # watermark of the page writer, 1 MB marshal buffers, 16 MB, the 64 MB default segment, just
    # below the decoder's 100 MB frame bound), default segment size, clean restart, process-crash
    # images opened at several snapshots
    if q:
        drive(ctx, zr, "sizes", ["-seed", seed, "-sizes", "1"], 1, stats, samples)
    else:
        drive(ctx, zr, "sizes", ["-seed", seed, "-sizes", "6", "-sizevariants", "3"], 3, stats, samples)
    # torn multi-page batches with a second life after every damaged image (reopen, re-send some
    # of the lost entries byte-identically or save fresh ones, close, reopen: nothing that lay behind
    # the write position may resurface)
    drive(ctx, zr, "bigbatch", ["-seed", seed, "-random", "4" if q else "24", "-bigbatch", "-lifeall", "-maximg", "24"],
          4 if q else 8, stats, samples)
    # the snapshotter next to the log: a real snap.Snapshotter directory (file first, marker second),
    # damaged in the images (newest file torn / empty / flipped / gone, a file whose marker never reached
    # the log); the restart's own choice LoadNewestAvailable(ValidSnapshotEntries) is judged by ZWalTrace
    # (PickSnap) and the log is opened at it
    drive(ctx, zr, "snapfiles", ["-seed", seed, "-random", "4" if q else "32", "-len", "14", "-snapfiles", "-maximg", "6" if q else "10"],
          3 if q else 8, stats, samples)
    drive(ctx, zr, "snapfiles-purge", ["-seed", seed, "-random", "4" if q else "32", "-purge", "-snapfiles", "-maximg", "4" if q else "8"],
          3 if q else 8, stats, samples)
    # two goroutines on one WAL (raft loop: Save; snapshot goroutine: SaveSnapshot + ReleaseLockTo);
    # the calls are logged in the order the WAL's mutex serialized them, read off the record order
    drive(ctx, zr, "concurrent", ["-seed", seed, "-conc", "12" if q else "120", "-maximg", "6"], 2 if q else 6, stats, samples)
    # lock release and purge: wal.Sync / ReleaseLockTo(snapshot index) / one pass of the real
    # fileutil purge / restarts at the newest valid marker, on tiny segments that roll often;
    # ZWalTrace bounds what purge may remove (Purge(max, k), k <= MaxPurge) and judges every image
    drive(ctx, zr, "purge", ["-seed", seed, "-random", "8" if q else "48", "-purge", "-maximg", "4" if q else "8"],
          4 if q else 8, stats, samples)
    # isolate stage of known finding C05-crc-chain-vacuous-after-first-crc
    drive(ctx, zr, "isolate-hole0", ["-seed", seed, "-random", "6" if q else "24", "-len", "10", "-hole0", "-imgevery", "3"],
          2 if q else 4, stats, samples)
    # isolate stage of known finding C05-record-type-unprotected: flips of the record-type
    # bytes on purpose; any failure here must carry exactly that signature
    drive(ctx, zr, "isolate-typeflips", ["-seed", seed, "-random", "2" if q else "12", "-len", "6", "-typeflips",
                                          "-maximg", "2", "-imgevery", "6"], 2 if q else 6, stats, samples)
    # regression stage of the fixed finding C05-header-without-state-after-restart (strict)
    drive(ctx, zr, "zero-after-restart", ["-seed", seed, "-random", "4" if q else "16", "-zero-after-restart",
                                                   "-maximg", "4"], 2 if q else 4, stats, samples)
    # regression stage of the fixed finding C05-segment-misnamed-after-restart (strict)
    drive(ctx, zr, "misname", ["-seed", seed, "-random", "4" if q else "16", "-misname", "-maximg", "6"],
          2 if q else 4, stats, samples)
    if stats["segments"] == 0:
        raise V.Inconclusive("no trace segment could be validated")

    if not q:
        good = [f for f in files if os.path.getsize(f) > 0]
        if good:
            selftest(ctx, good[0], stats)
        # spec mutants: the invariants bite
        refuted = {}
        for m in MUTANTS:
            r = V.tlc(ctx, "MC_ZWal", "MC_ZWal_mut_%s.cfg" % m, workers=4, timeout=900, tag="mut-" + m)
            refuted[m] = r.violated
            if not r.violated and not r.timed_out:
                raise V.Inconclusive("spec mutant %s was not refuted by TLC: the invariants are vacuous" % m)
        stats["spec_mutants_refuted"] = refuted

    for t in threads:
        t.join()
    runs = []
    best = None
    for cfg, _, _ in plan:
        r = models.get(cfg)
        if r is None:
            continue
        if not r.ok and not r.timed_out and not r.violated and not r.post_false and not r.error \
                and "Finished in" not in r.out and "Error:" not in r.out:
            # TLC ended without a verdict (killed: memory pressure on the shared machine):
            # environmental, skipped and counted, never a verdict
            ctx.notes.append("%s: TLC was killed before it finished (%d states); counted as not run" % (cfg, r.distinct))
            ctx.skipped += 1
            runs.append(dict(cfg=cfg, **r.summary()))
            continue
        V.require_model_ok(ctx, r, cfg)
        runs.append(dict(cfg=cfg, **r.summary()))
        if r.ok and (best is None or r.distinct > best.distinct):
            best = r
    if best is None:
        ctx.notes.append("no exhaustive model run completed within its time-out on this machine")
        best = max(models.values(), key=lambda r: r.distinct)

    distinct = sum(1 for k, v in stats["by_outcome"].items() if v > 0)
    cov = dict(
        states=best.distinct, transitions=best.generated,
        traces_validated_against_impl=stats["segments"],
        samples=samples or [{"note": "no sample"}],
        exhaustive=bool(best.ok),
        model_runs=runs,
        histories=stats.get("histories", 0), tlc_generated_histories=stats.get("sim_histories", 0),
        calls=stats.get("calls", 0), segment_rolls=stats.get("cuts", 0), clean_restarts=stats.get("restarts", 0),
        snapshot_dir_images=stats.get("snapshot_dir_images", 0), snapshot_dir_damage=stats.get("by_snapshot_damage", {}),
        second_lives=stats.get("second_lives", 0), concurrent_batches=stats.get("concurrent_batches", 0), lock_releases=stats.get("releases", 0), wal_syncs=stats.get("syncs", 0), segments_purged=stats.get("segments_purged", 0),
        entries_over_1MB=stats.get("big_entries", 0), largest_entry_bytes=stats.get("max_entry_bytes", 0),
        events_validated=stats["events"], mismatching_lines=stats["mismatches"],
        fault_enumeration=dict(
            evaluations=stats["images_validated"],
            distinct_nontrivial=len([k for k, v in stats["by_kind"].items() if v > 0]) * max(1, len([k for k, v in stats["by_tail"].items() if v > 0])),
            images_by_kind=stats["by_kind"], images_by_crash_class=stats["by_tail"], reopen_outcomes=stats["by_outcome"],
            repaired=stats.get("repaired", 0),
            rule="one evaluation = one crash image of a real wal directory reopened as openWAL does and judged by "
                 "TLC (ZWalTrace ImageOK); distinct = image kind (proc/trunc/zfill/sector/flip) x abstract crash "
                 "class (none/short/torn) combinations that occurred"),
        selftest=dict(cases=stats.get("selftest_cases", 0), rejected=stats.get("selftest_rejected", 0)),
        spec_mutants_refuted=stats.get("spec_mutants_refuted", {}),
        rule="every Save/SaveSnapshot/Close of a TLC-generated or seeded history is replayed through the ZWal "
             "actions (records handed over / fdatasynced at return must cover the promise); every crash image is "
             "accepted only if the reopen result is an error or ReadFrom of a prefix >= the durable floor, "
             "repairable images (clean cut, zero sector) must come back, a second reopen returns the same",
        checker_cmd="tlc -config ZWalTrace.cfg ZWalTrace (ZR_TRACE=<part>)",
    )
    V.write_evidence(ctx, "model_checking", cov, assumptions=[
        "optimized_fsync: entry-only saves and segment rolls are flush-only by design; power-loss guarantees are "
        "stated relative to issued fdatasyncs (the contiguous prefix the wal sync hook reports), a term/vote "
        "change must be fdatasynced when no earlier segment was left flush-only",
        "power-loss images damage the tail segment only (every/sampled byte offset from its durable offset, "
        "zero-filled partial sector, one unsynced sector missing); earlier segments are taken as intact",
        "opening at a snapshot marker that is not in the log may answer with an error or with the effect "
        "relative to that index (C05 does not ask for the error; wal.ReadAll in write mode drops ErrSnapshotNotFound)",
        "reading at a snapshot skips entries at or below its index before applying the overwrite rule (as "
        "documented for ReadAll), so a suffix that was cut off by a rewrite at or below the snapshot index is "
        "returned again; histories are raft-legal (no rewrite at or below commit / marker)",
        "bit flips of the two bytes holding the record type are a recorded finding (isolate stage); flips "
        "elsewhere must give an error, a cut at the flipped record, or have no effect",
        "entries stay below the decoder's own frame bound (100 MB): wal.Save accepts a larger entry but the "
        "reader treats its length field as garbage - outside the corpus",
        "lock release and purge: the node releases at the index of a saved snapshot after wal.Sync() (marker and a "
        "hard state that commits it are in the prefix that survives a crash) and restarts at the newest marker "
        "ValidSnapshotEntries offers; PurgeKeepsWhatRestartNeeds is proved on MC_ZWal_purge under exactly these "
        "rules; on real traces the purge pass is bounded by the model (Purge(max, k)) and every image is reopened",
        "concurrent use of one WAL: the model is sequential; the two-goroutine stage logs the calls in the order the "
        "WAL's own mutex serialized them (record order in the file, sync-hook reports taken under the mutex); data "
        "races as such are not a verdict source of this technique (no -race)",
    ])
