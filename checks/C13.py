"""C13 - cursor scans return every element exactly once, in order.

spec/ZScan.tla models an iteration over one ordered space (the keys of a type in a table,
or the elements of one collection) as a sequence of pages.  (A) TLC exhausts
MC_ZScan: every population of a small pool x every start cursor x every COUNT x both
directions x MATCH sets, with writes to the scanned and to a foreign space interleaved
between the pages, and proves ScanCompleteOnceOrdered / NothingForeign / MatchExact /
Terminates for every page sequence the page contract (PageOK) admits; spec mutants
(inclusive cursor, cursor = first element, foreign data visible, early end mark) must be
refuted.  (B) harness `scansim` runs the real node-level scan handlers (SCAN, REVSCAN,
ADVSCAN, ADVREVSCAN, HSCAN, SSCAN, ZSCAN and reverse variants) on a real store filled
through the real state machine, with adversarial names, decoys in other tables / types /
collections, every COUNT 1..n+1, both directions, with and without MATCH, from arbitrary
cursors and with writes between pages; spec/ZScanTrace.tla (TLC) checks every page against
PageOK and every finished iteration against the properties.
"""
import json
import os
import random

import vcheck as V
import _scan as S


def scan_stage(ctx, zr, name, eng, policy, args, stats, samples, expect=None, driver="scansim", cfg="ZScanTrace.cfg",
               parts=4, timeout=1500):
    """Run a scan driver + validate.  expect: id of the known finding this (isolate) stage is
    meant to trigger - then the stage must produce it."""
    dargs = ["-eng", eng, "-seed", str(ctx.seed)] + (["-policy", policy] if driver == "scansim" else []) + args
    summ, files = S.drive(ctx, zr, driver, name, dargs, parts=parts)
    if summ is None:
        return
    got = 0
    for f, events, mm in S.validate(ctx, "ZScanTrace", cfg, files, name, timeout=timeout):
        stats["events"] += len(events)
        stats["segments"] += sum(1 for e in events if e.get("ev") == "reset")
        stats["iterations"] += sum(1 for e in events if e.get("ev") == "begin")
        stats["pages"] += sum(1 for e in events if e.get("ev") == "page")
        if not samples and len(events) > 30:
            samples.append({"engine": eng, "policy": policy, "excerpt": events[1:8]})
        for line, what in mm:
            s0, seg = V.segment_of(events, line)
            sig = S.scan_signature(eng, policy, seg)
            b = [x for x in seg if x.get("ev") == "begin"][-1:] or [{}]
            if len(json.dumps(seg[-1])) > 2000:     # big-COUNT pages: keep the report readable
                seg = seg[:-1] + [dict(seg[-1], els=seg[-1]["els"][:3] + ["...%d elements" % len(seg[-1]["els"])])]
                b = [dict(b[0], pop="1..%d" % len(b[0].get("pop", [])), m="all")]
                seg = [x if x.get("ev") != "begin" else dict(x, pop="...", m="...") for x in seg]
            txt = "%s/%s: %s line %d: iteration %s, observed %s; ZScan expects %s" % (
                eng, policy, os.path.basename(f), line, json.dumps(b[0], sort_keys=True)[:300],
                json.dumps(seg[-1], sort_keys=True)[:300], what[:300])
            # the replay bundle gets the iteration (from its begin event) with the world's reset
            k = max(i for i, x in enumerate(seg) if x.get("ev") == "begin") if b[0] else 0
            segf = os.path.join(ctx.sub("fail"), "%s-%s-%d.ndjson" % (name, os.path.basename(f), line))
            V.write_ndjson(segf, [seg[0]] + seg[k:])
            stats["mismatches"] += 1
            got += 1
            V.report_failure(ctx, sig, txt, files=[segf], script={driver: args, "engine": eng, "policy": policy})
    if expect and got == 0:
        ctx.notes.append("isolate stage %s produced no failure: known finding %s may be fixed" % (name, expect))
    stats["runs"].append({"stage": name, **{k: summ[k] for k in summ if k not in ("driver",)}})


def self_test(ctx, zr, stats):
    """The binding is real: corrupt one logged field / drop one line of a good trace and
    require rejection (DESIGN 4.5)."""
    summ, files = S.drive(ctx, zr, "scansim", "selftest", ["-eng", "pebble", "-seed", str(ctx.seed), "-segments", "2",
                                                           "-conc", "5", "-pool", "0"], parts=1)
    if not files:
        return
    ev = V.read_ndjson(files[0])
    rnd = random.Random(ctx.seed)
    pages = [i for i, e in enumerate(ev) if e.get("ev") == "page" and len(e["els"]) >= 2]
    variants = {}
    i = rnd.choice(pages)
    a = [dict(e) for e in ev]
    a[i]["els"] = a[i]["els"][:-1]                  # an element silently missing, cursor kept
    variants["element-dropped"] = a
    a = [dict(e) for e in ev]
    i = rnd.choice(pages)
    a[i]["els"] = [a[i]["els"][0]] + a[i]["els"]    # an element twice
    variants["element-twice"] = a
    a = [dict(e) for e in ev]
    i = rnd.choice([j for j in pages if ev[j]["next"] != 0] or pages)
    a[i]["next"] = a[i]["els"][0]                   # cursor is not the last element
    variants["cursor-not-last"] = a
    j = rnd.choice([k for k in pages if ev[k]["next"] != 0] or pages)
    variants["page-line-dropped"] = ev[:j] + ev[j + 1:]
    bad = []
    for name, tr in variants.items():
        p = os.path.join(ctx.sub("selftest"), name + ".ndjson")
        V.write_ndjson(p, tr)
        res = S.validate(ctx, "ZScanTrace", "ZScanTrace.cfg", [p], "selftest-" + name)
        if not res or not res[0][2]:
            bad.append(name)
    stats["selftest"] = {"variants": sorted(variants), "accepted_wrongly": bad}
    if bad:
        raise V.Inconclusive("self-test: corrupted traces were accepted: %s" % bad)


def run(ctx):
    zr = S.build(ctx)
    q = ctx.quick()
    # (A) the model
    cfg = "MC_ZScan_quick.cfg" if q else "MC_ZScan.cfg"
    # explicit heaps: TLC's default (a quarter of the RAM per JVM) gets JVMs killed on a busy box
    # VERIF_C13_MC_TIMEOUT: development knob to exercise the fallback path below
    mct = int(os.environ.get("VERIF_C13_MC_TIMEOUT", "0")) or (240 if q else 1500)
    r1 = V.tlc(ctx, "MC_ZScan", cfg, timeout=mct, workers=8, tag="mc", heap="6g")
    if not r1.ok and not r1.violated and not r1.timed_out:
        ctx.log("model run ended without a verdict (rc=%s); retrying once" % r1.rc)
        r1 = V.tlc(ctx, "MC_ZScan", cfg, timeout=240 if q else 1500, workers=8, tag="mc2", heap="6g")
    if r1.timed_out and not q:
        # the 4-element instance needs ~2 min on a free box but can exceed the timeout on a very busy
        # one: fall back to the 3-element instance so that the evidence carries a completed run
        ctx.notes.append("MC_ZScan.cfg timed out after %.0fs; fell back to MC_ZScan_quick.cfg" % r1.wall)
        cfg = "MC_ZScan_quick.cfg"
        r1 = V.tlc(ctx, "MC_ZScan", cfg, timeout=900, workers=8, tag="mc-fallback", heap="6g")
    V.require_model_ok(ctx, r1, "MC_ZScan")
    ctx.log("model: %d distinct states, %d transitions (%s)" % (r1.distinct, r1.generated, cfg))
    mutants = {}
    for m in (["foreign"] if q else ["inclusive", "first", "foreign", "earlyend"]):
        rm = V.tlc(ctx, "MC_ZScan", "MC_ZScan_mut_%s.cfg" % m, timeout=600, workers=4, tag="mut-" + m, heap="3g")
        mutants[m] = rm.violated
        if not rm.violated and not rm.timed_out:
            raise V.Inconclusive("spec mutant %s was not refuted: the invariants do not bite" % m)

    stats = dict(events=0, segments=0, iterations=0, pages=0, mismatches=0, runs=[])
    samples = []
    seg = "12" if q else "60"
    segs = "6" if q else "40"
    thin = "2" if q else "1"
    # plain SCAN/REVSCAN join the general corpus once the recorded finding is closed
    plain = [] if V.match_known("C13", {"family": "scan", "class": "cursor-not-an-element"}) else ["-plainscan"]
    # (B) general corpora: pebble is primary and takes every pool; the triggers of the
    # recorded open findings are kept out (see known_findings.d/C13-*.json)
    scan_stage(ctx, zr, "pebble-local", "pebble", "local", ["-segments", seg, "-thin", thin] + plain, stats, samples)
    scan_stage(ctx, zr, "pebble-compact", "pebble", "compact", ["-segments", segs, "-thin", thin, "-long", "8000"] + plain, stats, samples)
    scan_stage(ctx, zr, "mem-local", "mem", "local", ["-segments", segs, "-thin", thin, "-revempty=false"], stats, samples)
    if not q:
        scan_stage(ctx, zr, "mem-compact", "mem", "compact", ["-segments", segs, "-long", "8000", "-revempty=false"], stats, samples)
        for p in range(8):
            scan_stage(ctx, zr, "pebble-pool%d" % p, "pebble", "local", ["-segments", "6", "-pool", str(p)], stats, samples)
    # the server-side merge over several partitions: a real server with 3 single-replica partitions in the
    # driver's process; every merged iteration is decomposed into one iteration per partition
    norev = [] if not V.match_known("C13", {"driver": "mergesim", "rev": True, "no_count": True}) else ["-nocount-rev=false"]
    scan_stage(ctx, zr, "merge-3part", "pebble", "local", ["-segments", "3" if q else "12", "-P", "3", "-fullmatch-count"] + norev, stats, samples,
               driver="mergesim", cfg="ZScanTraceMerge.cfg", parts=2)
    if norev:
        scan_stage(ctx, zr, "isolate-merge-nocount-rev", "pebble", "local", ["-segments", "1", "-P", "3"], stats, samples,
                   expect="C13-merge-revscan-no-count", driver="mergesim", cfg="ZScanTraceMerge.cfg", parts=1)
    if not q:
        scan_stage(ctx, zr, "merge-5part", "pebble", "local", ["-segments", "4", "-P", "5", "-fullmatch-count"] + norev, stats, samples,
                   driver="mergesim", cfg="ZScanTraceMerge.cfg", parts=2)
    # COUNT around the store's batch limit (5 000) on a set of 5 203 members, forwards and in reverse - formerly
    # the isolate stage of C13-count-above-batch-limit (fixed 63306fe), now strict
    scan_stage(ctx, zr, "bigcount", "pebble", "local", ["-bigcount", "5203"] + ([] if q else ["-bigfull"]), stats, samples,
               cfg="ZScanTraceBig.cfg", parts=1, timeout=2400)
    # isolate stages: produce each recorded finding's trigger on purpose
    if not plain:
        scan_stage(ctx, zr, "isolate-plainscan", "pebble", "local", ["-segments", "3", "-spaces", "1", "-conc", "3", "-thin", "3", "-plainscan", "-collonly"],
                   stats, samples, expect="C13-scan-cursor-table-twice")
    # formerly the isolate stage of C13-match-nul-pattern (fixed 199b6ef): now strict - a pattern with
    # 0x00 must be refused with an error reply or answered with exactly the matching subset
    scan_stage(ctx, zr, "nulpat-strict", "pebble", "local", ["-segments", "2", "-spaces", "4", "-conc", "0", "-pool", "1"],
               stats, samples)
    scan_stage(ctx, zr, "isolate-mem-revempty", "mem", "local", ["-segments", "3", "-spaces", "6", "-conc", "0", "-thin", "4", "-collonly", "-pool", "6"],
               stats, samples, expect="C13-mem-reverse-seek-prefix-bound")
    scan_stage(ctx, zr, "isolate-compact-long", "pebble", "compact", ["-segments", "2", "-spaces", "3", "-conc", "0", "-pool", "5", "-thin", "4", "-collonly"],
               stats, samples, expect="C13-compact-long-key-scan")
    if not q:
        self_test(ctx, zr, stats)
    if stats["iterations"] == 0:
        raise V.Inconclusive("no iteration could be validated")
    cov = dict(
        states=r1.distinct, transitions=r1.generated,
        traces_validated_against_impl=stats["iterations"],
        samples=samples or [{"note": "no sample"}],
        model_run=dict(cfg=cfg, **r1.summary()), spec_mutants_refuted=mutants,
        worlds=stats["segments"], pages_checked=stats["pages"], events_validated=stats["events"],
        mismatching_iterations=stats["mismatches"], driver_runs=stats["runs"],
        selftest=stats.get("selftest"),
        rule="every page of every recorded iteration satisfies ZScan.PageOK on the model population (which knows "
             "nothing about other tables/types/collections) and every finished iteration satisfies IterOK "
             "(ScanCompleteOnceOrdered, NothingForeign, MatchExact, Terminates); TLC (ZScanTrace) decides",
        checker_cmd="tlc -config ZScanTrace.cfg ZScanTrace (ZR_TRACE=<part>)",
    )
    V.write_evidence(ctx, "model_checking", cov, assumptions=[
        "node-level handlers (cursor computation, table trimming) on a bare KVNode over a real store, plus the server-side "
        "merge (server/scan_merge.go) on a real server with 3 (thorough: also 5) single-replica partitions in one process; "
        "order across partitions is undefined, so a merged iteration is judged per partition (keys attributed with the "
        "routing function node.GetHashedPartitionID, per-partition cursors read out of the merged cursor)",
        "MATCH: '*'-prefixed suffix patterns everywhere, plus anchored patterns (literal prefix, a key equal to the prefix, "
        "'?', character classes, wildcards in the middle); SCAN/ADVSCAN apply a pattern to 'table:key' (as the server's own "
        "tests do), so for key spaces the driver sends table + ':' + pattern and only for plain ASCII table names; patterns that "
        "are not valid UTF-8 are refused by the glob library (an error, not a wrong subset); patterns with a 0x00 byte "
        "are part of the corpus: the first page must be an error reply without elements, or the iteration must return "
        "exactly the matching subset",
        "page contract is permissive where the documentation is silent: COUNT is an upper bound, the end mark may come "
        "with the last element or one page later",
        "a reverse iteration starts from an upper-bound cursor (documented); element names are non-empty",
        "FULLSCAN is driven through the merge stage only (elements = (key, field/member/list element) pairs, per type, with "
        "MATCH, with partitions dropped from / joining the cursor); its order is not documented: the storage order (kv: "
        "bytewise, collections: key length first) is taken as the iteration order; a list cursor is an internal sequence "
        "number and is taken to designate the last returned element; values / scores are not compared (C08)",
        "mem engine: prefix-free name pools only (recorded C20 finding on radix iterators)",
    ])
