"""C02 - see checks/_raft.py: exhaustive TLC families of spec/ZRaft.tla + real raft.Node traces
(harness raftsim) validated by spec/ZRaftTrace.tla with every ZRaft invariant on every state."""
import _raft


def run(ctx):
    _raft.run_check(ctx, "C02")
